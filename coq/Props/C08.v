(* C08 -- Saving and reloading compiled code preserves behaviour.
   Property theorems only; proofs live in Proofs/AvbcProofs.v.

   What these theorems carry: the *binary codec* half -- reading back what the writer wrote
   succeeds and yields exactly `normalize f` (the writer's deliberate changes: CallGlobalMono
   -> CallGlobal, the two cache words after either zeroed, call_site_count not stored, an
   empty name read back as no name), for every function within the format's sizes, by
   structural induction including nested functions.  That `normalize` preserves *behaviour*
   (it does not: the zeroed cache words held the call-site slot ids) and the assembly-text
   round trip are explored by the tie (hx_avbc), not proved here. *)
From Aelys Require Import Base.Tactics Extracted.ValueConsts Extracted.AvbcLayout
  Model.Value Model.Avbc Proofs.AvbcProofs.
Local Open Scope N_scope.

(* the layout the source currently has is one the reader can invert at all:
   reader tags = writer tags, pairwise distinct; magic is 4 bytes; version fits u16 *)
Theorem C08_layout_consistent :
  TAGR_NULL = TAGW_NULL /\ TAGR_BOOL = TAGW_BOOL /\ TAGR_INT = TAGW_INT /\ TAGR_FLOAT = TAGW_FLOAT
  /\ TAGR_STRING = TAGW_STRING /\ TAGR_FUNC = TAGW_FUNC /\ TAGR_PTR = TAGW_PTR
  /\ NoDup [TAGW_NULL; TAGW_BOOL; TAGW_INT; TAGW_FLOAT; TAGW_STRING; TAGW_FUNC; TAGW_PTR]
  /\ lenN MAGIC = 4 /\ VERSION < W16 /\ OP_REWRITE < 256 /\ LIM_PTR = W48 - 1.
Proof. exact layout_facts. Qed.

(* read (write f) = Ok (normalize f) for ALL functions whose fields have the Rust types'
   ranges (in_types) and whose tables fit the format (wf_sizes); with and without debug
   assertions.  No bound on the size of f other than wf_sizes itself. *)
Theorem C08_read_write : forall (dbg : bool) (f : func),
  in_types f -> wf_sizes f -> read dbg (write f) = ROk (normalize f).
Proof. exact read_write_lemma. Qed.

(* the full statement without wf_sizes is false of the code: a count is written `as u16`
   while all entries are written, so a function with 65 536 line-table entries reads back
   "successfully" as a different function ... *)
Theorem C08_write_truncates_refuted :
  exists f, in_types f /\ exists g, read true (write f) = ROk g /\ read false (write f) = ROk g
                                     /\ g <> normalize f.
Proof. exact write_truncates_lemma. Qed.

(* ... and "reading back what was written never fails" is false: the writer accepts 4 097
   nested functions, the reader's MAX_NESTED_FUNCTIONS rejects them *)
Theorem C08_read_back_fails_refuted :
  exists f, in_types f /\ read true (write f) = RErr (ELimit 4) /\ read false (write f) = RErr (ELimit 4).
Proof. exact read_back_fails_lemma. Qed.

(* non-vacuity: a function with two levels of nested functions, every constant kind
   (int, string with multi-byte UTF-8, float, canonical NaN, bool, null, raw pointer, function
   markers), patched call opcodes and cache words satisfies the hypotheses, round-trips, and
   is really changed by normalize *)
Example C08_nonvacuous :
  in_types ex_top /\ wf_sizes ex_top
  /\ read true (write ex_top) = ROk (normalize ex_top)
  /\ normalize ex_top <> ex_top /\ height ex_top = 2.
Proof. exact ex_top_ok. Qed.
