(* C08 -- Saving and reloading compiled code preserves behaviour.
   Property theorems only; proofs live in Proofs/AvbcProofs.v.

   What these theorems carry: the *binary codec* half -- reading back what the writer wrote
   succeeds and yields exactly `normalize f` (the writer's deliberate changes: CallGlobalMono
   -> CallGlobal, the two cache words after either zeroed, call_site_count not stored, an
   empty name read back as no name), for every function within the format's sizes, by
   structural induction including nested functions.  That `normalize` preserves *behaviour*
   (it does not: the zeroed cache words held the call-site slot ids) and the assembly-text
   round trip are explored by the tie (hx_avbc), not proved here. *)
From Aelys Require Import Base.Tactics Extracted.ValueConsts Extracted.AvbcLayout
  Model.Value Model.Avbc Proofs.AvbcProofs Model.AasmTypes Extracted.AasmTable Model.Aasm Proofs.AasmProofs Extracted.AasmEscapes Model.AasmStr Proofs.AasmStrProofs Model.AasmTree Proofs.AasmTreeProofs.
Local Open Scope N_scope.

(* the layout the source currently has is one the reader can invert at all:
   reader tags = writer tags, pairwise distinct; magic is 4 bytes; version fits u16 *)
Theorem C08_layout_consistent :
  TAGR_NULL = TAGW_NULL /\ TAGR_BOOL = TAGW_BOOL /\ TAGR_INT = TAGW_INT /\ TAGR_FLOAT = TAGW_FLOAT
  /\ TAGR_STRING = TAGW_STRING /\ TAGR_FUNC = TAGW_FUNC /\ TAGR_PTR = TAGW_PTR
  /\ NoDup [TAGW_NULL; TAGW_BOOL; TAGW_INT; TAGW_FLOAT; TAGW_STRING; TAGW_FUNC; TAGW_PTR]
  /\ lenN MAGIC = 4 /\ VERSION < W16 /\ OP_REWRITE < 256 /\ LIM_PTR = W48 - 1.
Proof. exact layout_facts. Qed.

(* try_serialize then deserialize = Ok (normalize f) for ALL functions whose fields have the Rust
   types' ranges (in_types): whatever the writer returns, the reader reads back.  No size
   hypothesis: the writer validates (check_function, /repo 6d687a0). *)
Theorem C08_read_write : forall (dbg : bool) (f : func) (bs : list N),
  in_types f -> write f = WOk bs -> read dbg bs = ROk (normalize f).
Proof. exact read_write_full. Qed.

(* the writer succeeds exactly on the functions the format can represent and the reader accepts
   (counts fit their fields and the reader's limits, nesting <= 64, markers have their function) *)
Theorem C08_write_defined_iff : forall f : func,
  (wf_sizes f -> write f = WOk (write_bytes f)) /\ (~ wf_sizes f -> exists e, write f = WErr e).
Proof. intro f. split; [apply write_accepts_wf | apply write_rejects]. Qed.

(* the two former defects are now errors of the writer: 65 536 line entries, 4 097 nested functions *)
Theorem C08_writer_rejects_unrepresentable :
  write trunc_witness = WErr (WLimit 6) /\ write toomany_witness = WErr (WLimit 4).
Proof. exact (conj writer_rejects_truncation writer_rejects_toomany). Qed.

(* about the OLD writer (write_bytes alone, before 6d687a0; kept as a record of the defect):
   65 536 line entries were written with count 0 and read back as a different function,
   4 097 nested functions were written and then rejected by the reader *)
Theorem C08_unchecked_writer_was_lossy :
  (exists f, in_types f /\ exists g, read true (write_bytes f) = ROk g /\ read false (write_bytes f) = ROk g
                                     /\ g <> normalize f)
  /\ (exists f, in_types f /\ read true (write_bytes f) = RErr (ELimit 4) /\ read false (write_bytes f) = RErr (ELimit 4)).
Proof. exact (conj write_truncates_lemma read_back_fails_lemma). Qed.

(* non-vacuity: a function with two levels of nested functions, every constant kind
   (int, string with multi-byte UTF-8, float, canonical NaN, bool, null, raw pointer, function
   markers), patched call opcodes and cache words satisfies the hypotheses, round-trips, and
   is really changed by normalize *)
Example C08_nonvacuous :
  in_types ex_top /\ wf_sizes ex_top
  /\ (exists bs, write ex_top = WOk bs /\ read true bs = ROk (normalize ex_top))
  /\ normalize ex_top <> ex_top /\ Avbc.height ex_top = 2.
Proof. exact ex_top_ok. Qed.

(* ---- the assembly text format, instruction level ----------------------------------------
   The per-opcode operand table is regenerated from disasm.rs (what is printed) and opcodes.rs
   (what is parsed) on every run.  table_ok says: for EVERY opcode the assembler knows the
   mnemonic, encodes the same opcode, reads the same operands in the same order into the same
   instruction fields, and appends as many cache words as the disassembler skips; mnemonics and
   opcodes are pairwise distinct.  A mnemonic the disassembler prints and the assembler lacks
   (KF-C08-6) or a swapped operand (KF-C08-7) makes this false and names the row. *)
Theorem C08_aasm_table_consistent : table_ok aasm_table = true.
Proof. exact table_ok_now. Qed.

(* assemble(disassemble w) = w followed by its zeroed cache words, for every instruction word
   whose opcode is in the table and whose unshown fields are zero (the text cannot carry them)
   -- all 172 opcodes, all operand values; for any table that is consistent, hence for the
   extracted one *)
Theorem C08_aasm_instr_roundtrip : forall (i : instr) op name sh cache asm,
  find_op (i_op i) aasm_table = Some (Row op name sh cache asm) ->
  canonical sh i = true ->
  reassemble (word_of i) = Some (word_of i :: repeat 0 (N.to_nat cache)).
Proof. exact reassemble_word. Qed.

Example C08_aasm_nonvacuous :
  reassemble (word_of (Instr 0 3 7 0)) = Some [word_of (Instr 0 3 7 0)]
  /\ reassemble (word_of (Instr 77 2 1 3)) = Some [word_of (Instr 77 2 1 3); 0; 0]
  /\ reassemble (word_of (Instr 1 4 255 254)) = Some [word_of (Instr 1 4 255 254)]
  /\ reassemble (word_of (Instr 33 1 9 2)) = Some [word_of (Instr 33 1 9 2)]
  /\ reassemble (word_of (Instr 134 1 2 3)) = Some [word_of (Instr 134 1 2 3)]
  /\ reassemble (word_of (Instr 125 0 0 0)) = None.
Proof. exact reassemble_examples. Qed.

(* string literals (.name, .globals, string constants): the assembler's read_string inverts the
   disassembler's escape_string for EVERY sequence of characters, whatever follows the closing
   quote; the two escape tables are regenerated from the source and must be mutually inverse *)
Theorem C08_aasm_escape_tables_consistent : esc_tables_ok = true.
Proof. exact esc_tables_ok_now. Qed.

Theorem C08_aasm_string_roundtrip : forall (s rest : list N),
  unescape (escape s ++ QUOTE :: rest) = Some (s, rest).
Proof. exact unescape_escape. Qed.

Example C08_aasm_string_nonvacuous :
  escape [97; 10; 34; 92; 0; 1; 127; 133; 233; 128512] = [97; 92; 110; 92; 34; 92; 92; 92; 48; 92; 120; 48; 49; 92; 120; 55; 102; 133; 233; 128512]
  /\ unescape [97; 92; 120; 99; 50; 34] = Some ([97; 194], []).
Proof. exact escape_examples. Qed.

(* the nested-function hierarchy: the disassembler lists functions in pre-order with `.nested <count>`,
   the assembler's stack algorithm (rebuild_hierarchy) puts back exactly the tree it came from, for every
   tree at most 64 levels deep, whatever the functions themselves contain (KF-C08-5's repair, 68afa7f) *)
Theorem C08_aasm_hierarchy_roundtrip : forall (A : Type) (t : tree A),
  (AasmTree.height t <= MAX_FUNCTION_NESTING)%nat -> rebuild (flatten t) = Some (Some t).
Proof. exact rebuild_flatten. Qed.
