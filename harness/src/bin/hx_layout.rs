//! C18 contract tie: random struct-definition graphs through the real
//! `aelys_air::layout::compute_layouts` / `layout_of` under catch_unwind (compute_layouts is the
//! panicking wrapper of try_compute_layouts: the panic message is the LayoutError's Display text;
//! the error-returning path is exercised through the driver pipeline by `--api-probe`).
//! One line per case:  <Coq query>\t<Coq observation>\t<compact program>\t<class>
//!
//! compact syntax (also read back by `--corpus FILE`, one program per line, `#` comments):
//!   program := struct (' ' struct)*        struct := S<num> '{' (type (';' type)*)? '}'
//!   type := i8|i16|i32|i64|u8|u16|u32|u64|f32|f64|bool|str|fnptr|param|void
//!         | ptr(type) | slice(type) | arr(type,n) | s:S<num>
use aelys_air::layout::{compute_layouts, layout_of};
use aelys_air::{AirProgram, AirStructDef, AirStructField, AirType, CallingConv, TypeParamId};
use hxlib::*;

#[derive(Clone, Debug)]
enum T {
    P(&'static str), // Coq constructor suffix of `prim`: I8 ... Void
    Ptr(Box<T>),
    Slice(Box<T>),
    Struct(u64),
    Arr(Box<T>, u64),
}
type Prog = Vec<(u64, Vec<T>)>;

const SCALARS: [&str; 11] = ["I8", "I16", "I32", "I64", "U8", "U16", "U32", "U64", "F32", "F64", "Bool"];

fn to_air(t: &T) -> AirType {
    match t {
        T::P(p) => match *p {
            "I8" => AirType::I8, "I16" => AirType::I16, "I32" => AirType::I32, "I64" => AirType::I64,
            "U8" => AirType::U8, "U16" => AirType::U16, "U32" => AirType::U32, "U64" => AirType::U64,
            "F32" => AirType::F32, "F64" => AirType::F64, "Bool" => AirType::Bool, "Str" => AirType::Str,
            "FnPtr" => AirType::FnPtr { params: vec![AirType::I32, AirType::Struct("S0".into())], ret: Box::new(AirType::Void), conv: CallingConv::Aelys },
            "Param" => AirType::Param(TypeParamId(0)),
            "Void" => AirType::Void,
            other => panic!("harness: unknown prim {other}"),
        },
        T::Ptr(i) => AirType::Ptr(Box::new(to_air(i))),
        T::Slice(i) => AirType::Slice(Box::new(to_air(i))),
        T::Struct(n) => AirType::Struct(format!("S{n}")),
        T::Arr(i, n) => AirType::Array(Box::new(to_air(i)), *n),
    }
}
fn coq_ty(t: &T) -> String {
    match t {
        T::P(p) => format!("TPrim P{p}"),
        T::Ptr(i) => format!("TPtr ({})", coq_ty(i)),
        T::Slice(i) => format!("TSlice ({})", coq_ty(i)),
        T::Struct(n) => format!("TStruct {n}"),
        T::Arr(i, n) => format!("TArray ({}) {}", coq_ty(i), n),
    }
}
fn compact_ty(t: &T) -> String {
    match t {
        T::P(p) => p.to_lowercase(),
        T::Ptr(i) => format!("ptr({})", compact_ty(i)),
        T::Slice(i) => format!("slice({})", compact_ty(i)),
        T::Struct(n) => format!("s:S{n}"),
        T::Arr(i, n) => format!("arr({},{})", compact_ty(i), n),
    }
}
fn coq_prog(p: &Prog) -> String {
    let ss: Vec<String> = p.iter().map(|(n, fs)| {
        let f: Vec<String> = fs.iter().map(coq_ty).collect();
        format!("({}, [{}])", n, f.join("; "))
    }).collect();
    format!("[{}]", ss.join("; "))
}
fn compact_prog(p: &Prog) -> String {
    let ss: Vec<String> = p.iter().map(|(n, fs)| {
        let f: Vec<String> = fs.iter().map(compact_ty).collect();
        format!("S{}{{{}}}", n, f.join(";"))
    }).collect();
    ss.join(" ")
}

// ---- parser for the compact syntax (corpus replay)
struct Ps<'a> { s: &'a [u8], i: usize }
impl<'a> Ps<'a> {
    fn eat(&mut self, lit: &str) -> bool {
        if self.s[self.i..].starts_with(lit.as_bytes()) { self.i += lit.len(); true } else { false }
    }
    fn num(&mut self) -> u64 {
        let st = self.i;
        while self.i < self.s.len() && self.s[self.i].is_ascii_digit() { self.i += 1; }
        std::str::from_utf8(&self.s[st..self.i]).unwrap().parse().expect("number")
    }
    fn ty(&mut self) -> T {
        if self.eat("ptr(") { let t = self.ty(); assert!(self.eat(")")); return T::Ptr(Box::new(t)); }
        if self.eat("slice(") { let t = self.ty(); assert!(self.eat(")")); return T::Slice(Box::new(t)); }
        if self.eat("arr(") { let t = self.ty(); assert!(self.eat(",")); let n = self.num(); assert!(self.eat(")")); return T::Arr(Box::new(t), n); }
        if self.eat("s:S") { return T::Struct(self.num()); }
        for p in ["I8", "I16", "I32", "I64", "U8", "U16", "U32", "U64", "F32", "F64", "Bool", "Str", "FnPtr", "Param", "Void"] {
            // longest match first is not needed: no keyword is a prefix of another one followed by a delimiter
            let low = p.to_lowercase();
            if self.s[self.i..].starts_with(low.as_bytes()) {
                let end = self.i + low.len();
                if end == self.s.len() || !self.s[end].is_ascii_alphanumeric() { self.i = end; return T::P(p); }
            }
        }
        panic!("harness: bad type at byte {} of {:?}", self.i, std::str::from_utf8(self.s).unwrap());
    }
    fn prog(&mut self) -> Prog {
        let mut out = Vec::new();
        loop {
            while self.i < self.s.len() && self.s[self.i] == b' ' { self.i += 1; }
            if self.i >= self.s.len() { break; }
            assert!(self.eat("S"), "struct name");
            let n = self.num();
            assert!(self.eat("{"));
            let mut fs = Vec::new();
            if !self.eat("}") {
                loop {
                    fs.push(self.ty());
                    if self.eat(";") { continue; }
                    assert!(self.eat("}"));
                    break;
                }
            }
            out.push((n, fs));
        }
        out
    }
}

// ---- running the real code
thread_local! { static NEEDLES: std::cell::RefCell<Vec<(String, String)>> = std::cell::RefCell::new(Vec::new()); }

/// error kind behind a panic message: first by the literal fragments of LayoutError's Display arms
/// that the translator read from the current source (`--needles FILE`, lines `KIND<TAB>fragment`),
/// then by the fragments of the source as it was when this harness was written
fn classify_panic(msg: &str) -> &'static str {
    let hit = NEEDLES.with(|n| n.borrow().iter().find(|(_, f)| msg.contains(f.as_str())).map(|(k, _)| k.clone()));
    match hit.as_deref() {
        Some("ODiagSelf") | Some("ODiagCycle") => return "ODiag",
        Some("OUnresolved") => return "OUnresolved",
        Some("OTooLarge") => return "OTooLarge",
        _ => {}
    }
    if msg.contains("has infinite size") || msg.contains("recursive struct cycle") { "ODiag" }
    else if msg.contains("referenced before its layout is computed") { "OUnresolved" }
    else if msg.contains("is too large") { "OTooLarge" }
    else if msg.starts_with("attempt to") && msg.contains("overflow") { "OOverflow" }
    else if msg.contains("requires program context") { "ONeedsContext" }
    else { "OOther" }
}

fn run_compute(p: &Prog) -> String {
    let structs: Vec<AirStructDef> = p.iter().map(|(n, fs)| AirStructDef {
        name: format!("S{n}"),
        type_params: vec![],
        fields: fs.iter().enumerate().map(|(i, t)| AirStructField { name: format!("f{i}"), ty: to_air(t), offset: None }).collect(),
        is_closure_env: false,
        span: None,
    }).collect();
    let mut prog = AirProgram { functions: vec![], structs, globals: vec![], source_files: vec![], mono_instances: vec![] };
    let r = guarded(std::panic::AssertUnwindSafe(|| { compute_layouts(&mut prog); }));
    match r {
        Ok(()) => laid_obs(&prog),
        Err(m) => {
            // "diagnosed rather than laid out": a rejected program must not carry any offset
            if prog.structs.iter().any(|s| s.fields.iter().any(|f| f.offset.is_some())) { return "ODirty".to_string(); }
            let k = NEEDLES.with(|n| n.borrow().iter().find(|(_, f)| m.contains(f.as_str())).map(|(k, _)| k.clone())).unwrap_or_default();
            DIAG_DETAIL.with(|d| *d.borrow_mut() = if k == "ODiagSelf" || m.contains("has infinite size") { "selfref" } else if k == "ODiagCycle" || m.contains("recursive struct cycle") { "cycle" } else { "" });
            classify_panic(&m).to_string()
        }
    }
}

/// offsets as stored in the program + the `[size=, align=]` the toolchain prints for each struct
/// (print::print_program recomputes them: it is the only place where size and alignment are reported)
fn laid_obs(prog: &AirProgram) -> String {
    let ss: Vec<String> = prog.structs.iter().map(|s| {
        if s.fields.iter().any(|f| f.offset.is_none()) { "None".to_string() } else {
            let o: Vec<String> = s.fields.iter().map(|f| f.offset.unwrap().to_string()).collect();
            format!("Some [{}]", o.join("; "))
        }
    }).collect();
    let printed = match guarded(std::panic::AssertUnwindSafe(|| aelys_air::print::print_program(prog))) {
        Ok(t) => t,
        Err(_) => return "OPrintPanic".to_string(),
    };
    let mut sa: Vec<String> = Vec::new();
    for line in printed.lines() {
        let l = line.trim();
        if let Some(rest) = l.strip_prefix("[size=") {
            if let Some((sz, rest)) = rest.split_once(", align=") {
                if let (Ok(a), Ok(b)) = (sz.parse::<u64>(), rest.trim_end_matches(']').parse::<u64>()) { sa.push(format!("Some ({}, {})", a, b)); }
            }
        }
    }
    if sa.len() != prog.structs.len() { return "OOther".to_string(); }
    format!("OLaid [{}] [{}]", ss.join("; "), sa.join("; "))
}

// ---- the source-text path of `aelys compile --emit-air`: lexer, parser, sema, lower, layout, print
const UNICODE_NAMES: [&str; 8] = ["Élan", "Ωmega", "Ärmel", "Öse", "Жук", "Ñandú", "Şekil", "Δelta"];
fn sname_src(n: u64) -> String {
    match n {
        7001 => "Int".into(), 7002 => "Float".into(), 7003 => "Missing".into(),
        7101..=7108 => UNICODE_NAMES[(n - 7101) as usize].into(),   // non-ASCII capitals: Latin-1, Greek, Cyrillic, Latin Extended
        _ => format!("S{n}"),
    }
}
fn src_ty(t: &T) -> Option<(String, String)> {
    // (type as written in source, type as the AIR printer shows it)
    Some(match t {
        T::P("I8") => ("i8".into(), "i8".into()), T::P("I16") => ("i16".into(), "i16".into()), T::P("I32") => ("i32".into(), "i32".into()),
        T::P("I64") => ("int".into(), "i64".into()), T::P("U8") => ("u8".into(), "u8".into()), T::P("U16") => ("u16".into(), "u16".into()),
        T::P("U32") => ("u32".into(), "u32".into()), T::P("U64") => ("u64".into(), "u64".into()), T::P("F32") => ("f32".into(), "f32".into()),
        T::P("F64") => ("float".into(), "f64".into()), T::P("Bool") => ("bool".into(), "bool".into()), T::P("Str") => ("string".into(), "str".into()),
        T::Slice(i) => { let (a, b) = src_ty(i)?; (format!("array<{}>", a), format!("[{}]", b)) }
        T::Struct(n) => (sname_src(*n), sname_src(*n)),
        _ => return None,
    })
}
/// where a declaration stands: 0 top level, 1 inside `if true { }` at top level, 2 in a function body
/// before its return, 3 in the function body after the return, 4 at top level after a `return 0`,
/// 5 inside `if false { }`, 6 in the `else` of `if true`, 7 inside `while false { }` (all top level),
/// 8 in a nested block behind the function's return, 9 inside `if false { }` in the function body
fn to_source(p: &Prog, place: &[u8]) -> Option<(String, Vec<Vec<String>>)> {
    let mut regions: Vec<String> = vec![String::new(); 10];
    let mut shown = Vec::new();
    for (k, (n, fs)) in p.iter().enumerate() {
        let mut fl = Vec::new();
        let mut sh = Vec::new();
        for (i, t) in fs.iter().enumerate() { let (a, b) = src_ty(t)?; fl.push(format!("f{}: {}", i, a)); sh.push(b); }
        let decl = format!("struct {} {{ {} }}\n", sname_src(*n), fl.join(", "));
        let r = *place.get(k).unwrap_or(&0) as usize;
        regions[r].push_str(&match r {
            1 => format!("if true {{\n{}}}\n", decl),
            5 | 9 => format!("if false {{\n{}}}\n", decl),
            6 => format!("if true {{ 1 }} else {{\n{}}}\n", decl),
            7 => format!("while false {{\n{}}}\n", decl),
            8 => format!("{{\n{}}}\n", decl),
            _ => decl,
        });
        shown.push(sh);
    }
    let mut src = String::new();
    src.push_str(&regions[0]);
    src.push_str(&regions[1]);
    src.push_str(&regions[5]);
    src.push_str(&regions[6]);
    src.push_str(&regions[7]);
    let has_fn = [2usize, 3, 8, 9].iter().any(|&r| !regions[r].is_empty());
    if has_fn { src.push_str(&format!("fn f() -> int {{\n{}{}return 1\n{}{}}}\n", regions[2], regions[9], regions[3], regions[8])); }
    if !regions[4].is_empty() { src.push_str(&format!("return 0\n{}", regions[4])); } else { src.push_str(if has_fn { "f()\n" } else { "1\n" }); }
    Some((src, shown))
}
fn run_source(src: &str, p: &Prog, shown: &[Vec<String>], opt: u32) -> String {
    use aelys_frontend::lexer::Lexer;
    use aelys_frontend::parser::Parser;
    let source = aelys_syntax::Source::new("<verif>", src);
    let r = guarded(std::panic::AssertUnwindSafe(|| -> Result<AirProgram, String> {
        let tokens = Lexer::with_source(source.clone()).scan().map_err(|e| format!("lex: {e}"))?;
        let ast = Parser::new(tokens, source.clone()).parse().map_err(|e| format!("parse: {e}"))?;
        let typed = aelys_sema::TypeInference::infer_program(ast, source.clone()).map_err(|es| format!("sema: {}", es.len()))?;
        let level = match opt { 0 => aelys_opt::OptimizationLevel::None, 1 => aelys_opt::OptimizationLevel::Basic, 2 => aelys_opt::OptimizationLevel::Standard, _ => aelys_opt::OptimizationLevel::Aggressive };
        let typed = aelys_opt::Optimizer::new(level).optimize(typed);
        let mut air = aelys_air::lower::lower(&typed);
        compute_layouts(&mut air);
        Ok(air)
    }));
    match r {
        Ok(Ok(mut air)) => {
            // the declared structs, in the order of the expected program (the AIR lists top-level ones first)
            let user: Vec<AirStructDef> = air.structs.iter().filter(|s| !s.is_closure_env).cloned().collect();
            if user.len() != shown.len() { return "OTypeMismatch".into(); }
            let mut used = vec![false; user.len()];
            let mut ordered = Vec::new();
            for ((n, _), sh) in p.iter().zip(shown) {
                let want = sname_src(*n);
                let Some(k) = (0..user.len()).find(|&k| !used[k] && user[k].name == want) else { return "OTypeMismatch".into() };
                used[k] = true;
                let got: Vec<String> = user[k].fields.iter().map(|f| aelys_air::print::fmt_type(&f.ty)).collect();
                if &got != sh { return "OTypeMismatch".into(); }
                ordered.push(user[k].clone());
            }
            air.structs = ordered;
            air.functions.clear();
            laid_obs(&air)
        }
        Ok(Err(e)) => { DIAG_DETAIL.with(|d| *d.borrow_mut() = "frontend"); let _ = e; "OOther".into() }
        Err(m) => {
            let k = NEEDLES.with(|n| n.borrow().iter().find(|(_, f)| m.contains(f.as_str())).map(|(k, _)| k.clone())).unwrap_or_default();
            DIAG_DETAIL.with(|d| *d.borrow_mut() = if k == "ODiagSelf" || m.contains("has infinite size") { "selfref" } else if k == "ODiagCycle" || m.contains("recursive struct cycle") { "cycle" } else { "" });
            classify_panic(&m).to_string()
        }
    }
}
fn emit_src_at(p: &Prog, place: &[u8], class: &str, opts: &[u32]) {
    if let Some((src, shown)) = to_source(p, place) {
        for &opt in opts {
            DIAG_DETAIL.with(|d| *d.borrow_mut() = "");
            let o = run_source(&src, p, &shown, opt);
            let detail = DIAG_DETAIL.with(|d| *d.borrow());
            println!("QCompute {}\t{}\t{}\t{}\t{}O{}", coq_prog(p), o, compact_prog(p), class, if detail.is_empty() { String::new() } else { format!("{detail}:") }, opt);
        }
    }
}
fn emit_src(p: &Prog, class: &str) { emit_src_at(p, &[], class, &[0]); }
fn gen_src_ty(rng: &mut Rng, lower: &[u64], all: &[u64]) -> T {
    let k = rng.below(100);
    if k < 35 && !lower.is_empty() { T::Struct(*rng.pick(lower)) }
    else if k < 45 { let inner = if !all.is_empty() && rng.chance(1, 2) { T::Struct(*rng.pick(all)) } else { T::P(*rng.pick(&SCALARS)) }; T::Slice(Box::new(inner)) }
    else if k < 52 { T::P("Str") }
    else { T::P(*rng.pick(&SCALARS)) }
}
/// struct declarations as source text: every declaration order (embedding a struct declared later is
/// the common case), self containment and by-value cycles, aggregates that are larger but less
/// aligned than a sibling field
fn source_stream(rng: &mut Rng, cases: u64) {
    // fixed cases first
    let fixed: Vec<(Prog, &str)> = vec![
        (vec![(3, vec![T::P("I8"), T::Struct(2)]), (2, vec![T::P("I64"), T::Struct(1)]), (1, vec![T::P("F32"), T::P("F32"), T::P("F32")])], "src-wf"),
        (vec![(1, vec![T::P("F32"), T::P("F32"), T::P("F32")]), (2, vec![T::P("I64"), T::Struct(1)]), (3, vec![T::P("I8"), T::Struct(2)])], "src-wf"),
        (vec![(2, vec![T::Struct(1), T::P("U8")]), (1, vec![T::P("U8"), T::P("U8"), T::P("U8"), T::P("U8"), T::P("U8")])], "src-wf"),
        (vec![(1, vec![T::P("I64"), T::Struct(1)])], "src-self"),
        (vec![(1, vec![T::Struct(2)]), (2, vec![T::P("U8"), T::Struct(1)])], "src-cycle"),
        (vec![(1, vec![T::Struct(2)]), (2, vec![T::Struct(3)]), (3, vec![T::P("F64"), T::Struct(1)])], "src-cycle"),
    ];
    for (p, c) in &fixed { emit_src(p, c); }
    let ab: Prog = vec![(1, vec![T::P("I8"), T::Struct(2), T::P("I8")]), (2, vec![T::P("I8"), T::P("I8")])];
    let all = [0u32, 1, 2, 3];
    emit_src_at(&ab, &[2, 2], "src-nested", &all);          // both in a function body, the embedding one first
    emit_src_at(&ab, &[0, 1], "src-nested", &all);          // embedded struct declared in a top-level block
    emit_src_at(&ab, &[0, 2], "src-nested", &all);          // ... in a function body
    emit_src_at(&ab, &[0, 3], "src-after-return", &all);    // ... in a function body after its return
    emit_src_at(&ab, &[0, 4], "src-after-return", &all);    // ... at top level after `return 0`
    for r in [5u8, 6, 7, 8, 9] { emit_src_at(&ab, &[0, r], "src-dead-branch", &all); }   // ... in code the optimizer removes
    emit_src_at(&ab, &[2, 9], "src-dead-branch", &all);
    let outer: Prog = vec![(1, vec![T::P("I8"), T::Struct(2), T::P("U16")]), (2, vec![T::P("I32"), T::P("I64")])];
    emit_src_at(&outer, &[0, 5], "src-dead-branch", &all);
    // struct names that start with a non-ASCII capital letter: embedded by value, self reference, cycle
    for k in 0..8u64 {
        let u = 7101 + k;
        emit_src_at(&vec![(u, vec![T::P("I8"), T::P("I8")]), (1, vec![T::P("I8"), T::Struct(u), T::P("I16")])], &[0, 0], "src-unicode", &[0, 2]);
        emit_src_at(&vec![(1, vec![T::P("I8"), T::Struct(u), T::P("I16")]), (u, vec![T::P("I8"), T::P("I8")])], &[2, 2], "src-unicode", &[0]);
        emit_src_at(&vec![(u, vec![T::P("I8"), T::Struct(u)])], &[0], "src-unicode", &[0]);
        let v = 7101 + (k + 1) % 8;
        emit_src_at(&vec![(u, vec![T::P("I8"), T::Struct(v)]), (v, vec![T::P("I16"), T::Struct(u)])], &[0, 0], "src-unicode", &[0]);
    }
    // every spelling of every scalar type the front end accepts (list read from the source by the translator)
    if let Some(f) = arg("--spellings") {
        if let Ok(txt) = std::fs::read_to_string(&f) {
            for line in txt.lines() {
                let Some((sp, prim)) = line.split_once('\t') else { continue };
                let Some(pr) = SCALARS.iter().chain(["Str"].iter()).find(|x| **x == prim).copied() else { continue };
                let p: Prog = vec![(1, vec![T::P("U8"), T::P(pr), T::P("U8")])];
                let shown = vec![vec!["u8".to_string(), src_ty(&T::P(pr)).unwrap().1, "u8".to_string()]];
                let mut variants = vec![sp.to_string()];
                let mut cs = sp.chars();
                if let Some(c0) = cs.next() { variants.push(c0.to_uppercase().collect::<String>() + cs.as_str()); }
                for v in variants {
                    let src = format!("struct S1 {{ f0: u8, f1: {}, f2: u8 }}\n1\n", v);
                    let o = run_source(&src, &p, &shown, 0);
                    println!("QCompute {}\t{}\t{}\t{}\t{}", coq_prog(&p), o, compact_prog(&p), "src-spelling", format!("{v}:O0"));
                }
            }
        }
    }
    let cyc: Prog = vec![(1, vec![T::P("I8"), T::Struct(2)]), (2, vec![T::P("I8"), T::Struct(1)])];
    emit_src_at(&cyc, &[0, 4], "src-cycle", &all);          // the cycle is closed by a declaration after `return 0`
    emit_src_at(&cyc, &[2, 3], "src-cycle", &all);
    emit_src_at(&vec![(1, vec![T::P("I8"), T::Struct(7003), T::P("I8")])], &[0], "src-undef", &all);
    emit_src_at(&vec![(7001, vec![T::P("I8")]), (7002, vec![T::P("I8")]), (1, vec![T::Struct(7001), T::Struct(7002), T::P("I8")])], &[0, 0, 0], "src-builtin-name", &all);
    emit_src_at(&vec![(1, vec![T::P("I8")]), (1, vec![T::P("I64"), T::P("I8")]), (2, vec![T::P("I8"), T::Struct(1)])], &[0, 0, 0], "src-dup", &all);
    for _ in 0..cases {
        let n = 1 + rng.below(8) as usize;
        let mut names: Vec<u64> = (1..=n as u64).collect();
        shuffle(rng, &mut names);
        if rng.chance(1, 3) { for nm in names.iter_mut() { if rng.chance(1, 2) { *nm += 7100; } } }   // n <= 8: distinct non-ASCII names
        let mut p: Prog = Vec::new();
        for i in 0..n {
            let nf = 1 + rng.below(6) as usize;
            let lower: Vec<u64> = names[..i].to_vec();
            p.push((names[i], (0..nf).map(|_| gen_src_ty(rng, &lower, &names)).collect()));
        }
        match rng.below(10) {
            0 | 1 => { // self containment
                let a = rng.below(p.len() as u64) as usize; let nm = p[a].0;
                insert_field(rng, &mut p[a].1, T::Struct(nm)); shuffle(rng, &mut p); emit_src(&p, "src-self");
            }
            2 | 3 => { // by-value cycle
                if p.len() < 2 { p.push((50, vec![T::P("U8")])); }
                let len = 2 + rng.below((p.len() as u64 - 1).min(3)) as usize;
                let mut idx: Vec<usize> = (0..p.len()).collect(); shuffle(rng, &mut idx);
                for w in 0..len { let to = p[idx[(w + 1) % len]].0; insert_field(rng, &mut p[idx[w]].1, T::Struct(to)); }
                shuffle(rng, &mut p); emit_src(&p, "src-cycle");
            }
            4 | 5 | 6 => { // declarations spread over top level, blocks, a function body, behind returns; two optimisation levels
                shuffle(rng, &mut p);
                let place: Vec<u8> = (0..p.len()).map(|_| *rng.pick(&[0u8, 0, 1, 2, 2, 3, 4, 5, 6, 7, 8, 9])).collect();
                let cls = if place.iter().any(|&r| r >= 5) { "src-dead-branch" } else if place.iter().any(|&r| r >= 3) { "src-after-return" } else { "src-nested" };
                emit_src_at(&p, &place, cls, &[0, 2 + rng.below(2) as u32]);
            }
            _ => {
                match rng.below(3) { 0 => {}, 1 => p.reverse(), _ => shuffle(rng, &mut p) }
                emit_src(&p, "src-wf");
            }
        }
    }
}

thread_local! { static LIMITS: std::cell::RefCell<(u64, u64)> = std::cell::RefCell::new((12, 8)); }
thread_local! { static DIAG_DETAIL: std::cell::RefCell<&'static str> = std::cell::RefCell::new(""); }

fn overflow_checks_on() -> bool {
    guarded(|| { let x: u32 = std::hint::black_box(u32::MAX); std::hint::black_box(x + std::hint::black_box(1)) }).is_err()
}

fn emit(_chk: bool, p: &Prog, class: &str) {
    DIAG_DETAIL.with(|d| *d.borrow_mut() = "");
    let o = run_compute(p);
    let detail = DIAG_DETAIL.with(|d| *d.borrow());
    // 5th column: which recursion diagnostic (audit only; the contract is "diagnosed")
    println!("QCompute {}\t{}\t{}\t{}\t{}", coq_prog(p), o, compact_prog(p), class, detail);
}

const GRID_TYPES: [&str; 17] = ["I8", "I16", "I32", "I64", "U8", "U16", "U32", "U64", "F32", "F64", "Bool", "Str", "FnPtr", "Param", "Void", "PTR", "SLICE"];
fn grid_ty(name: &str) -> T {
    match name {
        "PTR" => T::Ptr(Box::new(T::Struct(1))),
        "SLICE" => T::Slice(Box::new(T::P("U16"))),
        p => T::P(SCALARS.iter().chain(["Str", "FnPtr", "Param", "Void"].iter()).find(|x| **x == p).copied().unwrap()),
    }
}

/// deterministic, complete small grids: every ordered pair of field types, align_to on every
/// residue for every alignment, array stride for every element type, nested tail padding in three
/// declaration orders.  Every program carries its sizeof/alignof probes.
fn grids(chk: bool) {
    for a in GRID_TYPES { for b in GRID_TYPES {
        emit(chk, &probes(&vec![(1, vec![grid_ty(a), grid_ty(b)])]), "grid-pairs");
    }}
    for t in ["U8", "U16", "U32", "U64", "F32", "F64", "Str", "PTR", "SLICE"] { for o in 0..=17u64 {
        emit(chk, &probes(&vec![(1, vec![T::Arr(Box::new(T::P("U8")), o), grid_ty(t)])]), "grid-align");
    }}
    for t in GRID_TYPES { for n in [0u64, 1, 2, 3, 5] {
        emit(chk, &probes(&vec![(1, vec![T::P("U8"), T::Arr(Box::new(grid_ty(t)), n), T::P("U8")])]), "grid-array");
    }}
    // arrays of structs whose size includes tail padding; three levels of nesting; each in three orders
    let inners: Vec<Vec<T>> = vec![
        vec![T::P("I64"), T::P("U8")], vec![T::P("I32"), T::P("U8")], vec![T::P("I16"), T::P("U8")], vec![T::P("U8")], vec![],
        vec![T::P("U8"), T::P("F64"), T::P("U8")], vec![T::P("Str"), T::P("Bool")], vec![T::Slice(Box::new(T::P("U8"))), T::P("I16")],
    ];
    for inner in inners { for n in [1u64, 2, 3] {
        let base: Prog = vec![
            (1, inner.clone()),
            (2, vec![T::P("U8"), T::Struct(1), T::P("U8")]),
            (3, vec![T::P("U8"), T::Arr(Box::new(T::Struct(1)), n), T::P("U16"), T::Arr(Box::new(T::Arr(Box::new(T::Struct(2)), 2)), n), T::P("U8")]),
            (4, vec![T::Struct(3), T::P("U8"), T::Struct(2), T::Ptr(Box::new(T::Struct(4)))]),
        ];
        let pr = probes(&base);
        emit(chk, &pr, "grid-nested");
        let mut rev = pr.clone(); rev.reverse();
        emit(chk, &rev, "grid-nested");
        let mut rot = pr.clone(); rot.rotate_left(5);
        emit(chk, &rot, "grid-nested");
    }}
}

// ---- generators
fn gen_leaf(rng: &mut Rng, names: &[u64]) -> T {
    match rng.below(20) {
        0..=10 => T::P(*rng.pick(&SCALARS)),
        11 => T::P("Str"),
        12 => T::P("FnPtr"),
        13 => T::P("Param"),
        14 => if rng.chance(1, 3) { T::P("Void") } else { T::P("U8") },
        15 | 16 => { // pointers may point anywhere (legal cycles), also to undefined names
            let inner = if !names.is_empty() && rng.chance(3, 4) { T::Struct(*rng.pick(names)) } else { T::P(*rng.pick(&SCALARS)) };
            T::Ptr(Box::new(inner))
        }
        17 => {
            let inner = if !names.is_empty() && rng.chance(1, 2) { T::Struct(*rng.pick(names)) } else { T::P(*rng.pick(&SCALARS)) };
            T::Slice(Box::new(inner))
        }
        _ => T::P(*rng.pick(&["I8", "U8", "Bool", "I16"])),
    }
}
/// by-value field type; `lower` = names this struct may contain by value, `all` = every name
fn gen_ty(rng: &mut Rng, lower: &[u64], all: &[u64], depth: u32) -> T {
    let k = rng.below(100);
    if k < 22 && !lower.is_empty() {
        T::Struct(*rng.pick(lower))
    } else if k < 40 && depth < 3 {
        let n = match rng.below(12) { 0 => 0, 1..=8 => 1 + rng.below(5), 9 => 7, 10 => 16, _ => 1 + rng.below(300) };
        T::Arr(Box::new(gen_ty(rng, lower, all, depth + 1)), n)
    } else {
        gen_leaf(rng, all)
    }
}

fn shuffle<X>(rng: &mut Rng, v: &mut Vec<X>) {
    for i in (1..v.len()).rev() { let j = rng.below(i as u64 + 1) as usize; v.swap(i, j); }
}

/// acyclic, unique names, every by-value name defined; returned in rank order (dependencies first)
fn gen_wf(rng: &mut Rng) -> Prog {
    let (max_structs, max_fields) = LIMITS.with(|l| *l.borrow());
    let n = 1 + rng.below(max_structs) as usize;
    let mut names: Vec<u64> = (1..=n as u64).collect();
    shuffle(rng, &mut names);
    let mut p: Prog = Vec::new();
    for i in 0..n {
        let nf = match rng.below(10) { 0 => 0, 1 => max_fields, _ => rng.below(max_fields + 1) } as usize;
        let lower: Vec<u64> = names[..i].to_vec();
        let fs = (0..nf).map(|_| gen_ty(rng, &lower, &names, 0)).collect();
        p.push((names[i], fs));
    }
    p
}

fn probes(p: &Prog) -> Prog {
    // S(100000+k) { s: Sk, e: u8 }  => offset of e = sizeof(Sk);   S(200000+k) { p: u8, s: Sk } => offset of s = alignof(Sk)
    let mut q = p.clone();
    for (n, _) in p.iter() {
        q.push((100000 + n, vec![T::Struct(*n), T::P("U8")]));
        q.push((200000 + n, vec![T::P("U8"), T::Struct(*n)]));
    }
    q
}

fn wrap_by_value(rng: &mut Rng, n: u64) -> T {
    match rng.below(4) {
        0 => T::Arr(Box::new(T::Struct(n)), 1 + rng.below(3)),
        1 => T::Arr(Box::new(T::Arr(Box::new(T::Struct(n)), 2)), rng.below(3)),
        _ => T::Struct(n),
    }
}

fn insert_field(rng: &mut Rng, fs: &mut Vec<T>, t: T) {
    let at = rng.below(fs.len() as u64 + 1) as usize;
    fs.insert(at, t);
}

fn main() {
    quiet_panics();
    let seed = arg_u64("--seed", 0);
    let cases = arg_u64("--cases", 300);
    let chk = overflow_checks_on();
    println!("#profile overflow_checks={}", chk);
    LIMITS.with(|l| *l.borrow_mut() = (arg_u64("--max-structs", 12).max(1), arg_u64("--max-fields", 8)));
    if let Some(f) = arg("--needles") {
        if let Ok(txt) = std::fs::read_to_string(&f) {
            NEEDLES.with(|n| *n.borrow_mut() = txt.lines().filter_map(|l| l.split_once('\t')).map(|(k, v)| (k.to_string(), v.to_string())).filter(|(_, v)| v.len() >= 6).collect());
        }
    }

    if flag("--api-probe") {
        // how malformed struct definitions surface through the public driver API: must be an error value
        let mut chain = String::from("struct S0 { x: int }\n");
        for k in 1..30 { chain.push_str(&format!("struct S{} {{ a: S{}, b: S{} }}\n", k, k - 1, k - 1)); }
        chain.push_str("struct T { s: S29, y: u8 }\n1");
        let cases: Vec<(&str, String)> = vec![
            ("self", "struct A { x: int, a: A }\n1".to_string()),
            ("mutual", "struct A { b: B }\nstruct B { a: A }\n1".to_string()),
            ("toolarge", chain),
            ("ok", "struct A { x: int }\n1".to_string()),
        ];
        for (what, src) in cases {
            let r = guarded(std::panic::AssertUnwindSafe(|| {
                let mut pl = aelys_driver::pipeline::standard_pipeline();
                pl.execute_str("probe", &src).map(|_| ()).map_err(|e| format!("{e}"))
            }));
            let o = match r { Ok(Ok(())) => "ok".to_string(), Ok(Err(e)) => format!("error: {}", e.chars().take(160).collect::<String>()), Err(m) => format!("PANIC: {m}") };
            println!("#api-probe standard_pipeline.execute_str {what}: {}", o.replace('\n', " "));
        }
    }

    if let Some(f) = arg("--corpus") {
        let txt = std::fs::read_to_string(&f).expect("corpus file");
        for line in txt.lines() {
            let line = line.trim();
            if line.is_empty() || line.starts_with('#') { continue; }
            let p = Ps { s: line.as_bytes(), i: 0 }.prog();
            emit(chk, &p, "corpus");
        }
    }

    if !flag("--no-grids") && arg("--corpus").is_none() { grids(chk); }

    let mut rng = Rng::new(seed.wrapping_mul(0x1000193) ^ 0xC18);
    // layout_of on its own (the table + arrays + the Struct panic)
    for p in ["I8", "I16", "I32", "I64", "U8", "U16", "U32", "U64", "F32", "F64", "Bool", "Str", "FnPtr", "Param", "Void"] {
        let t = T::P(p);
        let o = match guarded(|| layout_of(&to_air(&t))) { Ok(l) => format!("OSizeAlign {} {}", l.size, l.align), Err(m) => classify_panic(&m).to_string() };
        println!("QLayoutOf ({})\t{}\tT:{}\tlayout_of", coq_ty(&t), o, compact_ty(&t));
    }
    // layout_of has no program context: by-value structs (also inside arrays) are refused, behind pointers they are fine
    for t in [T::Struct(1), T::Arr(Box::new(T::Struct(2)), 3), T::Arr(Box::new(T::Arr(Box::new(T::Struct(3)), 2)), 0),
              T::Ptr(Box::new(T::Struct(1))), T::Slice(Box::new(T::Arr(Box::new(T::Struct(1)), 2))), T::Arr(Box::new(T::Ptr(Box::new(T::Struct(2)))), 4)] {
        let o = match guarded(|| layout_of(&to_air(&t))) { Ok(l) => format!("OSizeAlign {} {}", l.size, l.align), Err(m) => classify_panic(&m).to_string() };
        println!("QLayoutOf ({})\t{}\tT:{}\tlayout_of", coq_ty(&t), o, compact_ty(&t));
    }
    for _ in 0..(cases / 4).max(8) {
        let names = [1u64, 2, 3];
        let with_structs = rng.chance(1, 6);
        let mut t = gen_ty(&mut rng, if with_structs { &names } else { &[] }, &names, 0);
        if rng.chance(1, 2) { t = T::Arr(Box::new(t), rng.below(6)); }
        if rng.chance(1, 10) { t = T::Arr(Box::new(t), *rng.pick(&[1u64 << 29, 1 << 30, 1 << 31, 1 << 32, (1 << 32) + 1, 4294967295, 1 << 33])); }
        let o = match guarded(|| layout_of(&to_air(&t))) { Ok(l) => format!("OSizeAlign {} {}", l.size, l.align), Err(m) => classify_panic(&m).to_string() };
        println!("QLayoutOf ({})\t{}\tT:{}\tlayout_of", coq_ty(&t), o, compact_ty(&t));
    }

    if arg("--corpus").is_none() { source_stream(&mut rng, cases / 2); }

    for _ in 0..cases {
        let base = gen_wf(&mut rng);
        let class = rng.below(100);
        if class < 50 {
            // well-formed: three declaration orders (as generated = dependencies first, reversed, shuffled)
            // and the probe program that makes sizeof/alignof observable
            let mut p = base.clone();
            match rng.below(3) { 0 => {}, 1 => p.reverse(), _ => shuffle(&mut rng, &mut p) }
            emit(chk, &p, "wf");
            let mut q = p.clone();
            shuffle(&mut rng, &mut q);
            emit(chk, &q, "wf-perm");
            let mut pr = probes(&p);
            if rng.chance(1, 2) { shuffle(&mut rng, &mut pr); }
            emit(chk, &pr, "wf-probes");
        } else if class < 56 {
            // duplicate names
            let mut p = base.clone();
            let k = 1 + rng.below(2);
            for _ in 0..k {
                if p.len() >= 2 { let a = rng.below(p.len() as u64) as usize; let b = rng.below(p.len() as u64) as usize; if a != b { p[a].0 = p[b].0; } }
                else { let d = p[0].clone(); p.push(d); }
            }
            shuffle(&mut rng, &mut p);
            emit(chk, &p, "dup");
        } else if class < 62 {
            // undefined by-value names
            let mut p = base.clone();
            let a = rng.below(p.len() as u64) as usize;
            let undef = 900 + rng.below(3);
            let t = wrap_by_value(&mut rng, undef);
            insert_field(&mut rng, &mut p[a].1, t);
            shuffle(&mut rng, &mut p);
            emit(chk, &p, "undef");
        } else if class < 69 {
            // direct self reference by value (possibly through arrays)
            let mut p = base.clone();
            let a = rng.below(p.len() as u64) as usize;
            let nm = p[a].0;
            let t = wrap_by_value(&mut rng, nm);
            insert_field(&mut rng, &mut p[a].1, t);
            shuffle(&mut rng, &mut p);
            emit(chk, &p, "self");
        } else if class < 79 {
            // mutual by-value cycle: a back edge from a lower-rank struct to a higher-rank one that
            // (transitively) contains it; built as a chain so the cycle certainly exists
            let mut p = base.clone();
            if p.len() < 2 { p.push((50, vec![])); }
            let len = 2 + rng.below((p.len() as u64 - 1).min(4)) as usize;
            let mut idx: Vec<usize> = (0..p.len()).collect();
            shuffle(&mut rng, &mut idx);
            let cyc: Vec<usize> = idx[..len].to_vec();
            for w in 0..len {
                let from = cyc[w];
                let to = p[cyc[(w + 1) % len]].0;
                let t = wrap_by_value(&mut rng, to);
                insert_field(&mut rng, &mut p[from].1, t);
            }
            shuffle(&mut rng, &mut p);
            emit(chk, &p, "cycle");
        } else if class < 85 {
            // two malformations at once (which one is reported is part of the model: self reference,
            // then cycle, then the first failing field in processing order)
            let mut p = base.clone();
            if p.len() < 2 { p.push((50, vec![])); }
            for _ in 0..2 {
                let a = rng.below(p.len() as u64) as usize;
                let t = match rng.below(4) {
                    0 => { let nm = p[a].0; wrap_by_value(&mut rng, nm) }
                    1 => { let to = p[(a + 1) % p.len()].0; let back = p[a].0; let t2 = wrap_by_value(&mut rng, back); let b = (a + 1) % p.len(); insert_field(&mut rng, &mut p[b].1, t2); wrap_by_value(&mut rng, to) }
                    2 => { let u = 900 + rng.below(3); wrap_by_value(&mut rng, u) }
                    _ => T::Arr(Box::new(T::P("I64")), 1 << 29),
                };
                insert_field(&mut rng, &mut p[a].1, t);
            }
            shuffle(&mut rng, &mut p);
            emit(chk, &p, "multi");
        } else if class < 90 {
            // legal pointer cycles on top of a well-formed program
            let mut p = base.clone();
            let names: Vec<u64> = p.iter().map(|s| s.0).collect();
            for s in p.iter_mut() {
                let to = *rng.pick(&names);
                let t = if rng.chance(1, 2) { T::Ptr(Box::new(T::Struct(to))) } else { T::Slice(Box::new(T::Arr(Box::new(T::Struct(to)), 2))) };
                insert_field(&mut rng, &mut s.1, t);
            }
            let me = p[0].0;
            p[0].1.push(T::Ptr(Box::new(T::Struct(me))));
            shuffle(&mut rng, &mut p);
            emit(chk, &p, "ptrcycle");
        } else {
            // sizes around 2^32: huge arrays and doubling chains
            let mut p: Prog = Vec::new();
            if rng.chance(1, 3) {
                // a byte array that ends d bytes below 2^32, then a few fields: align_to / offset += size / tail padding at the edge
                let d = rng.below(18);
                let mut fs = Vec::new();
                if rng.chance(1, 4) { fs.push(T::P(*rng.pick(&["U8", "U16", "U32"]))); }
                let el = *rng.pick(&["U8", "U8", "U16", "U32", "I64"]);
                let esz: u64 = match el { "U8" => 1, "U16" => 2, "U32" => 4, _ => 8 };
                fs.push(T::Arr(Box::new(T::P(el)), ((1u64 << 32) - d) / esz));
                for _ in 0..rng.below(4) { fs.push(T::P(*rng.pick(&SCALARS))); }
                p.push((1, fs));
                if rng.chance(1, 3) { p.push((2, vec![T::Struct(1), T::P(*rng.pick(&SCALARS))])); }
            } else if rng.chance(1, 2) {
                let n = *rng.pick(&[(1u64 << 29) - 1, 1 << 29, (1 << 29) + 1, 1 << 30, 1 << 32, (1 << 32) + 3, 1 << 33, 4294967295 / 8]);
                let el = *rng.pick(&["I64", "U8", "I32", "Void"]);
                let mut fs = vec![T::Arr(Box::new(T::P(el)), n)];
                if rng.chance(2, 3) { fs.push(T::P(*rng.pick(&SCALARS))); }
                if rng.chance(1, 3) { fs.insert(0, T::P("U8")); }
                p.push((1, fs));
                if rng.chance(1, 2) { p.push((2, vec![T::P("U8"), T::Struct(1), T::P("I64")])); }
            } else {
                // doubling chain over a 4 MiB base: 2^31 .. 2^35 bytes after 9..13 levels (few levels on purpose:
                // print::struct_size_align recomputes nested structs without memoisation, 2^levels calls)
                let depth = 9 + rng.below(5);
                p.push((0, vec![T::Arr(Box::new(T::P("I64")), 1 << 19)]));
                for k in 1..=depth { p.push((k, vec![T::Struct(k - 1), T::Struct(k - 1)])); }
                p.push((99, vec![T::Struct(depth), T::P("U8")]));
            }
            shuffle(&mut rng, &mut p);
            emit(chk, &p, "huge");
        }
    }
}
