//! For each program of --file (separated by lines `=====`): parse + infer with the real front
//! end, dump the typed AST before optimisation and after the real Optimizer at each level as
//! Coq terms of Model/Lang.v, and run the real compiler+VM at each level.
//!   AST\t<i>\t<level>\t<coq term>          (level "in" = before optimisation)
//!   RUN\t<i>\t<level>\t<class>\t<output>\t<value>\t<detail>
//!   WIN\t<i>\t<level>\t<frame-pushing calls emitted>\t<those with a register in use above their window>
//!   FRONT\t<i>\t<error>                    (front end rejected the program)
//! With --passes dce,fold each named pass is also run ALONE on the input AST:
//!   AST\t<i>\tpass:<name>\t<coq term>
#[path = "../astdump.rs"]
mod astdump;


/// Removes every `Grouping` node (redundant parentheses) from a typed program.  Model/Lang.v has no
/// Grouping (astdump drops it), so the pass models are compared with the real passes on the
/// Grouping-free AST; what the real passes do differently UNDER a Grouping (they only do less:
/// a parenthesised literal is no "simple constant", an operand in parentheses is not folded) is
/// outside these ties.
#[cfg(vbxq_aelys_lang_verif)]
mod strip {
    use aelys_sema::{TypedExpr, TypedExprKind, TypedFmtStringPart, TypedStmt, TypedStmtKind};
    pub fn expr(e: &mut TypedExpr) {
        loop {
            let inner = match &mut e.kind {
                TypedExprKind::Grouping(inner) => Some(std::mem::replace(&mut **inner, TypedExpr::new(TypedExprKind::Null, e.ty.clone(), e.span))),
                _ => None,
            };
            match inner { Some(i) => *e = i, None => break }
        }
        match &mut e.kind {
            TypedExprKind::Binary { left, right, .. } | TypedExprKind::And { left, right } | TypedExprKind::Or { left, right } => { expr(left); expr(right); }
            TypedExprKind::Unary { operand, .. } => expr(operand),
            TypedExprKind::Call { callee, args } => { expr(callee); for a in args { expr(a); } }
            TypedExprKind::Assign { value, .. } => expr(value),
            TypedExprKind::Grouping(inner) => expr(inner),
            TypedExprKind::If { condition, then_branch, else_branch } => { expr(condition); expr(then_branch); expr(else_branch); }
            TypedExprKind::Lambda(inner) => expr(inner),
            TypedExprKind::LambdaInner { body, .. } => { for s in body { stmt(s); } }
            TypedExprKind::Member { object, .. } => expr(object),
            TypedExprKind::ArrayLiteral { elements, .. } | TypedExprKind::VecLiteral { elements, .. } => { for x in elements { expr(x); } }
            TypedExprKind::ArraySized { size, .. } => expr(size),
            TypedExprKind::Index { object, index } => { expr(object); expr(index); }
            TypedExprKind::IndexAssign { object, index, value } => { expr(object); expr(index); expr(value); }
            TypedExprKind::Range { start, end, .. } => { if let Some(x) = start { expr(x); } if let Some(x) = end { expr(x); } }
            TypedExprKind::Slice { object, range } => { expr(object); expr(range); }
            TypedExprKind::FmtString(parts) => { for p in parts { if let TypedFmtStringPart::Expr(x) = p { expr(x); } } }
            TypedExprKind::StructLiteral { fields, .. } => { for (_, v) in fields { expr(v); } }
            TypedExprKind::Cast { expr: x, .. } => expr(x),
            _ => {}
        }
    }
    pub fn stmt(s: &mut TypedStmt) {
        match &mut s.kind {
            TypedStmtKind::Expression(e) => expr(e),
            TypedStmtKind::Let { initializer, .. } => expr(initializer),
            TypedStmtKind::Block(b) => { for x in b { stmt(x); } }
            TypedStmtKind::If { condition, then_branch, else_branch } => { expr(condition); stmt(then_branch); if let Some(e) = else_branch { stmt(e); } }
            TypedStmtKind::While { condition, body } => { expr(condition); stmt(body); }
            TypedStmtKind::For { start, end, step, body, .. } => { expr(start); expr(end); if let Some(x) = &mut **step { expr(x); } stmt(body); }
            TypedStmtKind::ForEach { iterable, body, .. } => { expr(iterable); stmt(body); }
            TypedStmtKind::Return(Some(e)) => expr(e),
            TypedStmtKind::Function(f) => { for x in &mut f.body { stmt(x); } }
            _ => {}
        }
    }
}

#[cfg(vbxq_aelys_lang_verif)]
fn main() {
    use aelys_frontend::lexer::Lexer;
    use aelys_frontend::parser::Parser;
    use aelys_opt::Optimizer;
    use aelys_sema::TypeInference;
    use aelys_syntax::Source;
    use hxlib::runner::*;
    use hxlib::*;
    quiet_panics();
    let file = arg("--file").expect("--file");
    let levels: Vec<u32> = arg("--opts").unwrap_or("0,1,2,3".into()).split(',').filter_map(|s| s.parse().ok()).collect();
    let budget = arg_u64("--budget", 2_000_000);
    let dump_code = std::env::args().any(|a| a == "--code");
    let do_run = !flag("--no-run");
    let passes: Vec<String> = arg("--passes").map(|s| s.split(',').map(|x| x.to_string()).collect()).unwrap_or_default();
    let gc: (u8, u64) = (arg_u64("--gc-mode", 0) as u8, arg_u64("--gc-k", 0));
    let text = std::fs::read_to_string(&file).expect("read");
    let handle = std::thread::Builder::new().stack_size(256 << 20).spawn(move || {
        let vm = aelys_driver::new_vm().expect("vm");
        let mut known = vm.repl_known_globals().clone();
        for b in ["alloc", "free", "load", "store", "type"] { known.insert(b.to_string()); }
        let aliases = vm.repl_module_aliases().clone();
        for (i, p) in text.split("\n=====\n").enumerate() {
            let front = guarded(std::panic::AssertUnwindSafe(|| -> Result<aelys_sema::TypedProgram, String> {
                let src = Source::new("<verif>", p);
                let tokens = Lexer::with_source(src.clone()).scan().map_err(|e| format!("lex: {}", e))?;
                let stmts = Parser::new(tokens, src.clone()).parse().map_err(|e| format!("parse: {}", e))?;
                TypeInference::infer_program_with_imports(stmts, src.clone(), aliases.clone(), known.clone())
                    .map_err(|es| format!("infer: {}", es.first().map(|e| format!("{}", e)).unwrap_or_default()))
            }));
            let typed = match front {
                Ok(Ok(t)) => t,
                Ok(Err(e)) => { println!("FRONT\t{}\t{}", i, esc(&e)); continue; }
                Err(p) => { println!("FRONT\t{}\tpanic: {}", i, esc(&p)); continue; }
            };
            println!("AST\t{}\tin\t{}", i, astdump::program(&typed));
            for name in &passes {
                let t = typed.clone();
                let nm = name.clone();
                let o = guarded(std::panic::AssertUnwindSafe(move || {
                    use aelys_opt::OptimizationPass;
                    let mut t = t;
                    // "<pass>@nogroup": the pass runs on the AST with every Grouping node removed
                    let nm = if let Some(base) = nm.strip_suffix("@nogroup") { for st in t.stmts.iter_mut() { strip::stmt(st); } base.to_string() } else { nm };
                    match nm.as_str() {
                        "dce" => { aelys_opt::DeadCodeEliminator::new().run(&mut t); }
                        "fold" => { aelys_opt::ConstantFolder::new().run(&mut t); }
                        "globalprop" => { aelys_opt::GlobalConstantPropagator::new().run(&mut t); }
                        "globalprop-open" => { let mut g = aelys_opt::GlobalConstantPropagator::new(); g.set_top_level_open(true); g.run(&mut t); }
                        "localprop" => { aelys_opt::passes::LocalConstantPropagator::new().run(&mut t); }
                        "localprop-open" => { let mut g = aelys_opt::passes::LocalConstantPropagator::new(); g.set_top_level_open(true); g.run(&mut t); }
                        "unused" => { aelys_opt::passes::UnusedVarEliminator::new().run(&mut t); }
                        "unused-open" => { let mut u = aelys_opt::passes::UnusedVarEliminator::new(); u.set_top_level_open(true); u.run(&mut t); }
                        _ => {}
                    }
                    t
                }));
                match o {
                    Ok(t2) => println!("AST\t{}\tpass:{}\t{}", i, name, astdump::program(&t2)),
                    Err(p) => println!("AST\t{}\tpass:{}\tPANIC {}", i, name, esc(&p)),
                }
            }
            for &l in &levels {
                let t = typed.clone();
                let o = guarded(std::panic::AssertUnwindSafe(move || {
                    let mut opt = Optimizer::new(opt_level(l));
                    opt.optimize(t)
                }));
                match o {
                    Ok(t2) => println!("AST\t{}\t{}\t{}", i, l, astdump::program(&t2)),
                    Err(p) => println!("AST\t{}\t{}\tPANIC {}", i, l, esc(&p)),
                }
                if do_run {
                    let _ = aelys_backend::verif::take_call_windows();
                    let (r, code) = run_program_script(p, l, gc, budget, None);
                    if dump_code {
                        for (path, arity, nregs, words) in &code {
                            if words.len() <= 4000 {
                                println!("CODE\t{}\t{}\t{}\t{}\t{}\t{}", i, l, path, arity, nregs, words.iter().map(|w| w.to_string()).collect::<Vec<_>>().join(" "));
                            } else {
                                println!("CODE\t{}\t{}\t{}\t{}\t{}\tTOO-LONG {}", i, l, path, arity, nregs, words.len());
                            }
                        }
                    }
                    println!("RUN\t{}\t{}\t{}\t{}\t{}\t{}", i, l, r.class, esc(&r.output), esc(&r.value), esc(&r.detail));
                    // frame-pushing calls the compiler emitted, and those with a register in use above their window
                    let (calls, bad) = aelys_backend::verif::take_call_windows();
                    let bad: Vec<String> = bad.iter().map(|w| format!("{}:{}:base={}:nargs={}:in-use-above={:?}", w.op, w.function, w.base, w.nargs, w.in_use_above)).collect();
                    println!("WIN\t{}\t{}\t{}\t{}", i, l, calls, esc(&bad.join(";")));
                }
            }
        }
    }).unwrap();
    handle.join().unwrap();
}
#[cfg(not(vbxq_aelys_lang_verif))]
fn main() { eprintln!("built without hooks"); std::process::exit(2); }
