//! C07 harness: feeds byte strings to every stage of the toolchain, in process, each input on
//! a fresh thread with a normal 8 MiB stack under catch_unwind.
//!
//!   --file F      lines `<kind>\t<label>\t<hex bytes>`, kind in source|aasm|avbc|manifest
//!   --start K     skip the first K inputs (the driver restarts after a hard crash)
//!   --seeds P     instead: compile the programs of P (separated by =====) and print
//!                 `SEED\taasm\t<hex>` / `SEED\tavbc\t<hex>` lines (valid inputs to mutate)
//! Output (flushed line by line, so that a process death is attributable):
//!   B <idx>                      input idx begins
//!   S <idx> <stage>              stage begins
//!   A <idx> <accept|reject|crash>   .avbc only: classification by `deserialize`
//!   E <idx> <outcome>            ok | err:<stage> | budget | panic:<stage>:<file>:<message>
#[path = "../avbc_common.rs"]
mod avbc_common;

#[cfg(vbxq_aelys_lang_verif)]
fn main() {
    use aelys_backend::Compiler;
    use aelys_bytecode::asm::{deserialize, disassemble_to_string, serialize};
    use aelys_driver::modules::load_modules_with_loader;
    use aelys_frontend::lexer::Lexer;
    use aelys_frontend::parser::Parser;
    use aelys_modules::manifest::Manifest;
    use aelys_opt::Optimizer;
    use aelys_runtime::{VmConfig, VM};
    use aelys_syntax::{Source, StmtKind};
    use avbc_common::routes::*;
    use avbc_common::*;
    use hxlib::runner::opt_level;
    use hxlib::*;
    use std::cell::RefCell;
    use std::io::Write;

    thread_local! {
        static STAGE: RefCell<String> = const { RefCell::new(String::new()) };
        static PLOC: RefCell<String> = const { RefCell::new(String::new()) };
    }
    std::panic::set_hook(Box::new(|info| {
        let loc = info.location().map(|l| l.file().to_string()).unwrap_or_default();
        let msg = if let Some(s) = info.payload().downcast_ref::<&str>() { s.to_string() }
                  else if let Some(s) = info.payload().downcast_ref::<String>() { s.clone() } else { String::new() };
        // also on stderr: a non-unwinding panic aborts the process and the driver reads the site from here
        eprintln!("PANIC-AT\t{}\t{}", loc, msg.replace('\n', " "));
        PLOC.with(|p| *p.borrow_mut() = loc);
    }));
    fn say(s: String) {
        let out = std::io::stdout();
        let mut l = out.lock();
        let _ = writeln!(l, "{}", s);
        let _ = l.flush();
    }
    fn stage(idx: usize, name: &str) {
        STAGE.with(|s| *s.borrow_mut() = name.to_string());
        say(format!("S\t{}\t{}", idx, name));
    }
    fn norm_msg(m: &str) -> String {
        let words: Vec<String> = m.split(|c: char| !c.is_ascii_alphabetic()).filter(|w| w.len() > 1).take(5).map(|w| w.to_lowercase()).collect();
        words.join("-")
    }

    let tmp = arg("--tmp").unwrap_or("/tmp".into());
    if let Some(p) = arg("--seeds") {
        let text = std::fs::read_to_string(&p).expect("read");
        for (i, prog) in text.split("\n=====\n").enumerate() {
            let path = std::path::PathBuf::from(format!("{}/c07_seed_{}.aelys", tmp, i));
            let _ = std::fs::write(&path, prog);
            for (opt, strip) in [(0u32, false), (2, true)] {
                if let Ok((f, heap, _vm)) = compile(&path, prog, opt, strip) {
                    say(format!("SEED\tavbc\t{}", hex(&serialize(&f, &heap))));
                    say(format!("SEED\taasm\t{}", hex(disassemble_to_string(&f, Some(&heap)).as_bytes())));
                }
            }
        }
        return;
    }

    if let Some(lf) = arg("--lex") {
        // X <idx> <tokens of the .aasm lexer, blank separated>     (inputs that are valid UTF-8 and short)
        let text = std::fs::read_to_string(&lf).expect("read");
        for (idx, line) in text.lines().enumerate() {
            let t: Vec<&str> = line.split('\t').collect();
            if t.len() < 3 { continue; }
            let bytes = unhex(t[2]);
            if bytes.len() > 20000 { continue; }
            if let Ok(src) = String::from_utf8(bytes) {
                let toks = match guarded(move || aelys_bytecode::asm::verif_tokens(&src)) { Ok(v) => v.join(" "), Err(_) => "PANIC".into() };
                say(format!("X\t{}\t{}", idx, toks));
            }
        }
        return;
    }
    let file = arg("--file").expect("--file");
    let start = arg_u64("--start", 0) as usize;
    let budget = arg_u64("--budget", 200_000);
    let text = std::fs::read_to_string(&file).expect("read");
    for (idx, line) in text.lines().enumerate() {
        if idx < start { continue; }
        let t: Vec<&str> = line.split('\t').collect();
        if t.len() < 3 { continue; }
        let (kind, bytes) = (t[0].to_string(), unhex(t[2]));
        say(format!("B\t{}", idx));
        let tmpd = tmp.clone();
        let h = std::thread::Builder::new().stack_size(8 << 20).spawn(move || {
            let r = guarded(std::panic::AssertUnwindSafe(|| -> String {
                match kind.as_str() {
                    "source" => {
                        stage(idx, "utf8");
                        let content = match String::from_utf8(bytes.clone()) { Ok(s) => s, Err(_) => return "err:utf8".into() };
                        let path = std::path::PathBuf::from(format!("{}/c07_input.aelys", tmpd));
                        let src = Source::new(path.display().to_string(), &content);
                        stage(idx, "lex");
                        let tokens = match Lexer::with_source(src.clone()).scan() { Ok(t) => t, Err(e) => { stage(idx, "render-lex"); let _ = e.to_string(); return "err:lex".into() } };
                        stage(idx, "parse");
                        let stmts = match Parser::new(tokens, src.clone()).parse() { Ok(s) => s, Err(e) => { stage(idx, "render-parse"); let _ = e.to_string(); return "err:parse".into() } };
                        stage(idx, "modules");
                        let mut vm = match VM::with_config_and_args(src.clone(), VmConfig::default(), Vec::new()) { Ok(v) => v, Err(e) => { stage(idx, "render-vm"); let _ = e.to_string(); return "err:vm".into() } };
                        let (imports, _loader) = match load_modules_with_loader(&stmts, &path, src.clone(), &mut vm) { Ok(x) => x, Err(e) => { stage(idx, "render-modules"); let _ = e.to_string(); return "err:modules".into() } };
                        let main_stmts: Vec<_> = stmts.into_iter().filter(|s| !matches!(s.kind, StmtKind::Needs(_))).collect();
                        let mut known = imports.known_globals.clone();
                        for b in ["alloc", "free", "load", "store", "type"] { known.insert(b.to_string()); }
                        known.extend(vm.repl_known_globals().iter().cloned());
                        let mut aliases = imports.module_aliases.clone();
                        aliases.extend(vm.repl_module_aliases().iter().cloned());
                        stage(idx, "infer");
                        let typed = match aelys_sema::TypeInference::infer_program_with_imports(main_stmts, src.clone(), aliases.clone(), known) {
                            Ok(t) => t, Err(e) => { stage(idx, "render-infer"); let _ = e.iter().map(|x| format!("{}", x)).collect::<Vec<_>>().join("\n"); return "err:infer".into() } };
                        stage(idx, "optimize");
                        let mut optimizer = Optimizer::new(opt_level((idx % 4) as u32)  /* every level: some diagnostics are only reachable when the optimizer leaves the code in */);
                        let typed = optimizer.optimize(typed);
                        stage(idx, "air");
                        {
                            // the route of AirLowerStage / `compile --emit-air`
                            let mut air = aelys_air::lower::lower(&typed);
                            if aelys_air::layout::try_compute_layouts(&mut air).is_err() { return "err:air".into(); }
                            let air = aelys_air::mono::monomorphize(air);
                            let _ = aelys_air::print::print_program(&air);
                        }
                        stage(idx, "codegen");
                        let mut kg = imports.known_globals.clone();
                        kg.extend(vm.repl_known_globals().iter().cloned());
                        let mut ng = imports.known_native_globals.clone();
                        ng.extend(vm.repl_known_native_globals().iter().cloned());
                        let mut so = imports.symbol_origins.clone();
                        for (k, v) in vm.repl_symbol_origins() { so.entry(k.clone()).or_insert_with(|| v.clone()); }
                        let (function, heap, _g) = match Compiler::with_modules(None, src.clone(), aliases, kg, ng, so).compile_typed(&typed) {
                            Ok(x) => x, Err(e) => { stage(idx, "render-codegen"); let _ = e.to_string(); return "err:codegen".into() } };
                        stage(idx, "execute");
                        let o = run_original(vm, function, heap, budget);
                        match o.class.as_str() { "ok" => "ok".into(), "budget" => "budget".into(), "panic" => { std::panic::resume_unwind(Box::new(o.detail)); } _ => "err:execute".into() }
                    }
                    "aasm" => {
                        stage(idx, "aasm");
                        let text = match String::from_utf8(bytes.clone()) { Ok(s) => s, Err(_) => return "err:utf8".into() };
                        let path = std::path::PathBuf::from(format!("{}/c07_input.aasm", tmpd));
                        let o = run_aasm(&path, &text, budget, &|_| {});
                        match o.class.as_str() { "ok" => "ok".into(), "budget" => "budget".into(), "panic" => { std::panic::resume_unwind(Box::new(o.detail)); }
                            c if c.starts_with("load-error") => "err:assemble".into(), _ => "err:execute".into() }
                    }
                    "avbc" => {
                        stage(idx, "avbc-read");
                        let b2 = bytes.clone();
                        let cls = match guarded(move || deserialize(&b2).is_ok()) { Ok(true) => "accept", Ok(false) => "reject", Err(_) => "crash" };
                        say(format!("A\t{}\t{}", idx, cls));
                        stage(idx, "avbc-exec");
                        let path = std::path::PathBuf::from(format!("{}/c07_input.avbc", tmpd));
                        let o = run_avbc(&path, &bytes, budget, &|_| {});
                        match o.class.as_str() { "ok" => "ok".into(), "budget" => "budget".into(), "panic" => { std::panic::resume_unwind(Box::new(o.detail)); }
                            c if c.starts_with("load-error") => "err:load".into(), _ => "err:execute".into() }
                    }
                    _ => {
                        stage(idx, "manifest");
                        match Manifest::from_bytes(&bytes) {
                            Ok(m) => { let _ = m.to_bytes(); let n: Vec<String> = m.module_names().cloned().collect(); for k in n { let _ = m.module(&k).map(|p| (p.is_native(), p.is_script())); } let _ = m.should_bundle_natives(); "ok".into() }
                            Err(_) => "err:manifest".into(),
                        }
                    }
                }
            }));
            match r {
                Ok(s) => s,
                Err(msg) => {
                    let st = STAGE.with(|s| s.borrow().clone());
                    let loc = PLOC.with(|p| p.borrow().clone());
                    let loc = loc.split("/repo/").last().unwrap_or("").to_string();
                    format!("panic:{}:{}:{}", st, loc, norm_msg(&msg))
                }
            }
        }).unwrap();
        let outcome = h.join().unwrap_or_else(|_| "panic:thread".into());
        say(format!("E\t{}\t{}", idx, outcome));
    }
}
#[cfg(not(vbxq_aelys_lang_verif))]
fn main() { eprintln!("built without hooks"); std::process::exit(2); }
