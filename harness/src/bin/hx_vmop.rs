//! Contract tie for coq/Model/VmArith.v (shared by C01 / C02 / C06): every arithmetic /
//! comparison / bitwise / immediate / loop opcode of the real dispatch loop, one opcode at a
//! time.  For each case a tiny Function is assembled with the public aelys_bytecode API
//! (LoadK operands from the constant table, execute the op, Return the register), run on a
//! real VM, and one line is printed:
//!     <Coq query term>\t<observation>
//!   queries:      QBin O_<Op> a b | QUn O_<Op> a | QImm O_<Op> a c | QFor <incl> i e s | QWhile i l
//!   observations: W <word> | E <kind> | C <p> <q> (result is a fresh string = concat of heap
//!                 strings p q) | L <word> <0|1> (loop op: new iter word, jump taken) | T <0|1> | P (panic)
//! Header lines start with '#': `#debug <0|1>` and `#heap <payload>:<string-id|-> ...`.
use aelys_bytecode::{Function, GcRef, ObjectKind, OpCode, Value};
use aelys_runtime::VM;
use aelys_syntax::Source;
use hxlib::*;

const BIN_OPS: &[(&str, OpCode)] = &[
    ("Add", OpCode::Add), ("Sub", OpCode::Sub), ("Mul", OpCode::Mul), ("Div", OpCode::Div), ("Mod", OpCode::Mod),
    ("Eq", OpCode::Eq), ("Ne", OpCode::Ne), ("Lt", OpCode::Lt), ("Le", OpCode::Le), ("Gt", OpCode::Gt), ("Ge", OpCode::Ge),
    ("AddII", OpCode::AddII), ("SubII", OpCode::SubII), ("MulII", OpCode::MulII), ("DivII", OpCode::DivII), ("ModII", OpCode::ModII),
    ("AddFF", OpCode::AddFF), ("SubFF", OpCode::SubFF), ("MulFF", OpCode::MulFF), ("DivFF", OpCode::DivFF), ("ModFF", OpCode::ModFF),
    ("LtII", OpCode::LtII), ("LeII", OpCode::LeII), ("GtII", OpCode::GtII), ("GeII", OpCode::GeII), ("EqII", OpCode::EqII), ("NeII", OpCode::NeII),
    ("LtFF", OpCode::LtFF), ("LeFF", OpCode::LeFF), ("GtFF", OpCode::GtFF), ("GeFF", OpCode::GeFF), ("EqFF", OpCode::EqFF), ("NeFF", OpCode::NeFF),
    ("AddIIG", OpCode::AddIIG), ("SubIIG", OpCode::SubIIG), ("MulIIG", OpCode::MulIIG), ("DivIIG", OpCode::DivIIG), ("ModIIG", OpCode::ModIIG),
    ("AddFFG", OpCode::AddFFG), ("SubFFG", OpCode::SubFFG), ("MulFFG", OpCode::MulFFG), ("DivFFG", OpCode::DivFFG), ("ModFFG", OpCode::ModFFG),
    ("LtIIG", OpCode::LtIIG), ("LeIIG", OpCode::LeIIG), ("GtIIG", OpCode::GtIIG), ("GeIIG", OpCode::GeIIG), ("EqIIG", OpCode::EqIIG), ("NeIIG", OpCode::NeIIG),
    ("LtFFG", OpCode::LtFFG), ("LeFFG", OpCode::LeFFG), ("GtFFG", OpCode::GtFFG), ("GeFFG", OpCode::GeFFG), ("EqFFG", OpCode::EqFFG), ("NeFFG", OpCode::NeFFG),
    ("Shl", OpCode::Shl), ("Shr", OpCode::Shr), ("BitAnd", OpCode::BitAnd), ("BitOr", OpCode::BitOr), ("BitXor", OpCode::BitXor),
    ("ShlII", OpCode::ShlII), ("ShrII", OpCode::ShrII), ("AndII", OpCode::AndII), ("OrII", OpCode::OrII), ("XorII", OpCode::XorII),
];
const UN_OPS: &[(&str, OpCode)] = &[("Neg", OpCode::Neg), ("BitNot", OpCode::BitNot), ("Not", OpCode::Not), ("NotI", OpCode::NotI)];
const IMM_OPS: &[(&str, OpCode)] = &[
    ("AddI", OpCode::AddI), ("SubI", OpCode::SubI),
    ("LtImm", OpCode::LtImm), ("LeImm", OpCode::LeImm), ("GtImm", OpCode::GtImm), ("GeImm", OpCode::GeImm),
    ("LtIImm", OpCode::LtIImm), ("LeIImm", OpCode::LeIImm), ("GtIImm", OpCode::GtIImm), ("GeIImm", OpCode::GeIImm),
    ("ShlIImm", OpCode::ShlIImm), ("ShrIImm", OpCode::ShrIImm), ("AndIImm", OpCode::AndIImm), ("OrIImm", OpCode::OrIImm), ("XorIImm", OpCode::XorIImm),
];

fn imm_generic(name: &str) -> (&'static str, OpCode) {
    match name {
        "AddI" => ("Add", OpCode::Add), "SubI" => ("Sub", OpCode::Sub),
        "LtImm" | "LtIImm" => ("Lt", OpCode::Lt), "LeImm" | "LeIImm" => ("Le", OpCode::Le),
        "GtImm" | "GtIImm" => ("Gt", OpCode::Gt), "GeImm" | "GeIImm" => ("Ge", OpCode::Ge),
        "ShlIImm" => ("Shl", OpCode::Shl), "ShrIImm" => ("Shr", OpCode::Shr), "AndIImm" => ("BitAnd", OpCode::BitAnd),
        "OrIImm" => ("BitOr", OpCode::BitOr), _ => ("BitXor", OpCode::BitXor),
    }
}

struct Machine {
    vm: VM,
    /// (pointer payload, Some(string content) | None for non-strings)
    heap_objs: Vec<(usize, Option<String>)>,
    runs: usize,
}

fn fresh() -> Machine {
    let mut vm = VM::new(Source::new("<vmop>", "")).expect("vm");
    let mut heap_objs = Vec::new();
    for s in ["ab", "ab", "cd", ""] {
        let r = vm.alloc_string(s).expect("alloc");
        heap_objs.push((r.index(), Some(s.to_string())));
    }
    let f = vm.alloc_function(Function::new(Some("obj".into()), 0)).expect("alloc fn");
    heap_objs.push((f.index(), None));
    Machine { vm, heap_objs, runs: 0 }
}

enum Obs { Word(u64), Err(String), Panic }

/// run one assembled function; the VM is replaced after a panic and periodically (so that no
/// collection ever frees the shared operand objects)
fn run(m: &mut Machine, f: Function) -> Obs {
    if m.runs >= 200 {
        let old = m.heap_objs.clone();
        *m = fresh();
        assert_eq!(old, m.heap_objs, "heap layout must be reproducible");
    }
    m.runs += 1;
    let vm = &mut m.vm;
    let r = guarded(std::panic::AssertUnwindSafe(|| {
        let fr = vm.alloc_function(f).map_err(|e| hxlib::runner::kind_name(&e.kind).to_string())?;
        vm.execute(fr).map(|v| v.raw_bits()).map_err(|e| hxlib::runner::kind_name(&e.kind).to_string())
    }));
    match r {
        Ok(Ok(w)) => Obs::Word(w),
        Ok(Err(k)) => { m.vm.clear_frames(); Obs::Err(k) }
        Err(_) => { *m = fresh(); Obs::Panic }
    }
}

fn func(consts: &[u64]) -> Function {
    let mut f = Function::new(Some("t".into()), 0);
    f.num_registers = 8;
    for (i, &w) in consts.iter().enumerate() {
        f.constants.push(Value::from_raw(w));
        f.emit_b(OpCode::LoadK, i as u8, i as i16, 1);
    }
    f
}

fn show(m: &Machine, o: Obs, concat_of: Option<(u64, u64)>) -> String {
    match o {
        Obs::Word(w) => {
            if let Some((a, b)) = concat_of {
                let (va, vb, vr) = (Value::from_raw(a), Value::from_raw(b), Value::from_raw(w));
                if let (Some(pa), Some(pb), Some(pr)) = (va.as_ptr(), vb.as_ptr(), vr.as_ptr()) {
                    let s = |p: usize| match m.vm.heap().get(GcRef::new(p)).map(|o| &o.kind) {
                        Some(ObjectKind::String(s)) => Some(s.as_str().to_string()),
                        _ => None,
                    };
                    if let (Some(sa), Some(sb), Some(sr)) = (s(pa), s(pb), s(pr)) {
                        if sr == format!("{}{}", sa, sb) && pr != pa && pr != pb {
                            return format!("C {} {}", pa, pb);
                        }
                    }
                }
            }
            format!("W {}", w)
        }
        Obs::Err(k) => format!("E {}", k),
        Obs::Panic => "P".to_string(),
    }
}

fn main() {
    quiet_panics();
    let seed = arg_u64("--seed", 0);
    let pairs = arg_u64("--pairs", 150) as usize;      // sampled operand pairs per binary opcode (besides the core cross product)
    let mut rng = Rng::new(seed ^ 0xC06);
    let mut m = fresh();
    println!("#debug {}", cfg!(debug_assertions) as u8);
    {
        let mut ids: Vec<String> = Vec::new();
        let mut seen: Vec<String> = Vec::new();
        for (p, s) in &m.heap_objs {
            match s {
                Some(s) => {
                    let id = match seen.iter().position(|x| x == s) { Some(i) => i, None => { seen.push(s.clone()); seen.len() - 1 } };
                    ids.push(format!("{}:{}", p, id));
                }
                None => ids.push(format!("{}:-", p)),
            }
        }
        println!("#heap {}", ids.join(" "));
    }
    let int = |n: i64| Value::int(n).raw_bits();
    let flt = |x: f64| Value::float(x).raw_bits();
    let ptrs: Vec<u64> = m.heap_objs.iter().map(|(p, _)| Value::ptr(*p).raw_bits()).collect();

    // ---- operand pools
    let mut ints: Vec<u64> = Vec::new();
    for n in [0i64, 1, -1, 2, -2, 3, 7, -7, 10, 63, 64, 65, 62, 47, 48, 255, 256,
              1 << 46, -(1 << 46), (1 << 47) - 1, -((1 << 47) - 1), -(1 << 47), (1 << 47) - 2, (1 << 24) + 1, -(1 << 24) - 1, 3037000499, 1 << 40] {
        ints.push(int(n));
    }
    for n in -1..=65i64 { ints.push(int(n)); }
    let mut floats: Vec<u64> = Vec::new();
    for x in [0.0f64, -0.0, 1.0, -1.0, 1.5, -2.5, 2.0, 0.5, 3.0, 7.0, -7.0, 5.5, 1e308, -1e308, 1e-308, f64::MAX, f64::MIN_POSITIVE,
              f64::INFINITY, f64::NEG_INFINITY, f64::NAN, 9007199254740992.0, 9007199254740993.0, 9007199254740991.0,
              -9007199254740992.0, 140737488355327.0, -140737488355328.0, 0.1, 0.2, 1e16, 123456.789, f64::EPSILON] {
        floats.push(flt(x));
    }
    // subnormals and unusual float encodings (signalling NaN, NaNs that are not boxed values)
    floats.extend([1u64, 0x000F_FFFF_FFFF_FFFF, 0x8000_0000_0000_0001, 0x0008_0000_0000_0000,
                   0x7FF0_0000_0000_0001, 0x7FFC_0000_0000_0001, 0xFFFE_0000_0000_0123, 0x7FFF_FFFF_FFFF_FFFF, 0xFFF4_0000_0000_0000]);
    let others: Vec<u64> = vec![Value::bool(true).raw_bits(), Value::bool(false).raw_bits(), Value::null().raw_bits(),
                                0xFFFA_0000_0000_0001, 0xFFFB_0000_0000_0000, 0xFFF9_0000_0000_0005];
    let lite = flag("--lite");                           // quick tier: smaller core cross product
    let core: Vec<u64> = if lite {
        vec![int(0), int(1), int(-1), int(-(1 << 47)), int(64), flt(0.0), flt(-0.0), flt(1.5), flt(f64::INFINITY), flt(f64::NAN),
             Value::bool(true).raw_bits(), Value::null().raw_bits(), ptrs[0], ptrs[1], ptrs[2]]
    } else {
        let mut c = vec![int(0), int(1), int(-1), int(7), int(-(1 << 47)), int((1 << 47) - 1), int(64),
                         flt(0.0), flt(-0.0), flt(1.5), flt(-7.0), flt(f64::INFINITY), flt(f64::NAN), 1u64, flt(9007199254740993.0),
                         Value::bool(true).raw_bits(), Value::bool(false).raw_bits(), Value::null().raw_bits()];
        c.extend(ptrs.iter().cloned());
        c
    };
    let mut pool: Vec<u64> = Vec::new();
    pool.extend(&ints); pool.extend(&floats); pool.extend(&others); pool.extend(&ptrs);
    let rand_word = |rng: &mut Rng| -> u64 {
        loop {
            let w = match rng.below(6) {
                0 => Value::int(rng.next_u64() as i64).raw_bits(),
                1 => Value::int(rng.range_i64(-100, 100)).raw_bits(),
                2 => Value::float(f64::from_bits(rng.next_u64())).raw_bits(),
                3 => Value::float((rng.range_i64(-1000, 1000) as f64) / 8.0).raw_bits(),
                4 => Value::float(f64::from_bits((rng.below(4) << 62) | (rng.next_u64() >> 12))).raw_bits(),
                _ => rng.next_u64(),
            };
            let v = Value::from_raw(w);
            // raw pointers / nested-function markers must refer to live objects: only the prepared ones are used
            if v.is_ptr() || v.as_nested_fn_marker().is_some() { continue; }
            return w;
        }
    };

    // ---- binary register-register opcodes
    for (name, op) in BIN_OPS {
        let mut cases: Vec<(u64, u64)> = Vec::new();
        for &a in &core { for &b in &core { cases.push((a, b)); } }
        // float pairs where value equality and bit equality come apart (signed zeros, NaN payloads),
        // equal values, and zeros against ints: every opcode gets them, in both orders
        let nz = flt(-0.0);
        let specials: [(u64, u64); 22] = [
            (flt(0.0), nz), (nz, flt(0.0)), (flt(0.0), flt(0.0)), (nz, nz),
            (flt(f64::NAN), flt(f64::NAN)), (flt(f64::NAN), 0x7FFC_0000_0000_0001), (0x7FFC_0000_0000_0001, 0x7FFC_0000_0000_0001),
            (0xFFFE_0000_0000_0123, 0x7FF0_0000_0000_0001), (0x7FF0_0000_0000_0001, 0x7FF0_0000_0000_0001), (flt(f64::NAN), nz), (nz, flt(f64::NAN)),
            (flt(f64::INFINITY), flt(f64::INFINITY)), (flt(f64::NEG_INFINITY), flt(f64::INFINITY)), (flt(1.5), flt(1.5)),
            (1, 0x8000_0000_0000_0001), (0x8000_0000_0000_0001, 1), (flt(9007199254740992.0), flt(9007199254740993.0)),
            (int(0), nz), (nz, int(0)), (int(0), flt(0.0)), (flt(2.0), int(2)), (int(2), flt(2.0)),
        ];
        cases.extend(specials.iter().cloned());
        for _ in 0..pairs {
            let a = if rng.chance(2, 3) { *rng.pick(&pool) } else { rand_word(&mut rng) };
            let b = if rng.chance(2, 3) { *rng.pick(&pool) } else { rand_word(&mut rng) };
            cases.push((a, b));
        }
        // same-kind random pairs so that the agreeing paths get random coverage too
        for _ in 0..pairs / 2 {
            let (a, b) = if name.contains("FF") || rng.chance(1, 3) {
                (Value::float(f64::from_bits(rng.next_u64())).raw_bits(), Value::float(f64::from_bits(rng.next_u64())).raw_bits())
            } else {
                (Value::int(rng.next_u64() as i64).raw_bits(), Value::int(if rng.chance(1, 2) { rng.range_i64(-70, 70) } else { rng.next_u64() as i64 }).raw_bits())
            };
            cases.push((a, b));
        }
        for (a, b) in cases {
            let mut f = func(&[a, b]);
            f.emit_a(*op, 2, 0, 1, 1);
            f.emit_a(OpCode::Return, 2, 0, 0, 1);
            f.finalize_bytecode();
            let o = run(&mut m, f);
            println!("QBin O_{} {} {}\t{}", name, a, b, show(&m, o, Some((a, b))));
        }
    }
    // ---- unary
    for (name, op) in UN_OPS {
        let mut cases: Vec<u64> = pool.clone();
        for _ in 0..pairs { cases.push(rand_word(&mut rng)); }
        for a in cases {
            let mut f = func(&[a]);
            f.emit_a(*op, 2, 0, 0, 1);
            f.emit_a(OpCode::Return, 2, 0, 0, 1);
            f.finalize_bytecode();
            let o = run(&mut m, f);
            println!("QUn O_{} {}\t{}", name, a, show(&m, o, None));
        }
    }
    // ---- register-immediate
    for (name, op) in IMM_OPS {
        let mut cases: Vec<(u64, u8)> = Vec::new();
        for &a in &core { for c in [0u8, 1, 2, 47, 48, 62, 63, 64, 65, 127, 128, 255] { cases.push((a, c)); } }
        for _ in 0..pairs {
            let a = if rng.chance(1, 2) { *rng.pick(&pool) } else { rand_word(&mut rng) };
            cases.push((a, rng.below(256) as u8));
        }
        for (a, c) in cases {
            let mut f = func(&[a]);
            f.emit_a(*op, 2, 0, c, 1);
            f.emit_a(OpCode::Return, 2, 0, 0, 1);
            f.finalize_bytecode();
            let o = run(&mut m, f);
            println!("QImm O_{} {} {}\t{}", name, a, c, show(&m, o, None));
            // the generic opcode of the same operator on (a, Value::int(c)): what the immediate form must equal
            let (gname, gop) = imm_generic(name);
            let ci = Value::int(c as i64).raw_bits();
            let mut g = func(&[a, ci]);
            g.emit_a(gop, 2, 0, 1, 1);
            g.emit_a(OpCode::Return, 2, 0, 0, 1);
            g.finalize_bytecode();
            let og = run(&mut m, g);
            println!("QBin O_{} {} {}\t{}", gname, a, ci, show(&m, og, Some((a, ci))));
        }
    }
    // ---- loop super-instructions
    let lvals: &[i64] = if lite { &[0, 1, -1, 2, 10, (1 << 47) - 1, -(1 << 47), -3] }
        else { &[0, 1, -1, 2, -2, 5, 10, -10, (1 << 47) - 1, (1 << 47) - 2, -(1 << 47), -(1 << 47) + 1, 1 << 46] };
    let lints: Vec<u64> = lvals.iter().map(|&n| int(n)).collect();
    let mut lpool = lints.clone();
    lpool.extend([flt(1.5), flt(0.0), Value::bool(true).raw_bits(), Value::null().raw_bits(), ptrs[0]]);
    for (incl, op) in [(false, OpCode::ForLoopI), (true, OpCode::ForLoopIInc)] {
        let mut cases: Vec<(u64, u64, u64)> = Vec::new();
        for &i in &lints { for &e in &lints { for &s in &lints { cases.push((i, e, s)); } } }
        for _ in 0..pairs * 2 {
            cases.push((*rng.pick(&lpool), *rng.pick(&lpool), *rng.pick(&lpool)));
            cases.push((int(rng.next_u64() as i64), int(rng.next_u64() as i64), int(rng.range_i64(-3, 3))));
        }
        for (i, e, s) in cases {
            // run A: the new iteration word; run B: whether the back-jump is taken
            let mut fa = func(&[i, e, s]);
            fa.emit_b(op, 0, 0, 1);
            fa.emit_a(OpCode::Return, 0, 0, 0, 1);
            fa.finalize_bytecode();
            let oa = run(&mut m, fa);
            let mut fb = func(&[i, e, s]);
            fb.emit_a(OpCode::LoadBool, 3, 0, 0, 1);
            fb.emit_b(op, 0, 1, 1);              // taken: skip the Return below
            fb.emit_a(OpCode::Return, 3, 0, 0, 1);
            fb.emit_a(OpCode::LoadBool, 3, 1, 0, 1);
            fb.emit_a(OpCode::Return, 3, 0, 0, 1);
            fb.finalize_bytecode();
            let ob = run(&mut m, fb);
            let obs = match (oa, ob) {
                (Obs::Word(w), Obs::Word(t)) => format!("L {} {}", w, (t == Value::bool(true).raw_bits()) as u8),
                (Obs::Panic, _) | (_, Obs::Panic) => "P".to_string(),
                (Obs::Err(k), _) | (_, Obs::Err(k)) => format!("E {}", k),
            };
            println!("QFor {} {} {} {}\t{}", incl, i, e, s, obs);
        }
    }
    {
        let mut cases: Vec<(u64, u64)> = Vec::new();
        for &i in &lpool { for &l in &lpool { cases.push((i, l)); } }
        for _ in 0..pairs { cases.push((int(rng.next_u64() as i64), int(rng.next_u64() as i64))); }
        for (i, l) in cases {
            let mut f = func(&[i, l]);
            f.emit_a(OpCode::LoadBool, 3, 0, 0, 1);
            f.emit_b(OpCode::WhileLoopLt, 0, 1, 1);
            f.emit_a(OpCode::Return, 3, 0, 0, 1);
            f.emit_a(OpCode::LoadBool, 3, 1, 0, 1);
            f.emit_a(OpCode::Return, 3, 0, 0, 1);
            f.finalize_bytecode();
            let o = match run(&mut m, f) {
                Obs::Word(t) => format!("T {}", (t == Value::bool(true).raw_bits()) as u8),
                Obs::Panic => "P".to_string(),
                Obs::Err(k) => format!("E {}", k),
            };
            println!("QWhile {} {}\t{}", i, l, o);
            let mut g = func(&[i, l]);
            g.emit_a(OpCode::Lt, 2, 0, 1, 1);
            g.emit_a(OpCode::Return, 2, 0, 0, 1);
            g.finalize_bytecode();
            let og = run(&mut m, g);
            println!("QBin O_Lt {} {}\t{}", i, l, show(&m, og, None));
        }
    }
}
