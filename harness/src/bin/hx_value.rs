//! C12 contract tie: every public constructor / predicate / accessor / == of
//! aelys_bytecode::Value, printed as `<Coq query term>\t<observation vector>`.
use aelys_bytecode::Value;
use hxlib::*;

fn b(x: bool) -> i128 { x as i128 }

fn obs_raw(w: u64) -> Vec<i128> {
    let v = Value::from_raw(w);
    let mut o = vec![b(v.is_float()), b(v.is_int()), b(v.is_bool()), b(v.is_null()), b(v.is_ptr()),
                     b(v.as_nested_fn_marker().is_some())];
    match v.as_int() { Some(n) => { o.push(1); o.push(n as i128) } None => { o.push(0); o.push(0) } }
    match v.as_float() { Some(f) => { o.push(1); o.push(f.to_bits() as i128) } None => { o.push(0); o.push(0) } }
    match v.as_bool() { Some(x) => { o.push(1); o.push(b(x)) } None => { o.push(0); o.push(0) } }
    match v.as_ptr() { Some(p) => { o.push(1); o.push(p as i128) } None => { o.push(0); o.push(0) } }
    match v.as_nested_fn_marker() { Some(p) => { o.push(1); o.push(p as i128) } None => { o.push(0); o.push(0) } }
    o.push(match v.type_name() { "Null" => 0, "Bool" => 1, "Int" => 2, "Float" => 3, "Object" => 4, _ => 5 });
    o.push(b(v.is_truthy()));
    o.push(if v.is_int() { v.as_int_unchecked() as i128 } else { 0 });
    o.push(v.raw_bits() as i128);
    o
}

fn ctor(w: u64) -> Vec<i128> {
    let mut o = vec![w as i128];
    o.extend(obs_raw(w));
    o
}

fn emit(q: String, o: Vec<i128>) {
    let s: Vec<String> = o.iter().map(|x| x.to_string()).collect();
    println!("{}\t{}", q, s.join(" "));
}

fn main() {
    let seed = arg_u64("--seed", 0);
    let random = arg_u64("--random", 2000);
    let mut rng = Rng::new(seed);
    let mut raws: Vec<u64> = Vec::new();
    // structured product: sign x exponent class x quiet bit x tag x payload class
    let exps: [u64; 6] = [0, 1, 1022, 1023, 2046, 2047];
    let pays: [u64; 8] = [0, 1, 1 << 46, (1 << 47) - 1, 1 << 47, (1 << 47) + 1, (1 << 48) - 1, 0x0000_1234_5678_9ABC];
    for s in 0..2u64 { for e in exps { for q in 0..2u64 { for t in 0..8u64 { for p in pays {
        raws.push((s << 63) | (e << 52) | (q << 51) | (t << 48) | p);
    }}}}}
    for _ in 0..random {
        let w = match rng.below(4) {
            0 => rng.next_u64(),
            1 => 0x7FF8_0000_0000_0000 | (rng.next_u64() & 0x0007_FFFF_FFFF_FFFF),
            2 => 0xFFF0_0000_0000_0000 | (rng.next_u64() & 0x000F_FFFF_FFFF_FFFF),
            _ => (rng.next_u64() & 0xFFFF_0000_0000_0000) | rng.below(4),
        };
        raws.push(w);
    }
    for &w in &raws { emit(format!("QRaw {}", w), obs_raw(w)); }

    // integers through both constructors
    let mut ints: Vec<i64> = Vec::new();
    for base in [0i64, 1 << 47, -(1 << 47), 1 << 48, -(1 << 48), i64::MAX, i64::MIN, 1 << 53, 1 << 62] {
        for d in -3i64..=3 { ints.push(base.wrapping_add(d)); }
    }
    for _ in 0..random / 4 {
        ints.push(match rng.below(3) { 0 => rng.next_u64() as i64, 1 => rng.range_i64(-(1 << 47), (1 << 47) - 1), _ => rng.range_i64(-(1 << 49), 1 << 49) });
    }
    for &n in &ints {
        emit(format!("QInt {}", zc(n as i128)), ctor(Value::int(n).raw_bits()));
        let c = Value::int_checked(n);
        emit(format!("QIntChecked {}", zc(n as i128)), match c { Ok(v) => { let mut o = vec![1]; o.extend(ctor(v.raw_bits())); o } Err(_) => vec![0] });
    }
    // floats by bit pattern
    let mut fl: Vec<u64> = vec![0, 1 << 63, 1, 0x000F_FFFF_FFFF_FFFF, 0x0010_0000_0000_0000, 0x7FEF_FFFF_FFFF_FFFF,
        0x7FF0_0000_0000_0000, 0xFFF0_0000_0000_0000, 0x7FF0_0000_0000_0001, 0x7FF8_0000_0000_0000, 0xFFF8_0000_0000_0000,
        0xFFF8_0000_0000_0001, 0x7FF9_0000_0000_0005, 0x7FFA_0000_0000_0001, 0x7FFC_0000_0000_0001, 0xFFFF_FFFF_FFFF_FFFF,
        (9007199254740992.0f64).to_bits(), (9007199254740993.0f64).to_bits(), (-9007199254740992.0f64).to_bits(), 3.0f64.to_bits(), (-2.5f64).to_bits()];
    for _ in 0..random / 4 { fl.push(rng.next_u64()); }
    for &w in &fl {
        emit(format!("QFloat {}", w), ctor(Value::float(f64::from_bits(w)).raw_bits()));
    }
    emit("QBool true".into(), ctor(Value::bool(true).raw_bits()));
    emit("QBool false".into(), ctor(Value::bool(false).raw_bits()));
    emit("QNull".into(), ctor(Value::null().raw_bits()));
    for p in [0u64, 1, 42, (1 << 47), (1 << 48) - 1, rng.next_u64() & ((1 << 48) - 1)] {
        emit(format!("QPtr {}", p), ctor(Value::ptr(p as usize).raw_bits()));
        emit(format!("QNested {}", p), ctor(Value::nested_fn_marker(p as usize).raw_bits()));
    }
    // the constant pool as a store of values: what add_constant hands back must read back bit for bit
    {
        let pw: Vec<u64> = vec![0.0f64.to_bits(), (-0.0f64).to_bits(), Value::int(0).raw_bits(), Value::int(1).raw_bits(), 1.0f64.to_bits(),
            Value::int(-1).raw_bits(), (-1.0f64).to_bits(), Value::null().raw_bits(), Value::bool(false).raw_bits(), Value::bool(true).raw_bits(),
            f64::NAN.to_bits(), 0xFFF8_0000_0000_0000, f64::INFINITY.to_bits(), 3.5f64.to_bits(), Value::int(3).raw_bits(), 3.0f64.to_bits(),
            Value::int((1 << 47) - 1).raw_bits(), 140737488355327.0f64.to_bits(), 5e-324f64.to_bits(), (-5e-324f64).to_bits()];
        for _ in 0..(random / 10).max(60) {
            let k = 2 + rng.below(5) as usize;
            let ws: Vec<u64> = (0..k).map(|_| if rng.below(5) == 0 { Value::float(f64::from_bits(rng.next_u64())).raw_bits() } else { pw[rng.below(pw.len() as u64) as usize] }).collect();
            let mut f = aelys_bytecode::Function::new(None, 0);
            let mut o: Vec<i128> = ws.iter().map(|&w| f.add_constant(Value::from_raw(w)) as i128).collect();
            o.push(f.constants.len() as i128);
            o.extend(f.constants.iter().map(|v| v.raw_bits() as i128));
            emit(format!("QPool {}", ws.iter().map(|w| w.to_string()).collect::<Vec<_>>().join(",")), o);
        }
    }
    // the host-side copy of the scheme (native/src/value.rs) and the stdlib's path to the checked constructor
    {
        use aelys_native as nat;
        let nobs = |w: u64| -> Vec<i128> {
            let f = nat::value_as_float(w);
            vec![b(nat::value_is_null(w)), b(nat::value_is_int(w)), b(nat::value_is_float(w)), b(nat::value_is_bool(w)), b(nat::value_is_ptr(w)),
                 nat::value_as_int(w) as i128,
                 if f.is_nan() { -1 } else { f.to_bits() as i128 },
                 b(nat::value_as_bool(w)),
                 if nat::value_is_ptr(w) { nat::value_as_ptr(w) as i128 } else { 0 }]
        };
        let with = |w: u64| -> Vec<i128> { let mut o = vec![w as i128]; o.extend(nobs(w)); o };
        for &n in &ints {
            emit(format!("QNatInt {}", zc(n as i128)), with(nat::value_int(n)));
            emit(format!("QNat {}", Value::int(n).raw_bits()), nobs(Value::int(n).raw_bits()));
        }
        for &w in &fl {
            emit(format!("QNatFloat {}", w), with(nat::value_float(f64::from_bits(w))));
            emit(format!("QNat {}", Value::float(f64::from_bits(w)).raw_bits()), nobs(Value::float(f64::from_bits(w)).raw_bits()));
        }
        emit("QNatBool true".into(), with(nat::value_bool(true)));
        emit("QNatBool false".into(), with(nat::value_bool(false)));
        emit("QNatNull".into(), with(nat::value_null()));
        for p in [0u64, 1, 42, (1 << 47), (1 << 48) - 1] {
            emit(format!("QNat {}", Value::ptr(p as usize).raw_bits()), nobs(Value::ptr(p as usize).raw_bits()));
        }
        if let Ok(vm) = aelys_driver::new_vm() {
            for &n in &ints {
                let r = aelys_runtime::stdlib::helpers::make_int_checked(&vm, n, "verif");
                emit(format!("QMkInt {}", zc(n as i128)), match r { Ok(v) => { let mut o = vec![1]; o.extend(ctor(v.raw_bits())); o } Err(_) => vec![0] });
            }
        }
    }
    // equality: ints x floats x specials
    let mut eqw: Vec<u64> = Vec::new();
    for n in [0i64, 1, -1, 3, (1 << 47) - 1, -(1 << 47), 1 << 40, 123456789] { eqw.push(Value::int(n).raw_bits()); }
    for f in [0.0f64, -0.0, 1.0, -1.0, 3.0, 3.5, 140737488355327.0, -140737488355328.0, 1099511627776.0, 123456789.0,
              f64::INFINITY, f64::NEG_INFINITY, f64::NAN, 5e-324, 1e300] { eqw.push(Value::float(f).raw_bits()); }
    eqw.push(Value::null().raw_bits()); eqw.push(Value::bool(true).raw_bits()); eqw.push(Value::bool(false).raw_bits());
    eqw.push(Value::ptr(1).raw_bits()); eqw.push(Value::nested_fn_marker(1).raw_bits());
    for &a in &eqw { for &c in &eqw {
        emit(format!("QEq {} {}", a, c), vec![b(Value::from_raw(a) == Value::from_raw(c))]);
    }}
    for _ in 0..random / 2 {
        let n = rng.range_i64(-(1 << 47), (1 << 47) - 1);
        let a = Value::int(n).raw_bits();
        let f = match rng.below(3) { 0 => n as f64, 1 => (n as f64) + 0.5, _ => f64::from_bits(rng.next_u64()) };
        let c = Value::float(f).raw_bits();
        emit(format!("QEq {} {}", a, c), vec![b(Value::from_raw(a) == Value::from_raw(c))]);
        emit(format!("QEq {} {}", c, a), vec![b(Value::from_raw(c) == Value::from_raw(a))]);
    }
}
