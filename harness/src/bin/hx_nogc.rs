//! C13 trace tie: REPL sessions of generated programs built from a small control skeleton
//! (sequence / if / for / while / break / continue / return e / nested fn / lambda / call,
//! every function optionally @no_gc), run through the real pipeline at -O0..-O3 with a
//! collection forced at every safepoint the VM's own guard allows.
//!
//! One output line per (session, opt, input):
//!   <session>\t<input>\t<opt>\t<Coq program term>\t<n0>\t<d0>\t<observation>\t<expectation inl=0>\t<expectation inl=1>\t<skeleton>\t<source>
//! observation  = class d_after safepoints safepoints_at_depth>0 collections collections_at_depth>0
//! expectation  = what this file's own interpreter of the skeleton predicts:
//!                class d_after total at_depth>0 flagged(source-level region) n_retexpr n_inline leak
//! The interpreter here is the *search oracle* (independent of the Coq model); the Coq model
//! evaluates the same program term and is compared with the observation by tools/props/c13.py.
use hxlib::*;

#[derive(Clone, Debug)]
enum Cond { Ngt(i64), Neq(i64), Ieq(i64), Igt(i64), Zt, Zf }
#[derive(Clone, Debug)]
enum Expr { /// no safepoint: 0 plain assignment, 1 a native that allocates (string.repeat), 2 an array constructor + method
    Atom(u8), Safe(u8), Fail, Call(usize), Bin(Box<Expr>, Box<Expr>) }
#[derive(Clone, Debug)]
enum Stmt { X(Expr), If(Cond, Vec<Stmt>, Vec<Stmt>), Loop(bool, u32, Vec<Stmt>), Brk, Cont, Ret(Expr), Def(usize) }
#[derive(Clone, Debug, PartialEq)]
enum Kind { Body, Lam, LeafRet, LeafImp }
#[derive(Clone, Debug)]
struct Func { nogc: bool, parent: i64, kind: Kind, body: Vec<Stmt>, /// inline decorators: 0 none, 1 @inline first, 2 @inline_always first, 3 @inline last, 4 @inline_always last (relative to @no_gc)
    deco: u8,
    /// nested function / lambda that captures a local of its parent (becomes a closure: MakeClosure, upvalues)
    cap: bool }
#[derive(Clone, Debug)]
struct Prog { n0: i64, fns: Vec<Func>, main: Vec<Stmt> }

fn e_bin(e: &Expr) -> bool { matches!(e, Expr::Bin(..)) }
fn b_bin(b: &[Stmt]) -> bool {
    b.iter().any(|s| match s { Stmt::X(e) | Stmt::Ret(e) => e_bin(e), Stmt::If(_, t, e) => b_bin(t) || b_bin(e), Stmt::Loop(_, _, b) => b_bin(b), _ => false })
}
impl Prog {
    fn uses_bin(&self) -> bool { b_bin(&self.main) || self.fns.iter().any(|f| b_bin(&f.body)) }
    /// function objects created by the top-level code: one per top-level fn (+ the helper)
    fn ndefs(&self) -> u64 { self.fns.iter().filter(|f| f.parent < 0).count() as u64 + self.uses_bin() as u64 }
}
impl Func {
    fn is_leaf(&self) -> bool { self.kind == Kind::LeafRet || self.kind == Kind::LeafImp }
    fn eff_body(&self) -> Vec<Stmt> {
        match self.kind {
            Kind::LeafRet => vec![Stmt::Ret(Expr::Safe(1))],
            Kind::LeafImp => vec![Stmt::X(Expr::Safe(1))],
            _ => self.body.clone(),
        }
    }
}

// ------------------------------------------------------------------ s-expression skeleton format
#[derive(Debug, Clone)]
enum Sx { A(String), L(Vec<Sx>) }
fn sx_parse(s: &str) -> Result<Vec<Sx>, String> {
    let mut stack: Vec<Vec<Sx>> = vec![vec![]];
    let mut cur = String::new();
    let flush = |cur: &mut String, stack: &mut Vec<Vec<Sx>>| {
        if !cur.is_empty() { stack.last_mut().unwrap().push(Sx::A(cur.clone())); cur.clear(); }
    };
    let mut in_comment = false;
    for c in s.chars() {
        if in_comment { if c == '\n' { in_comment = false; } continue; }
        match c {
            ';' => { flush(&mut cur, &mut stack); in_comment = true; }
            '(' => { flush(&mut cur, &mut stack); stack.push(vec![]); }
            ')' => {
                flush(&mut cur, &mut stack);
                let l = stack.pop().ok_or("unbalanced")?;
                if stack.is_empty() { return Err("unbalanced )".into()); }
                stack.last_mut().unwrap().push(Sx::L(l));
            }
            c if c.is_whitespace() => flush(&mut cur, &mut stack),
            c => cur.push(c),
        }
    }
    flush(&mut cur, &mut stack);
    if stack.len() != 1 { return Err("unbalanced (".into()); }
    Ok(stack.pop().unwrap())
}
fn sx_head(x: &Sx) -> (&str, &[Sx]) {
    match x {
        Sx::A(a) => (a.as_str(), &[]),
        Sx::L(l) => match l.first() { Some(Sx::A(a)) => (a.as_str(), &l[1..]), _ => ("", &l[..]) },
    }
}
fn sx_int(x: &Sx) -> Result<i64, String> {
    match x { Sx::A(a) => a.parse().map_err(|_| format!("int expected: {}", a)), _ => Err("int expected".into()) }
}
fn p_cond(x: &Sx) -> Result<Cond, String> {
    let (h, r) = sx_head(x);
    Ok(match h {
        "ngt" => Cond::Ngt(sx_int(&r[0])?), "neq" => Cond::Neq(sx_int(&r[0])?),
        "ieq" => Cond::Ieq(sx_int(&r[0])?), "igt" => Cond::Igt(sx_int(&r[0])?),
        "zt" => Cond::Zt, "zf" => Cond::Zf, _ => return Err(format!("cond? {}", h)),
    })
}
fn p_expr(x: &Sx) -> Result<Expr, String> {
    let (h, r) = sx_head(x);
    Ok(match h {
        "atom" => Expr::Atom(0), "atom1" => Expr::Atom(1), "atom2" => Expr::Atom(2), "safe0" => Expr::Safe(0), "safe1" => Expr::Safe(1), "fail" => Expr::Fail,
        "call" => Expr::Call(sx_int(&r[0])? as usize),
        "bin" => Expr::Bin(Box::new(p_expr(&r[0])?), Box::new(p_expr(&r[1])?)),
        _ => return Err(format!("expr? {}", h)),
    })
}
fn p_block(xs: &[Sx]) -> Result<Vec<Stmt>, String> { xs.iter().map(p_stmt).collect() }
fn p_sub(x: &Sx) -> Result<Vec<Stmt>, String> {
    match x { Sx::L(l) => p_block(l), _ => Err("block expected".into()) }
}
fn p_stmt(x: &Sx) -> Result<Stmt, String> {
    let (h, r) = sx_head(x);
    Ok(match h {
        "safe0" => Stmt::X(Expr::Safe(0)), "safe1" => Stmt::X(Expr::Safe(1)), "brk" => Stmt::Brk, "cont" => Stmt::Cont,
        "x" => Stmt::X(p_expr(&r[0])?),
        "if" => Stmt::If(p_cond(&r[0])?, p_sub(&r[1])?, if r.len() > 2 { p_sub(&r[2])? } else { vec![] }),
        "for" => Stmt::Loop(false, sx_int(&r[0])? as u32, p_block(&r[1..])?),
        "while" => Stmt::Loop(true, sx_int(&r[0])? as u32, p_block(&r[1..])?),
        "ret" => Stmt::Ret(p_expr(&r[0])?),
        "def" => Stmt::Def(sx_int(&r[0])? as usize),
        _ => return Err(format!("stmt? {}", h)),
    })
}
fn p_prog(x: &Sx) -> Result<Prog, String> {
    let (h, r) = sx_head(x);
    if h != "prog" { return Err("prog expected".into()); }
    let n0 = sx_int(&r[0])?;
    let mut fns = vec![];
    let mut main = vec![];
    for it in &r[1..] {
        let (h, a) = sx_head(it);
        match h {
            "fn" => {
                let nogc = matches!(&a[0], Sx::A(s) if s == "nogc");
                let parent = sx_int(&a[1])?;
                let mut cap = false;
                let (kind, deco) = match &a[2] { Sx::A(s) => {
                    let mut it = s.split('@');
                    let k0 = it.next().unwrap_or("");
                    cap = k0.ends_with("+c");
                    let k = match k0.trim_end_matches("+c") {
                        "body" => Kind::Body, "lam" => Kind::Lam, "leafret" => Kind::LeafRet, "leafimp" => Kind::LeafImp,
                        k => return Err(format!("kind? {}", k)) };
                    (k, it.next().and_then(|d| d.parse::<u8>().ok()).unwrap_or(0))
                }, _ => return Err("kind".into()) };
                fns.push(Func { nogc, parent, kind, body: p_block(&a[3..])?, deco, cap: cap && parent >= 0 });
            }
            "main" => main = p_block(a)?,
            _ => return Err(format!("prog item? {}", h)),
        }
    }
    Ok(Prog { n0, fns, main })
}
fn s_cond(c: &Cond) -> String {
    match c { Cond::Ngt(k) => format!("(ngt {})", k), Cond::Neq(k) => format!("(neq {})", k), Cond::Ieq(k) => format!("(ieq {})", k),
              Cond::Igt(k) => format!("(igt {})", k), Cond::Zt => "zt".into(), Cond::Zf => "zf".into() }
}
fn s_expr(e: &Expr) -> String {
    match e { Expr::Atom(0) => "atom".into(), Expr::Atom(k) => format!("atom{}", k), Expr::Safe(k) => format!("safe{}", k), Expr::Fail => "fail".into(),
              Expr::Call(f) => format!("(call {})", f), Expr::Bin(a, b) => format!("(bin {} {})", s_expr(a), s_expr(b)) }
}
fn s_block(b: &[Stmt]) -> String { b.iter().map(s_stmt).collect::<Vec<_>>().join(" ") }
fn s_stmt(s: &Stmt) -> String {
    match s {
        Stmt::X(Expr::Safe(k)) => format!("safe{}", k),
        Stmt::X(e) => format!("(x {})", s_expr(e)),
        Stmt::If(c, t, e) => format!("(if {} ({}) ({}))", s_cond(c), s_block(t), s_block(e)),
        Stmt::Loop(w, k, b) => format!("({} {} {})", if *w { "while" } else { "for" }, k, s_block(b)),
        Stmt::Brk => "brk".into(), Stmt::Cont => "cont".into(),
        Stmt::Ret(e) => format!("(ret {})", s_expr(e)),
        Stmt::Def(f) => format!("(def {})", f),
    }
}
fn s_prog(p: &Prog) -> String {
    let mut o = format!("(prog {}", p.n0);
    for f in &p.fns {
        let k = match f.kind { Kind::Body => "body", Kind::Lam => "lam", Kind::LeafRet => "leafret", Kind::LeafImp => "leafimp" };
        let k = format!("{}{}", k, if f.cap { "+c" } else { "" });
        let k = if f.deco != 0 { format!("{}@{}", k, f.deco) } else { k };
        o.push_str(&format!(" (fn {} {} {} {})", if f.nogc { "nogc" } else { "gc" }, f.parent, k, s_block(&f.body)));
    }
    o.push_str(&format!(" (main {}))", s_block(&p.main)));
    o
}

// ------------------------------------------------------------------ Coq term
fn c_cond(c: &Cond) -> String {
    match c { Cond::Ngt(k) => format!("CNgt {}", zc(*k as i128)), Cond::Neq(k) => format!("CNeq {}", zc(*k as i128)),
              Cond::Ieq(k) => format!("CIeq {}", zc(*k as i128)), Cond::Igt(k) => format!("CIgt {}", zc(*k as i128)),
              Cond::Zt => "CZt".into(), Cond::Zf => "CZf".into() }
}
fn c_expr(e: &Expr) -> String {
    match e { Expr::Atom(_) => "EAtom".into(), Expr::Safe(_) => "ESafe".into(), Expr::Fail => "EFail".into(),
              Expr::Call(f) => format!("ECall {}", f), Expr::Bin(a, b) => format!("EBin ({}) ({})", c_expr(a), c_expr(b)) }
}
fn c_block(b: &[Stmt]) -> String { format!("sq [{}]", b.iter().map(c_stmt).collect::<Vec<_>>().join("; ")) }
fn c_stmt(s: &Stmt) -> String {
    match s {
        Stmt::X(e) => format!("SExpr ({})", c_expr(e)),
        Stmt::If(c, t, e) => format!("SIf ({}) ({}) ({})", c_cond(c), c_block(t), c_block(e)),
        Stmt::Loop(_, k, b) => format!("SLoop 0 {} ({})", k, c_block(b)),
        Stmt::Brk => "SBreak".into(), Stmt::Cont => "SContinue".into(),
        Stmt::Ret(e) => format!("SReturn ({})", c_expr(e)),
        Stmt::Def(_) => "SDef".into(),
    }
}
fn c_prog(p: &Prog) -> String {
    let fs: Vec<String> = p.fns.iter().map(|f| format!("mkFn {} {} ({})", f.nogc, f.is_leaf(), c_block(&f.eff_body()))).collect();
    format!("mkProg [{}] ({}) {}", fs.join("; "), c_block(&p.main), p.ndefs())
}

// ------------------------------------------------------------------ Aelys source
struct Pr<'a> { p: &'a Prog, tag: String, out: String, loopn: u32 }
impl<'a> Pr<'a> {
    fn name(&self, f: usize) -> String { format!("f{}_{}", self.tag, f) }
    fn n(&self, main: bool) -> String { if main { format!("{}", self.p.n0) } else { "n".into() } }
    fn n1(&self, main: bool) -> String { if main { format!("{}", self.p.n0 - 1) } else { "n - 1".into() } }
    fn z(&self, main: bool) -> String { if main { "zz".into() } else { "z".into() } }
    fn cond(&self, c: &Cond, main: bool, iv: &Option<String>) -> String {
        let i = iv.clone().unwrap_or("0".into());
        match c {
            Cond::Ngt(k) => format!("{} > {}", self.n(main), k), Cond::Neq(k) => format!("{} == {}", self.n(main), k),
            Cond::Ieq(k) => format!("{} == {}", i, k), Cond::Igt(k) => format!("{} > {}", i, k),
            Cond::Zt => format!("{} == 0", self.z(main)), Cond::Zf => format!("{} != 0", self.z(main)),
        }
    }
    fn call(&self, f: usize, main: bool) -> String {
        if f < self.p.fns.len() && self.p.fns[f].is_leaf() { format!("{}(acc, sx)", self.name(f)) }
        else { format!("{}({}, {})", self.name(f), self.n1(main), self.z(main)) }
    }
    /// expression in value position; `top` = directly the operand of return
    fn expr(&self, e: &Expr, main: bool, top: bool) -> String {
        match e {
            Expr::Atom(_) => self.n(main),
            Expr::Safe(1) if top => "acc + sx".into(),
            Expr::Safe(_) => "alloc(8)".into(),
            Expr::Fail => format!("10 / {}", self.z(main)),
            Expr::Call(f) => self.call(*f, main),
            Expr::Bin(a, b) => format!("p2_{}({}, {})", self.tag, self.expr(a, main, false), self.expr(b, main, false)),
        }
    }
    fn line(&mut self, ind: usize, s: &str) { for _ in 0..ind { self.out.push_str("  "); } self.out.push_str(s); self.out.push('\n'); }
    fn block(&mut self, b: &[Stmt], ind: usize, main: bool, iv: &Option<String>) {
        for s in b { self.stmt(s, ind, main, iv); }
    }
    fn stmt(&mut self, s: &Stmt, ind: usize, main: bool, iv: &Option<String>) {
        match s {
            Stmt::X(Expr::Atom(0)) => { let t = format!("zq = {}", self.n(main)); self.line(ind, &t) }
            // allocation WITHOUT a safepoint: natives, array constructors and methods never reach maybe_collect
            Stmt::X(Expr::Atom(1)) => self.line(ind, "zs = sx.repeat(3)"),
            Stmt::X(Expr::Atom(_)) => { self.loopn += 1; let a = format!("a{}", self.loopn);
                self.line(ind, &format!("let {} = Array<Int>(3)", a)); self.line(ind, &format!("zq = {}.len()", a)) }
            Stmt::X(Expr::Safe(0)) => self.line(ind, "free(alloc(8))"),
            Stmt::X(Expr::Safe(_)) => self.line(ind, "acc = acc + sx"),
            Stmt::X(Expr::Fail) => { let t = format!("zq = 10 / {}", self.z(main)); self.line(ind, &t) }
            Stmt::X(Expr::Call(f)) => {
                let c = self.call(*f, main);
                if *f < self.p.fns.len() && self.p.fns[*f].is_leaf() { self.line(ind, &format!("acc = {}", c)) } else { self.line(ind, &c) }
            }
            Stmt::X(e @ Expr::Bin(..)) => { let t = self.expr(e, main, false); self.line(ind, &t) }
            Stmt::If(c, t, e) => {
                let h = format!("if {} {{", self.cond(c, main, iv));
                self.line(ind, &h);
                self.block(t, ind + 1, main, iv);
                if e.is_empty() { self.line(ind, "}") } else { self.line(ind, "} else {"); self.block(e, ind + 1, main, iv); self.line(ind, "}") }
            }
            Stmt::Loop(w, k, b) => {
                self.loopn += 1;
                let v = format!("i{}", self.loopn);
                if *w {
                    let wv = format!("w{}", self.loopn);
                    self.line(ind, &format!("let mut {} = 0", wv));
                    self.line(ind, &format!("while {} < {} {{", wv, k));
                    self.line(ind + 1, &format!("let {} = {}", v, wv));
                    self.line(ind + 1, &format!("{} = {} + 1", wv, wv));
                } else {
                    self.line(ind, &format!("for {} in 0..{} {{", v, k));
                }
                self.block(b, ind + 1, main, &Some(v));
                self.line(ind, "}");
            }
            Stmt::Brk => self.line(ind, "break"),
            Stmt::Cont => self.line(ind, "continue"),
            Stmt::Ret(e) => { let t = format!("return {}", self.expr(e, main, true)); self.line(ind, &t) }
            Stmt::Def(f) => self.func(*f, ind),
        }
    }
    fn func(&mut self, f: usize, ind: usize) {
        if f >= self.p.fns.len() { return; }
        let fu = self.p.fns[f].clone();
        let nm = self.name(f);
        if fu.kind != Kind::Lam {
            // decorator combinations, in both orders: the inliner must leave a @no_gc function alone whatever else it carries
            match fu.deco { 1 => self.line(ind, "@inline"), 2 => self.line(ind, "@inline_always"), _ => {} }
            if fu.nogc { self.line(ind, "@no_gc"); }
            match fu.deco { 3 => self.line(ind, "@inline"), 4 => self.line(ind, "@inline_always"), _ => {} }
        }
        match fu.kind {
            Kind::LeafRet => self.line(ind, &format!("fn {}(a, b) {{ return a + b }}", nm)),
            Kind::LeafImp => self.line(ind, &format!("fn {}(a, b) {{ a + b }}", nm)),
            Kind::Lam | Kind::Body => {
                if fu.kind == Kind::Lam { self.line(ind, &format!("let {} = fn(n, z) {{", nm)); } else { self.line(ind, &format!("fn {}(n, z) {{", nm)); }
                // a local for the children that capture, and the use of the parent's local by a capturing function
                if self.p.fns.iter().any(|c| c.parent == f as i64 && c.cap) { self.line(ind + 1, &format!("let cp{} = n", f)); }
                if fu.cap && fu.parent >= 0 { self.line(ind + 1, &format!("zq = cp{}", fu.parent)); }
                self.block(&fu.body, ind + 1, false, &None); self.line(ind, "}")
            }
        }
    }
}
fn source_of(p: &Prog, tag: &str) -> String {
    let mut pr = Pr { p, tag: tag.to_string(), out: String::new(), loopn: 0 };
    for f in 0..p.fns.len() { if p.fns[f].parent < 0 { pr.func(f, 0); } }
    // two-operand helper (evaluates both operands in order; two statements so that it is never inlined)
    if p.uses_bin() { let t = format!("fn p2_{}(a, b) {{\n  zq = 0\n  return 0\n}}", tag); pr.line(0, &t); }
    pr.block(&p.main, 0, true, &None);
    pr.line(0, "zq");
    pr.out
}
const PRELUDE: &str = "let mut acc = \"\"\nlet mut sx = \"x\"\nlet mut zs = \"\"\nlet mut zq = 0\nlet mut zz = 0\nlet mut zb = false\nacc = acc + sx\nzs = sx\nzq = zq + zz\nzb = zq == 1\nacc\n";

// ------------------------------------------------------------------ the harness's own interpreter
#[derive(PartialEq, Clone, Copy, Debug)]
enum Out { Normal, Brk, Cont, Ret, Err, Underflow, Limit }
struct Frame { nogc: bool, state: u8 }
struct Sim<'a> { p: &'a Prog, inl: bool, d0: u64, depth: u64, stack: Vec<Frame>, total: u64, nogc: u64, flagged: u64, n_ret: u64, n_inl: u64, steps: u64, limit: u64 }
impl<'a> Sim<'a> {
    fn safepoint(&mut self) {
        self.total += 1;
        if self.depth > 0 { self.nogc += 1; }
        if self.stack.iter().any(|f| f.nogc) {
            self.flagged += 1;
            if self.depth == 0 {
                if self.stack.iter().any(|f| f.nogc && f.state == 1) { self.n_ret += 1; }
                if self.stack.iter().any(|f| f.nogc && f.state == 2) { self.n_inl += 1; }
            }
        }
    }
    fn cond(&self, c: &Cond, n: i64, i: i64) -> bool {
        match c { Cond::Ngt(k) => n > *k, Cond::Neq(k) => n == *k, Cond::Ieq(k) => i == *k, Cond::Igt(k) => i > *k, Cond::Zt => true, Cond::Zf => false }
    }
    fn expr(&mut self, e: &Expr, n: i64) -> Out {
        self.steps += 1;
        if self.steps > self.limit { return Out::Limit; }
        match e {
            Expr::Atom(_) => Out::Normal,
            Expr::Safe(_) => { self.safepoint(); Out::Normal }
            Expr::Fail => Out::Err,
            Expr::Call(f) => self.call(*f, n - 1),
            Expr::Bin(a, b) => { let r = self.expr(a, n); if r != Out::Normal { return r; } self.expr(b, n) }
        }
    }
    fn call(&mut self, f: usize, n: i64) -> Out {
        if f >= self.p.fns.len() { return Out::Err; }
        let fu = &self.p.fns[f];
        let nogc = fu.nogc;
        if self.inl && fu.is_leaf() && !nogc {
            self.stack.push(Frame { nogc, state: 2 });
            self.safepoint();
            self.stack.pop();
            return Out::Normal;
        }
        if self.stack.len() > 60 { return Out::Limit; }
        let body = fu.eff_body();
        self.stack.push(Frame { nogc, state: 0 });
        if nogc { self.depth += 1; }
        let r = self.block(&body, n, 0, nogc);
        match r {
            Out::Normal | Out::Brk | Out::Cont => {
                if nogc { if self.depth == 0 { return Out::Underflow; } self.depth -= 1; }
                self.stack.pop();
                Out::Normal
            }
            Out::Ret => { self.stack.pop(); Out::Normal }
            o => o,
        }
    }
    fn block(&mut self, b: &[Stmt], n: i64, i: i64, nogc: bool) -> Out {
        for s in b { let r = self.stmt(s, n, i, nogc); if r != Out::Normal { return r; } }
        Out::Normal
    }
    fn stmt(&mut self, s: &Stmt, n: i64, i: i64, nogc: bool) -> Out {
        self.steps += 1;
        if self.steps > self.limit { return Out::Limit; }
        match s {
            Stmt::X(e) => self.expr(e, n),
            Stmt::If(c, t, e) => if self.cond(c, n, i) { self.block(t, n, i, nogc) } else { self.block(e, n, i, nogc) },
            Stmt::Loop(_, k, b) => {
                for it in 0..*k {
                    match self.block(b, n, it as i64, nogc) { Out::Normal | Out::Cont => {} Out::Brk => break, o => return o }
                }
                Out::Normal
            }
            Stmt::Brk => Out::Brk,
            Stmt::Cont => Out::Cont,
            Stmt::Ret(e) => {
                let r = self.expr(e, n);
                if r != Out::Normal { return r; }
                if nogc {
                    if self.depth == 0 { return Out::Underflow; }
                    self.depth -= 1;
                    if let Some(f) = self.stack.last_mut() { f.state = 1; }
                }
                Out::Ret
            }
            Stmt::Def(_) => { self.safepoint(); Out::Normal }
        }
    }
}
/// class d_after total nogc flagged n_ret n_inl leak ; class: 0 ok 1 DivisionByZero 2 underflow 3 limit
fn simulate(p: &Prog, inl: bool, d0: u64, limit: u64) -> [i64; 8] {
    let mut s = Sim { p, inl, d0, depth: d0, stack: vec![], total: 0, nogc: 0, flagged: 0, n_ret: 0, n_inl: 0, steps: 0, limit };
    // top-level function declarations: one function object each (LoadK of a nested-function marker)
    let mut r = Out::Normal;
    for _ in 0..p.ndefs() { s.safepoint(); }
    if r == Out::Normal { r = s.block(&p.main, p.n0, 0, false); }
    let class = match r { Out::Normal | Out::Brk | Out::Cont | Out::Ret => 0, Out::Err => 1, Out::Underflow => 2, Out::Limit => 3 };
    // run_fast puts no_gc_depth back to its value at entry when the run fails
    if class == 1 { s.depth = s.d0; }
    let leak = s.depth as i64 - s.d0 as i64;
    [class, s.depth as i64, s.total as i64, s.nogc as i64, s.flagged as i64, s.n_ret as i64, s.n_inl as i64, leak]
}

// ------------------------------------------------------------------ generator
struct Gen<'a> { rng: &'a mut Rng, known: bool, nf: usize, nogc: Vec<bool>, leaf: Vec<bool>, parent: Vec<i64>, fails: u32 }
impl<'a> Gen<'a> {
    fn top_of(&self, mut f: usize) -> usize { while self.parent[f] >= 0 { f = self.parent[f] as usize; } f }
    fn children(&self, f: i64) -> Vec<usize> { (0..self.nf).filter(|&g| self.parent[g] == f).collect() }
    /// Callees of `from` (-1 = main) as (function, needs the `n > 0` guard).  Constraints that keep the
    /// stream away from defects of *other* properties (seen on the pinned tree): a nested function
    /// calling a top-level function, and forward references in a program that also has nested
    /// functions, end in "undefined variable" (global index allocation in nested compilers).
    fn callees(&self, from: i64, unguarded_only: bool) -> Vec<(usize, bool)> {
        let has_nested = self.parent.iter().any(|&p| p >= 0);
        let mut c: Vec<(usize, bool)> = vec![];
        if from < 0 {
            c.extend((0..self.nf).filter(|&g| self.parent[g] < 0).map(|g| (g, false)));
            return c;
        }
        let f = from as usize;
        c.extend(self.children(from).into_iter().map(|g| (g, false)));
        if self.parent[f] >= 0 {
            // a nested function may call top-level functions defined before its own top-level ancestor (acyclic) and leaves
            let top = self.top_of(f);
            c.extend((0..self.nf).filter(|&g| self.parent[g] < 0 && g < top).map(|g| (g, false)));
            return c;
        }
        for g in (0..self.nf).filter(|&g| self.parent[g] < 0) {
            if self.leaf[g] { if g < f || !has_nested { c.push((g, false)); } continue; }
            if has_nested {
                if g < f { c.push((g, false)); } else if g == f && !unguarded_only { c.push((g, true)); }
            } else if g > f { c.push((g, false)); } else if !unguarded_only { c.push((g, true)); }
        }
        c
    }
    fn call_stmt(&mut self, from: i64) -> Option<Stmt> {
        let cands = self.callees(from, false);
        if cands.is_empty() { return None; }
        let (g, guard) = *self.rng.pick(&cands);
        let call = Stmt::X(Expr::Call(g));
        if guard { return Some(Stmt::If(Cond::Ngt(0), vec![call], vec![])); }
        Some(call)
    }
    fn cond(&mut self, from: i64, in_loop: bool) -> Cond {
        let mut opts = vec![];
        if from >= 0 { opts.extend([0, 1, 4, 5]); }
        if in_loop { opts.extend([2, 3, 2]); }
        if opts.is_empty() { return Cond::Ieq(0); }
        match *self.rng.pick(&opts) {
            0 => Cond::Ngt(self.rng.range_i64(0, 2)), 1 => Cond::Neq(self.rng.range_i64(0, 3)),
            2 => Cond::Ieq(self.rng.range_i64(0, 2)), 3 => Cond::Igt(self.rng.range_i64(0, 1)),
            4 => Cond::Zt, _ => Cond::Zf,
        }
    }
    fn ret_expr(&mut self, from: i64, depth: u32) -> Expr {
        let restricted = !self.known && from >= 0 && self.nogc[from as usize];
        let r = self.rng.below(100);
        if restricted { return if r < 90 || self.fails == 0 { Expr::Atom(0) } else { self.fails -= 1; Expr::Fail }; }
        if r < 35 { Expr::Atom(0) }
        else if r < 55 { Expr::Safe(self.rng.below(2) as u8) }
        else if r < 80 {
            // a call in return position must terminate: only forward or child calls
            // not a leaf: `return leaf(acc, sx)` next to `return n` unifies the leaf's result with Int and the typed
            // fast path then adds string pointers as ints (silently in release builds) -- a defect of another property
            let c: Vec<(usize, bool)> = self.callees(from, true).into_iter().filter(|&(g, _)| !self.leaf[g]).collect();
            if c.is_empty() { Expr::Atom(0) } else { Expr::Call(self.rng.pick(&c).0) }
        }
        else if r < 92 && self.fails > 0 { self.fails -= 1; Expr::Fail }
        // two-operand expressions (helper `p2`) are accepted in corpus files but not generated: a helper whose
        // parameters receive strings at one call site and ints at another makes the typed fast paths misread
        // values (a defect of another property) and the run silently skips concatenations
        else { let _ = depth; Expr::Atom(0) }
    }
    fn block(&mut self, from: i64, depth: u32, in_loop: bool, max_len: u64) -> Vec<Stmt> {
        let len = self.rng.below(max_len + 1);
        let mut b = vec![];
        for k in 0..len {
            let last = k + 1 == len;
            let r = self.rng.below(100);
            let s = if r < 28 { Stmt::X(Expr::Safe(self.rng.below(2) as u8)) }
            else if r < 50 { match self.call_stmt(from) { Some(s) => s, None => Stmt::X(Expr::Atom(0)) } }
            else if r < 66 && depth < 3 {
                let c = self.cond(from, in_loop);
                let t = self.block(from, depth + 1, in_loop, 3);
                let e = if self.rng.chance(1, 2) { self.block(from, depth + 1, in_loop, 2) } else { vec![] };
                Stmt::If(c, t, e)
            }
            else if r < 78 && depth < 3 {
                let k = self.rng.range_i64(0, 3) as u32;
                Stmt::Loop(self.rng.chance(1, 3), k, self.block(from, depth + 1, true, 3))
            }
            else if r < 88 && last && (from >= 0 || in_loop) {
                // abrupt exit as the last statement of a block
                let pick = self.rng.below(if in_loop { 3 } else { 1 });
                if pick == 0 && from >= 0 { Stmt::Ret(self.ret_expr(from, 0)) }
                else if pick == 1 { Stmt::Brk } else if in_loop { Stmt::Cont } else { Stmt::X(Expr::Atom(0)) }
            }
            else if r < 91 && self.fails > 0 { self.fails -= 1; Stmt::X(Expr::Fail) }
            else if r < 94 && from >= 0 { Stmt::X(self.ret_expr(from, 1)) }
            else { Stmt::X(Expr::Atom(self.rng.below(3) as u8)) };
            b.push(s);
        }
        b
    }
}
fn always_exits(s: &Stmt) -> bool {
    match s {
        Stmt::Ret(_) | Stmt::Brk | Stmt::Cont => true,
        Stmt::If(_, t, e) => t.iter().any(always_exits) && e.iter().any(always_exits),
        _ => false,
    }
}
fn gen_prog(rng: &mut Rng, known: bool) -> Prog {
    let nf = 1 + rng.below(5) as usize;
    let mut g = Gen { rng, known, nf, nogc: vec![], leaf: vec![], parent: vec![], fails: 0 };
    let mut kinds = vec![];
    for f in 0..nf {
        let nogc = g.rng.chance(1, 2);
        let mut parent = -1i64;
        let mut kind = Kind::Body;
        let nonleaf: Vec<usize> = (0..f).filter(|&h| !g.leaf[h]).collect();
        if !nonleaf.is_empty() && g.rng.chance(1, 4) {
            parent = *g.rng.pick(&nonleaf) as i64;
            if !nogc && g.rng.chance(1, 2) { kind = Kind::Lam; }
        } else if g.rng.chance(1, 6) {
            kind = if g.rng.chance(1, 2) { Kind::LeafRet } else { Kind::LeafImp };
            // outside the known classes a @no_gc leaf is not generated (return-expression / inlining defects)
            if !known && nogc { kind = Kind::Body; }
        }
        g.nogc.push(nogc);
        g.leaf.push(kind == Kind::LeafRet || kind == Kind::LeafImp);
        g.parent.push(parent);
        kinds.push(kind);
    }
    g.fails = if g.rng.chance(1, 3) { 1 + g.rng.below(3) as u32 } else { 0 };
    let mut fns = vec![];
    for f in 0..nf {
        let mut body = vec![];
        if !g.leaf[f] {
            let ch = g.children(f as i64);
            for &c in &ch { body.push(Stmt::Def(c)); }
            let mut rest = g.block(f as i64, 0, false, 4);
            // every child is referenced at least once (an unused `let` would be deleted at -O2)
            for &c in &ch {
                // ... at a position that is not dead code (after a statement that always leaves the block)
                let live = rest.iter().position(always_exits).unwrap_or(rest.len());
                let pos = g.rng.below(live as u64 + 1) as usize;
                rest.insert(pos, Stmt::X(Expr::Call(c)));
            }
            body.extend(rest);
        }
        // half of the leaf functions and a fifth of the others carry @inline / @inline_always, before or after @no_gc
        let deco = if kinds[f] == Kind::Lam { 0 } else if g.leaf[f] { if g.rng.chance(1, 2) { 1 + g.rng.below(4) as u8 } else { 0 } }
                   else if g.rng.chance(1, 5) { 1 + g.rng.below(4) as u8 } else { 0 };
        let cap = g.parent[f] >= 0 && g.rng.chance(1, 2);
        fns.push(Func { nogc: g.nogc[f], parent: g.parent[f], kind: kinds[f].clone(), body, deco, cap });
    }
    let mut main = g.block(-1, 1, false, 4);
    if let Some(s) = g.call_stmt(-1) { let pos = g.rng.below(main.len() as u64 + 1) as usize; main.insert(pos, s); }
    let n0 = g.rng.range_i64(1, 3);
    Prog { n0, fns, main }
}

// ------------------------------------------------------------------ filling the heap inside a region
// Programs that allocate inside a @no_gc region until the configured heap limit is reached (strings by concatenation, vec growth,
// arrays): inside the region nothing may be reclaimed, so the region must run into OutOfMemory -- and that is the only moment at which
// an allocation path's "collect when it does not fit" branch would run.  One fresh VM with max_heap_bytes = limit per case.
#[derive(Clone, Debug)]
struct Fill { t: String, n: u64, pl: u64, m: u64, limit: u64, opt: u32, mode: u8, host: u64 }
const FILL_TEMPLATES: &[&str] = &["concat_short", "concat_grow", "vec_grow", "arrays", "arrays_then_concat", "per_call", "nested_plain", "host_region", "lambda_region", "control"];
impl Fill {
    fn spec(&self) -> String { format!("{}:{}:{}:{}:{}:{}:{}:{}", self.t, self.n, self.pl, self.m, self.limit, self.opt, self.mode, self.host) }
    fn parse(s: &str) -> Option<Fill> {
        let f: Vec<&str> = s.split(':').collect();
        if f.len() != 8 { return None; }
        Some(Fill { t: f[0].into(), n: f[1].parse().ok()?, pl: f[2].parse().ok()?, m: f[3].parse().ok()?, limit: f[4].parse().ok()?, opt: f[5].parse().ok()?, mode: f[6].parse().ok()?, host: f[7].parse().ok()? })
    }
    /// does the allocation happen at no_gc_depth > 0 (source-level region or a region opened by the host)?
    fn region(&self) -> bool { self.t != "control" || self.host > 0 }
    /// lower bound of the bytes allocated while the depth is positive
    fn region_bytes(&self) -> u64 {
        let (n, pl, m) = (self.n, self.pl, self.m);
        match self.t.as_str() {
            "concat_grow" => n * 24 + pl * n * (n + 1) / 2,
            "vec_grow" => 8 * n,
            "arrays" => n * (24 + 8 * m),
            "arrays_then_concat" => m * (24 + 8 * 1000) + n * (24 + 2 * pl),
            _ => n * (24 + 2 * pl),
        }
    }
    fn source(&self) -> String {
        let (n, pl, m) = (self.n, self.pl, self.m);
        let short = |name: &str, deco: &str| format!("{}fn {}(n, p) {{\n  let mut i = 0\n  let mut s = \"x\"\n  while i < n {{\n    s = p + p\n    i = i + 1\n  }}\n  return s.len()\n}}\n", deco, name);
        match self.t.as_str() {
            "concat_short" => format!("{}let pp = sx.repeat({})\nzq = fl_a({}, pp)\nzq\n", short("fl_a", "@no_gc\n"), pl, n),
            "control" => format!("{}let pp = sx.repeat({})\nzq = fl_a({}, pp)\nzq\n", short("fl_a", ""), pl, n),
            "host_region" => format!("{}let pp = sx.repeat({})\nzq = fl_a({}, pp)\nzq\n", short("fl_a", ""), pl, n),
            "concat_grow" => format!("@no_gc\nfn fl_a(n, p) {{\n  let mut i = 0\n  let mut s = \"x\"\n  while i < n {{\n    s = s + p\n    i = i + 1\n  }}\n  return s.len()\n}}\nlet pp = sx.repeat({})\nzq = fl_a({}, pp)\nzq\n", pl, n),
            "vec_grow" => format!("@no_gc\nfn fl_a(n, p) {{\n  let v = Vec<Int>[1]\n  let mut i = 0\n  let mut s = \"x\"\n  while i < n {{\n    v.push(i)\n    if i % 4096 == 0 {{ s = p + p }}\n    i = i + 1\n  }}\n  return v.len() + s.len()\n}}\nlet pp = sx.repeat({})\nzq = fl_a({}, pp)\nzq\n", pl, n),
            "arrays" => format!("@no_gc\nfn fl_a(n, p) {{\n  let mut i = 0\n  let mut t = 0\n  let mut s = \"x\"\n  while i < n {{\n    let a = Array<Int>({})\n    t = t + a.len()\n    if i % 64 == 0 {{ s = p + p }}\n    i = i + 1\n  }}\n  return t + s.len()\n}}\nlet pp = sx.repeat({})\nzq = fl_a({}, pp)\nzq\n", m, pl, n),
            "arrays_then_concat" => format!("@no_gc\nfn fl_a(n, p) {{\n  let mut i = 0\n  let mut t = 0\n  while i < {} {{\n    let a = Array<Int>(1000)\n    t = t + a.len()\n    i = i + 1\n  }}\n  let mut s = \"x\"\n  i = 0\n  while i < n {{\n    s = p + p\n    i = i + 1\n  }}\n  return t + s.len()\n}}\nlet pp = sx.repeat({})\nzq = fl_a({}, pp)\nzq\n", m, pl, n),
            "per_call" => format!("@no_gc\nfn fl_c(p) {{ return p + p }}\nlet pp = sx.repeat({})\nlet mut fi = 0\nwhile fi < {} {{\n  zs = fl_c(pp)\n  fi = fi + 1\n}}\nzq = zs.len()\nzq\n", pl, n),
            "nested_plain" => format!("{}@no_gc\nfn fl_o(n, p) {{\n  let r = fl_a(n, p)\n  return r\n}}\nlet pp = sx.repeat({})\nzq = fl_o({}, pp)\nzq\n", short("fl_a", ""), pl, n),
            "lambda_region" => format!("@no_gc\nfn fl_o(n, p) {{\n  let g = fn(k) {{\n    let mut i = 0\n    let mut s = \"x\"\n    while i < k {{\n      s = p + p\n      i = i + 1\n    }}\n    return s.len()\n  }}\n  let r = g(n)\n  return r\n}}\nlet pp = sx.repeat({})\nzq = fl_o({}, pp)\nzq\n", pl, n),
            _ => "zq\n".into(),
        }
    }
}
#[cfg(vbxq_aelys_lang_verif)]
fn run_fill(k: usize, c: &Fill) {
    use aelys_runtime::verif;
    use hxlib::runner::*;
    let cfg = match aelys_runtime::VmConfig::new(c.limit) { Ok(v) => v, Err(_) => { println!("FILLFAIL\t{}\tconfig", c.spec()); return; } };
    let mut vm = match aelys_driver::new_vm_with_config(cfg, Vec::new()) { Ok(v) => v, Err(_) => { println!("FILLFAIL\t{}\tVMFAIL", c.spec()); return; } };
    verif::gc_mode_set(0, 0);
    let r0 = run_on_vm(&mut vm, PRELUDE, c.opt, 1_000_000);
    if r0.class != "ok" { println!("FILLFAIL\t{}\tPRELUDEFAIL {}", c.spec(), esc(&r0.detail)); return; }
    let host = if c.t == "host_region" { c.host.max(1) } else { c.host };
    for _ in 0..host { vm.enter_no_gc(); }
    let src = c.source();
    let d0 = vm.no_gc_depth();
    verif::gc_mode_set(c.mode, 3);
    verif::gc_counters_reset();
    let h0 = vm.heap().bytes_allocated();
    let r = run_on_vm(&mut vm, &src, c.opt, 400_000_000);
    let g = verif::gc_counters();
    let d1 = vm.no_gc_depth();
    let h1 = vm.heap().bytes_allocated();
    verif::gc_mode_set(0, 0);
    let class = match r.class.as_str() { "ok" => 0, "runtime:OutOfMemory" => 1, "budget" => 3, "compile-error" => 7, "panic" => 8, _ => 9 };
    println!("FILL\t{}\t{}\t{}\t{}\t{} {} {} {} {} {} {} {} {}\t{}\t{}", k, c.spec(), if c.region() || host > 0 { 1 } else { 0 }, c.region_bytes(),
             class, d0, d1, g.0, g.1, g.2, g.3, h0, h1, esc(&src), if class != 0 { esc(&format!("{} {}", r.class, r.detail.lines().next().unwrap_or(""))) } else { String::new() });
}
fn gen_fills(seed: u64, random: u64, opts: &[u32], limits: &[u64]) -> Vec<Fill> {
    let mut out = vec![];
    let mut rng = Rng::new(seed ^ 0xF111);
    let sized = |t: &str, limit: u64, over: bool, pl: u64, rng: &mut Rng| -> (u64, u64) {
        // (n, m): the region allocates about 3 x the limit (must fail) or about a quarter of it (fits)
        let target = if over { 3 * limit } else { limit / 4 };
        match t {
            "concat_grow" => { let n = (((2 * target) as f64 / pl.max(1) as f64).sqrt() as u64).max(2); (n, 0) }
            "vec_grow" => (target / 8, 0),
            "arrays" => { let m = *rng.pick(&[10u64, 500, 20_000]); (target / (24 + 8 * m) + 1, m) }
            "arrays_then_concat" => { let m = if over { (limit - 100_000) / 8024 } else { limit / 8 / 8024 }; ((if over { 2 * limit } else { limit / 8 }) / (24 + 2 * pl) + 1, m) }
            _ => (target / (24 + 2 * pl) + 1, 0),
        }
    };
    for t in FILL_TEMPLATES {
        for &limit in limits {
            for &opt in opts {
                for (mode, over, pl) in [(0u8, true, 40u64), (1, true, 1000), (0, false, 40), (4, true, 7)] {
                    if *t == "control" && mode != 0 { continue; }
                    let (n, m) = sized(t, limit, over, pl, &mut rng);
                    out.push(Fill { t: t.to_string(), n, pl, m, limit, opt, mode, host: 0 });
                }
            }
        }
    }
    for _ in 0..random {
        let t = *rng.pick(FILL_TEMPLATES);
        let limit = *rng.pick(limits);
        let pl = *rng.pick(&[1u64, 7, 40, 64, 500, 4096, 60_000]);
        let over = rng.chance(3, 4);
        let (n, m) = sized(t, limit, over, pl, &mut rng);
        let mode = if t == "control" { 0 } else { *rng.pick(&[0u8, 0, 1, 3, 4]) };
        let host = if rng.chance(1, 6) { *rng.pick(&[1u64, 2, 70]) } else { 0 };
        out.push(Fill { t: t.to_string(), n, pl, m, limit, opt: *rng.pick(opts), mode, host });
    }
    out
}

// ------------------------------------------------------------------ running
#[cfg(vbxq_aelys_lang_verif)]
fn run_session(sid: &str, progs: &[Prog], opts: &[u32], host_depth: u64) {
    use aelys_runtime::verif;
    use hxlib::runner::*;
    for &opt in opts {
        let mut vm = match aelys_driver::new_vm_with_config(Default::default(), Vec::new()) { Ok(v) => v, Err(_) => { println!("{}\t-\t{}\tVMFAIL", sid, opt); continue; } };
        verif::gc_mode_set(2, 0);
        let r0 = run_on_vm(&mut vm, PRELUDE, opt, 1_000_000);
        if r0.class != "ok" { println!("{}\t-\t{}\tPRELUDEFAIL {}", sid, opt, esc(&r0.detail)); continue; }
        // the host itself may have opened regions (VM::enter_no_gc): every input then starts at that depth and must end there
        for _ in 0..host_depth { vm.enter_no_gc(); }
        for (k, p) in progs.iter().enumerate() {
            let src = source_of(p, &format!("{}", k));
            let d0 = vm.no_gc_depth() as u64;
            verif::gc_counters_reset();
            let r = run_on_vm(&mut vm, &src, opt, 5_000_000);
            let c = verif::gc_counters();
            let d1 = vm.no_gc_depth();
            let class = match r.class.as_str() { "ok" => 0, "runtime:DivisionByZero" => 1, "runtime:InvalidBytecode" => if r.detail.contains("no_gc underflow") { 2 } else { 9 }, "budget" => 3,
                "compile-error" => 7, "panic" => 8, _ => 9 };
            let e0 = simulate(p, false, d0, 200_000);
            let e1 = simulate(p, true, d0, 200_000);
            let j = |a: &[i64]| a.iter().map(|x| x.to_string()).collect::<Vec<_>>().join(" ");
            println!("{}\t{}\t{}\t{}\t{}\t{}\t{} {} {} {} {} {}\t{}\t{}\t{}\t{}\t{}", sid, k, opt, c_prog(p), p.n0, d0,
                     class, d1, c.0, c.1, c.2, c.3, j(&e0), j(&e1), s_prog(p), esc(&src),
                     if class >= 2 { esc(&format!("{} {}", r.class, r.detail)) } else { String::new() });
        }
        verif::gc_mode_set(0, 0);
    }
}

#[cfg(vbxq_aelys_lang_verif)]
fn main() {
    quiet_panics();
    let seed = arg_u64("--seed", 0);
    let sessions = arg_u64("--sessions", 50);
    let opts: Vec<u32> = arg("--opts").unwrap_or("0,1,2,3".into()).split(',').filter_map(|s| s.parse().ok()).collect();
    let corpus = arg("--corpus");
    if flag("--probe-order") {
        // behavioural translator input: where does compiled code run ExitNoGc relative to the return expression?
        use aelys_runtime::verif;
        use hxlib::runner::*;
        let mut vm = aelys_driver::new_vm_with_config(Default::default(), Vec::new()).unwrap();
        verif::gc_mode_set(2, 0);
        let r0 = run_on_vm(&mut vm, PRELUDE, 0, 1_000_000);
        verif::gc_counters_reset();
        let r = run_on_vm(&mut vm, "@no_gc\nfn pr_f(a, b) { return a + b }\nacc = pr_f(acc, sx)\nacc\n", 0, 1_000_000);
        let c = verif::gc_counters();
        let d = vm.no_gc_depth();
        let verdict = if r0.class != "ok" || r.class != "ok" || c.0 != 2 { "PROBE-FAILED" }
            else if c.1 == 0 && d == 0 { "RetExitFirst" } else if c.1 == 1 && d == 0 { "RetExitAfterExpr" }
            else if c.1 == 1 && d == 1 { "RetNoExit" } else { "PROBE-FAILED" };
        println!("{} class={} safepoints={} at_depth>0={} depth_after={}", verdict, r.class, c.0, c.1, d);
        // does a failed run put no_gc_depth back?  (fresh VM; the failing operation is NOT in a return expression)
        let mut vm2 = aelys_driver::new_vm_with_config(Default::default(), Vec::new()).unwrap();
        let _ = run_on_vm(&mut vm2, PRELUDE, 0, 1_000_000);
        let r2 = run_on_vm(&mut vm2, "@no_gc\nfn pr_h(n, z) {\n  zq = 10 / z\n  return n\n}\npr_h(1, zz)\n", 0, 1_000_000);
        let restores = match (r2.class.as_str(), vm2.no_gc_depth()) { ("runtime:DivisionByZero", 0) => "true", ("runtime:DivisionByZero", 1) => "false", _ => "PROBE-FAILED" };
        // does the inliner leave @no_gc functions alone?  (-O2; `a + b` as trailing value; alone and combined with
        // @inline / @inline_always before and after @no_gc)
        let mut skips = "true";
        for (k, decos) in ["@no_gc", "@inline\n@no_gc", "@inline_always\n@no_gc", "@no_gc\n@inline", "@no_gc\n@inline_always"].iter().enumerate() {
            let mut vm3 = aelys_driver::new_vm_with_config(Default::default(), Vec::new()).unwrap();
            let _ = run_on_vm(&mut vm3, PRELUDE, 2, 1_000_000);
            verif::gc_counters_reset();
            let src = format!("{}\nfn pr_g{}(a, b) {{ a + b }}\nacc = pr_g{}(acc, sx)\nacc\n", decos, k, k);
            let r3 = run_on_vm(&mut vm3, &src, 2, 1_000_000);
            let c3 = verif::gc_counters();
            if r3.class != "ok" || c3.0 != 2 { skips = "PROBE-FAILED"; break; }
            if c3.1 != 1 { skips = "false"; }
        }
        println!("error_restores_depth={} inliner_skips_no_gc={}", restores, skips);
        return;
    }
    if flag("--fill") || arg("--fill-cases").is_some() {
        // heap-filling programs under a small configured limit (see Fill)
        let limits: Vec<u64> = arg("--limits").unwrap_or("1048576,2097152".into()).split(',').filter_map(|s| s.parse().ok()).collect();
        let cases: Vec<Fill> = match arg("--fill-cases") {
            Some(l) => l.split(',').filter_map(Fill::parse).collect(),
            None => gen_fills(seed, arg_u64("--random", 0), &opts, &limits),
        };
        let handle = std::thread::Builder::new().stack_size(256 << 20).spawn(move || { for (k, c) in cases.iter().enumerate() { run_fill(k, c); } }).unwrap();
        handle.join().unwrap();
        return;
    }
    if let Some(file) = arg("--raw") {
        // probe mode: raw source inputs separated by lines `=====`, run as one REPL session
        use aelys_runtime::verif;
        use hxlib::runner::*;
        let text = std::fs::read_to_string(&file).expect("read");
        let opt = opts[0];
        let mut vm = aelys_driver::new_vm_with_config(Default::default(), Vec::new()).unwrap();
        verif::gc_mode_set(arg_u64("--gc", 2) as u8, 0);
        for (i, p) in text.split("\n=====\n").enumerate() {
            verif::gc_counters_reset();
            let d0 = vm.no_gc_depth();
            let r = run_on_vm(&mut vm, p, opt, 5_000_000);
            println!("{}\t{}\t{}\t{}\td{}->{}\t{:?}\t{}", i, r.class, esc(&r.output), esc(&r.value), d0, vm.no_gc_depth(), verif::gc_counters(), esc(&r.detail));
        }
        return;
    }
    let handle = std::thread::Builder::new().stack_size(256 << 20).spawn(move || {
        if let Some(files) = corpus {
            for file in files.split(',').filter(|s| !s.is_empty()) {
                let text = std::fs::read_to_string(file).expect("read corpus");
                let items = sx_parse(&text).expect("corpus syntax");
                // optional first item (host K): the host opens K regions before the first input
                let mut host_depth = 0u64;
                let items: Vec<Sx> = items.into_iter().filter(|x| { let (h, r) = sx_head(x); if h == "host" { host_depth = sx_int(&r[0]).unwrap_or(0) as u64; false } else { true } }).collect();
                let progs: Vec<Prog> = items.iter().map(|x| p_prog(x).expect("corpus program")).collect();
                let sid = format!("corpus:{}", std::path::Path::new(file).file_name().unwrap().to_string_lossy());
                run_session(&sid, &progs, &opts, host_depth);
            }
            return;
        }
        let mut rng = Rng::new(seed);
        for s in 0..sessions {
            // one session in five starts inside regions opened by the host (1, 2 or 70 -- beyond the old saturation bound of 64)
            let host_depth = if rng.chance(1, 5) { *rng.pick(&[1u64, 2, 70]) } else { 0 };
            let known = true;   // unrestricted: the three former defect classes are repaired and part of the stream
            let n_in = 1 + rng.below(4);
            let mut progs = vec![];
            let mut d = host_depth;
            for _ in 0..n_in {
                // rejection: programs must terminate quickly
                loop {
                    let p = gen_prog(&mut rng, known);
                    let a = simulate(&p, false, d, 3000);
                    let b = simulate(&p, true, d, 3000);
                    if a[0] >= 2 || b[0] >= 2 { continue; }
                    d = a[1] as u64;
                    progs.push(p);
                    break;
                }
            }
            run_session(&format!("{}s{}", if host_depth > 0 { format!("h{}", host_depth) } else { String::new() }, s), &progs, &opts, host_depth);
        }
    }).unwrap();
    handle.join().unwrap();
}
#[cfg(not(vbxq_aelys_lang_verif))]
fn main() { eprintln!("built without hooks"); std::process::exit(2); }
