//! C11 tie: denied capabilities cannot be exercised.
//!
//!   --mode parse    seeded flag lists through the real parse_vm_args; prints
//!                   `<Coq list of strings>\t<observation>` for Model/Caps.v::parse_obs
//!   --mode natives  for every capability subset x flag spelling x request sequence: the keys
//!                   of the VM's native registry after the requests went through the real
//!                   loader (REPL inputs with every import form; assembly-style name lists
//!                   through ModuleLoader the way cli run.rs does) vs Model/Caps.v::natives_obs
//!   --mode sentinel the direct oracle: each gated native is attempted through every route
//!                   against a scratch directory, a loopback listener and `touch sentinel`;
//!                   one `A` line per attempt with the outcome class and the observed effects
#![allow(clippy::all)]
use aelys_common::error::AelysError;
use aelys_runtime::{VM, VMCapabilities, Value, VmConfig, parse_vm_args};
use hxlib::runner::esc;
use hxlib::*;
use std::collections::BTreeMap;
use std::path::{Path, PathBuf};

fn coq_str(s: &str) -> String { format!("\"{}\"", s.replace('"', "\"\"")) }
fn coq_list(xs: &[String]) -> String { format!("[{}]", xs.join("; ")) }

// ------------------------------------------------------------------------------------------
// flag spellings for a subset of {fs, net, exec}

fn spellings(fs: bool, net: bool, exec: bool) -> Vec<(&'static str, Vec<String>)> {
    let b = |x: bool| if x { "true" } else { "false" };
    let mut on: Vec<&str> = Vec::new();
    if fs { on.push("fs"); }
    if net { on.push("net"); }
    if exec { on.push("exec"); }
    let mut v = Vec::new();
    v.push(("caps-each", vec![
        format!("--{}-caps=fs", if fs { "allow" } else { "deny" }),
        format!("--{}-caps=net", if net { "allow" } else { "deny" }),
        format!("--{}-caps=exec", if exec { "allow" } else { "deny" })]));
    v.push(("caps-list", if on.is_empty() { vec![] } else { vec![format!("--allow-caps={}", on.join(","))] }));
    v.push(("ae-dash", vec![format!("--ae-allow-fs={}", b(fs)), format!("--ae-allow-net={}", b(net)), format!("--ae-allow-exec={}", b(exec))]));
    v.push(("ae-dot", vec![format!("-ae.allow-fs={}", b(fs)), format!("-ae.allow-net={}", b(net)), format!("-ae.allow-exec={}", b(exec))]));
    // an allow that is taken back, and a deny-set that mentions an unrelated name
    v.push(("allow-then-deny", {
        let mut a = vec!["--allow-caps=fs,net,exec".to_string()];
        let off: Vec<&str> = [("fs", fs), ("net", net), ("exec", exec)].iter().filter(|(_, x)| !*x).map(|(n, _)| *n).collect();
        if !off.is_empty() { a.push(format!("--deny-caps={}", off.join(" , "))); }
        a.push("--deny-caps=gpu".to_string());
        a
    }));
    if fs && net && exec {
        v.push(("trusted", vec!["--ae-trusted=true".to_string()]));
        v.push(("trusted-dot-after-deny", vec!["--deny-caps=fs,net".to_string(), "-ae.trusted=TRUE".to_string()]));
    }
    v
}

fn config_of(flags: &[String]) -> Option<VmConfig> {
    parse_vm_args(flags).ok().map(|p| p.config)
}

// ------------------------------------------------------------------------------------------
// mode parse

fn parse_main() {
    let seed = arg_u64("--seed", 0);
    let n = arg_u64("--n", 500);
    let mut rng = Rng::new(seed ^ 0xCA);
    let names = ["fs", "net", "exec", "gpu", "window", " fs", "fs ", "", "FS", "danger", "fs,net", "net,,exec", " , ", "exec,fs ,gpu"];
    let bools = ["true", "false", "TRUE", "False", "1", "yes", "", "tru"];
    let keys = ["allow-fs", "allow-net", "allow-exec", "trusted", "allow-gpu", "Allow-fs", "trusted ", ""];
    let mut cases: Vec<Vec<String>> = Vec::new();
    // all subsets x spellings
    for m in 0..8u32 {
        for (_, f) in spellings(m & 1 != 0, m & 2 != 0, m & 4 != 0) { cases.push(f); }
    }
    cases.push(vec!["--deny-caps=fs".into(), "--allow-caps=fs".into()]);
    cases.push(vec!["--allow-caps=fs".into(), "--deny-caps=fs".into()]);
    for _ in 0..n {
        let k = rng.below(6) as usize;
        let mut a = Vec::new();
        for _ in 0..k {
            a.push(match rng.below(9) {
                0 => format!("--allow-caps={}", rng.pick(&names)),
                1 => format!("--deny-caps={}", rng.pick(&names)),
                2 => format!("--ae-{}={}", rng.pick(&keys), rng.pick(&bools)),
                3 => format!("-ae.{}={}", rng.pick(&keys), rng.pick(&bools)),
                4 => "--dev".to_string(),
                5 => rng.pick(&["prog-arg", "-x", "--allow-caps", "--ae-trusted", "-ae.", "--ae-", "file.aelys", "--deny-caps=", "a=b"]).to_string(),
                6 => format!("--ae-allow-{}={}", rng.pick(&["fs", "net", "exec"]), rng.pick(&["true", "false"])),
                7 => format!("--allow-caps={},{}", rng.pick(&["fs", "net", "exec", "gpu"]), rng.pick(&["fs", "net", "exec", "window"])),
                _ => format!("-ae.trusted={}", rng.pick(&["true", "false"])),
            });
        }
        cases.push(a);
    }
    for a in cases {
        let q = coq_list(&a.iter().map(|s| coq_str(s)).collect::<Vec<_>>());
        let o = match parse_vm_args(&a) {
            Ok(p) => {
                let c = &p.config;
                let mut al: Vec<String> = c.allowed_caps.iter().map(|s| coq_str(s)).collect(); al.sort();
                let mut de: Vec<String> = c.denied_caps.iter().map(|s| coq_str(s)).collect(); de.sort();
                format!("([0%N; {}%N; {}%N; {}%N; {}%N], {}, {}, {})", c.capabilities.allow_fs as u8, c.capabilities.allow_net as u8,
                        c.capabilities.allow_exec as u8, c.allow_hot_reload as u8, coq_list(&al), coq_list(&de),
                        coq_list(&p.program_args.iter().map(|s| coq_str(s)).collect::<Vec<_>>()))
            }
            Err(_) => "([1%N], [], [], [])".to_string(),
        };
        println!("{}\t{}", q, o);
    }
}

// ------------------------------------------------------------------------------------------
// mode natives

#[derive(Clone, Debug)]
enum LoadReq { Std(String, u8), Names(Vec<String>) }

#[cfg(vbxq_aelys_lang_verif)]
fn apply_request(vm: &mut VM, r: &LoadReq, dir: &Path) {
    use aelys_syntax::{ImportKind, NeedsStmt, Source, Span};
    match r {
        LoadReq::Std(m, form) => {
            // one REPL input per request; errors leave the session alive
            let first = first_export(m);
            let src = match form % 4 {
                0 => format!("needs std.{}\n0", m),
                1 => format!("needs std.{} as zz{}\n0", m, m),
                2 => format!("needs {} from std.{}\n0", first, m),
                _ => format!("needs std.{}.*\n0", m),
            };
            let _ = guarded(std::panic::AssertUnwindSafe(|| aelys_driver::run_with_vm_and_opt(vm, &src, "<caps>", hxlib::runner::opt_level(0))));
        }
        LoadReq::Names(gs) => {
            // the lines of cli/src/cli/commands/run.rs::load_required_modules for the no-bundle case:
            // std first, then fall through to the file lookup
            let entry = dir.join("names.aasm");
            let src = Source::new(entry.display().to_string(), "");
            let mut loader = aelys_driver::modules::ModuleLoader::with_manifest(&entry, src.clone(), None);
            let mut mods: Vec<String> = Vec::new();
            for g in gs { if g.contains("::") { if let Some(m) = g.split("::").next() { if !mods.contains(&m.to_string()) { mods.push(m.to_string()); } } } }
            for m in mods {
                let needs = NeedsStmt { path: vec!["std".to_string(), m.clone()], kind: ImportKind::Module { alias: None }, span: Span::dummy() };
                if loader.load_module(&needs, vm).is_ok() { continue; }
                let needs = NeedsStmt { path: vec![m.clone()], kind: ImportKind::Module { alias: None }, span: Span::dummy() };
                let _ = loader.load_module(&needs, vm);
            }
        }
    }
}

fn first_export(m: &str) -> &'static str {
    match m { "fs" => "read_text", "net" => "connect", "sys" => "exec", "bytes" => "alloc", "math" => "sqrt", "io" => "print",
              "time" => "now", "string" => "len", "convert" => "to_string", _ => "nothing" }
}

#[cfg(vbxq_aelys_lang_verif)]
fn natives_main() {
    quiet_panics();
    let seed = arg_u64("--seed", 0);
    let n = arg_u64("--n", 6);
    let dir = PathBuf::from(arg("--dir").expect("--dir"));
    std::fs::create_dir_all(&dir).unwrap();
    std::env::set_current_dir(&dir).unwrap();
    let mut rng = Rng::new(seed ^ 0xC1);
    let mods = ["fs", "net", "sys", "bytes", "math", "io", "time", "string", "convert", "nosuch", "fs", "net"];
    let names = ["fs::write_text", "net::listen", "sys::exec", "bytes::alloc", "helper::x", "plain", "fs::", "::x", "std::fs", "math::sqrt", "net::connect"];
    for m in 0..8u32 {
        for (_sp, flags) in spellings(m & 1 != 0, m & 2 != 0, m & 4 != 0) {
            let mut seqs: Vec<Vec<LoadReq>> = vec![
                vec![],
                vec![LoadReq::Std("fs".into(), 0)], vec![LoadReq::Std("net".into(), 1)], vec![LoadReq::Std("fs".into(), 2), LoadReq::Std("net".into(), 3)],
                vec![LoadReq::Names(vec!["fs::write_text".into(), "net::listen".into(), "sys::exec".into()])],
                vec![LoadReq::Std("sys".into(), 0), LoadReq::Std("fs".into(), 1), LoadReq::Names(vec!["fs::read".into()]), LoadReq::Std("bytes".into(), 3)],
            ];
            for _ in 0..n {
                let k = 1 + rng.below(5);
                let mut s = Vec::new();
                for _ in 0..k {
                    if rng.chance(1, 4) {
                        let c = 1 + rng.below(4);
                        s.push(LoadReq::Names((0..c).map(|_| rng.pick(&names).to_string()).collect()));
                    } else {
                        s.push(LoadReq::Std(rng.pick(&mods).to_string(), rng.below(4) as u8));
                    }
                }
                seqs.push(s);
            }
            for s in seqs {
                let Some(cfg) = config_of(&flags) else { continue };
                let mut vm = match aelys_driver::new_vm_with_config(cfg, Vec::new()) { Ok(v) => v, Err(_) => continue };
                for r in &s { apply_request(&mut vm, r, &dir); }
                let got: Vec<String> = vm.verif_native_names().iter().map(|x| coq_str(x)).collect();
                let reqs: Vec<String> = s.iter().map(|r| match r {
                    LoadReq::Std(m, _) => format!("LStd {}", coq_str(m)),
                    LoadReq::Names(g) => format!("LNames {}", coq_list(&g.iter().map(|x| coq_str(x)).collect::<Vec<_>>())),
                }).collect();
                println!("({}, {})\t{}", coq_list(&flags.iter().map(|x| coq_str(x)).collect::<Vec<_>>()), coq_list(&reqs), coq_list(&got));
            }
        }
    }
}

// ------------------------------------------------------------------------------------------
// mode sentinel

fn snapshot(dir: &Path) -> BTreeMap<String, (bool, u64, u64)> {
    fn walk(base: &Path, d: &Path, out: &mut BTreeMap<String, (bool, u64, u64)>) {
        if let Ok(rd) = std::fs::read_dir(d) {
            for e in rd.flatten() {
                let p = e.path();
                let rel = p.strip_prefix(base).unwrap().display().to_string();
                if p.is_dir() { out.insert(rel, (true, 0, 0)); walk(base, &p, out); }
                else {
                    let bytes = std::fs::read(&p).unwrap_or_default();
                    let mut h: u64 = 0xcbf29ce484222325;
                    for b in &bytes { h ^= *b as u64; h = h.wrapping_mul(0x100000001b3); }
                    out.insert(rel, (false, bytes.len() as u64, h));
                }
            }
        }
    }
    let mut m = BTreeMap::new();
    walk(dir, dir, &mut m);
    m
}

fn diff(a: &BTreeMap<String, (bool, u64, u64)>, b: &BTreeMap<String, (bool, u64, u64)>) -> Vec<String> {
    let mut v = Vec::new();
    for (k, x) in b { match a.get(k) { None => v.push(format!("created:{}", k)), Some(y) if y != x => v.push(format!("modified:{}", k)), _ => {} } }
    for k in a.keys() { if !b.contains_key(k) { v.push(format!("removed:{}", k)); } }
    v
}

fn kind_of_debug(d: &str) -> String {
    d.chars().take_while(|c| c.is_ascii_alphanumeric() || *c == '_').collect()
}

fn outcome(r: Result<Result<Value, AelysError>, String>) -> (String, String) {
    match r {
        Ok(Ok(v)) => (format!("ok:{}", if v.is_null() { "null" } else if v.as_int().is_some() { "int" } else if v.as_bool().is_some() { "bool" } else if v.is_ptr() { "object" } else { "other" }), String::new()),
        Ok(Err(AelysError::Compile(e))) => (format!("compile:{}", kind_of_debug(&format!("{:?}", e.kind))), format!("{:?}", e.kind)),
        Ok(Err(AelysError::Runtime(e))) => (format!("runtime:{}", hxlib::runner::kind_name(&e.kind)), e.kind.message()),
        Err(p) => ("panic".to_string(), p),
    }
}

struct Case { dir: PathBuf }

impl Case {
    /// scratch directory with a victim file, a victim directory and nothing else
    fn fresh(root: &Path, idx: usize) -> Case {
        let dir = root.join(format!("case{}", idx));
        let _ = std::fs::remove_dir_all(&dir);
        std::fs::create_dir_all(dir.join("d")).unwrap();
        std::fs::write(dir.join("victim.txt"), b"original").unwrap();
        Case { dir }
    }
}

#[cfg(vbxq_aelys_lang_verif)]
fn sentinel_main() {
    use aelys_runtime::verif;
    quiet_panics();
    let root = PathBuf::from(arg("--dir").expect("--dir"));
    std::fs::create_dir_all(&root).unwrap();
    let listener = std::net::TcpListener::bind("127.0.0.1:0").expect("loopback listener");
    listener.set_nonblocking(true).unwrap();
    let lport = listener.local_addr().unwrap().port();
    let mut idx = 0usize;
    // (module, capability, function, args builder, kind of effect expected when allowed)
    type ArgFn = fn(&Path, u16, u16) -> String;
    let ops: Vec<(&str, &str, &str, ArgFn, &str)> = vec![
        ("fs", "fs", "write_text", |d, _, _| format!("\"{}/new.txt\", \"x\"", d.display()), "fs"),
        ("fs", "fs", "append_text", |d, _, _| format!("\"{}/victim.txt\", \"y\"", d.display()), "fs"),
        ("fs", "fs", "delete", |d, _, _| format!("\"{}/victim.txt\"", d.display()), "fs"),
        ("fs", "fs", "rename", |d, _, _| format!("\"{}/victim.txt\", \"{}/moved.txt\"", d.display(), d.display()), "fs"),
        ("fs", "fs", "copy", |d, _, _| format!("\"{}/victim.txt\", \"{}/copy.txt\"", d.display(), d.display()), "fs"),
        ("fs", "fs", "mkdir", |d, _, _| format!("\"{}/newdir\"", d.display()), "fs"),
        ("fs", "fs", "mkdir_all", |d, _, _| format!("\"{}/a/b/c\"", d.display()), "fs"),
        ("fs", "fs", "rmdir", |d, _, _| format!("\"{}/d\"", d.display()), "fs"),
        ("fs", "fs", "open", |d, _, _| format!("\"{}/opened.txt\", \"w\"", d.display()), "fs"),
        ("fs", "fs", "read_text", |d, _, _| format!("\"{}/victim.txt\"", d.display()), "value"),
        ("fs", "fs", "readdir", |d, _, _| format!("\"{}\"", d.display()), "value"),
        ("net", "net", "listen", |_, p, _| format!("\"127.0.0.1\", {}", p), "value"),
        ("net", "net", "udp_bind", |_, p, _| format!("\"127.0.0.1\", {}", p), "value"),
        ("net", "net", "connect", |_, _, l| format!("\"127.0.0.1\", {}", l), "conn"),
        ("sys", "exec", "exec", |d, _, _| format!("\"touch {}/sentinel\"", d.display()), "fs"),
        ("sys", "exec", "exec_output", |d, _, _| format!("\"touch {}/sentinel\"", d.display()), "fs"),
        ("sys", "exec", "exec_args", |d, _, _| format!("\"touch\", \"{}/sentinel\"", d.display()), "fs"),
        ("sys", "exec", "exec_args_output", |d, _, _| format!("\"touch\", \"{}/sentinel\"", d.display()), "fs"),
    ];
    let forms = ["module", "alias", "symbol", "wildcard", "no-needs", "repl-history", "repl-history-alias", "user-module-reexport", "file", "callback", "callback-stored"];
    for m in 0..8u32 {
        let (fs, net, exec) = (m & 1 != 0, m & 2 != 0, m & 4 != 0);
        let sp = spellings(fs, net, exec);
        for (oi, (module, cap, func, argf, effect)) in ops.iter().enumerate() {
            let allowed = match *cap { "fs" => fs, "net" => net, _ => exec };
            for (fi, form) in forms.iter().enumerate() {
                // rotate the spelling so that every (subset, spelling) pair is used many times
                let (spname, flags) = &sp[(oi + fi) % sp.len()];
                let Some(cfg) = config_of(flags) else { println!("X\tflags rejected {:?}", flags); continue };
                idx += 1;
                let case = Case::fresh(&root, idx);
                let port = 20000 + ((std::process::id() as usize * 7 + idx) % 20000) as u16;
                let args = argf(&case.dir, port, lport);
                let call_q = format!("{}.{}({})", module, func, args);
                let before = snapshot(&case.dir);
                // drain stale connections
                while listener.accept().is_ok() {}
                verif::sink_install();
                verif::budget_set(2_000_000);
                let r: Result<Result<Value, AelysError>, String> = guarded(std::panic::AssertUnwindSafe(|| -> Result<Value, AelysError> {
                    let o = hxlib::runner::opt_level((idx % 3) as u32);
                    match *form {
                        "module" | "alias" | "symbol" | "wildcard" | "no-needs" | "callback" | "callback-stored" => {
                            let nargs = args.matches(", ").count() + 1;
                            let params: Vec<String> = (0..nargs).map(|k| format!("a{}", k)).collect();
                            let src = match *form {
                                // the native travels as a value and is called by user code that never names the module
                                "callback" => format!("needs std.{m}\nfn apply(f, {ps}) {{ return f({ps}) }}\napply({m}.{f}, {a})", m = module, f = func, ps = params.join(", "), a = args),
                                "callback-stored" => format!("needs std.{m}\nlet held = {m}.{f}\nfn later({ps}) {{ return held({ps}) }}\nlater({a})", m = module, f = func, ps = params.join(", "), a = args),
                                "module" => format!("needs std.{}\n{}", module, call_q),
                                "alias" => format!("needs std.{} as zq\nzq.{}({})", module, func, args),
                                "symbol" => format!("needs {} from std.{}\n{}({})", func, module, func, args),
                                "wildcard" => format!("needs std.{}.*\n{}({})", module, func, args),
                                _ => call_q.clone(),
                            };
                            let mut vm = aelys_driver::new_vm_with_config(cfg.clone(), Vec::new())?;
                            aelys_driver::run_with_vm_and_opt(&mut vm, &src, "<caps>", o)
                        }
                        "repl-history" | "repl-history-alias" => {
                            let mut vm = aelys_driver::new_vm_with_config(cfg.clone(), Vec::new())?;
                            let inputs: Vec<String> = if *form == "repl-history" {
                                vec!["let warm = 1".into(), format!("needs std.{}", module), call_q.clone()]
                            } else {
                                vec!["needs std.math".into(), format!("needs std.{} as hq", module), format!("hq.{}({})", func, args)]
                            };
                            let mut last = Ok(Value::null());
                            for i in &inputs { last = aelys_driver::run_with_vm_and_opt(&mut vm, i, "<caps>", o); }
                            last
                        }
                        _ => {
                            // file routes
                            let main = case.dir.join("main.aelys");
                            if *form == "user-module-reexport" {
                                std::fs::write(case.dir.join("helper.aelys"), format!("needs std.{}\npub fn call0() {{ return {} }}\n", module, call_q)).unwrap();
                                std::fs::write(&main, "needs helper\nhelper.call0()\n").unwrap();
                            } else {
                                std::fs::write(&main, format!("needs std.{}\n{}\n", module, call_q)).unwrap();
                            }
                            aelys_driver::run_file_full(&main, cfg.clone(), Vec::new(), o).map(|r| r.value)
                        }
                    }
                }));
                let _out = verif::sink_take();
                verif::budget_set(u64::MAX);
                let (class, detail) = outcome(r);
                let after = snapshot(&case.dir);
                let mut eff: Vec<String> = diff(&before, &after).into_iter()
                    .filter(|e| !e.ends_with(":main.aelys") && !e.ends_with(":helper.aelys")).collect();
                std::thread::sleep(std::time::Duration::from_millis(if *effect == "conn" { 20 } else { 0 }));
                if listener.accept().is_ok() { eff.push("connected:loopback".to_string()); }
                println!("A\t{}\t{}\t{}\t{}\t{}\t{}\t{}\t{}\t{}\t{}", spname, flags.join(" "), form, module, func, allowed as u8, class,
                         if eff.is_empty() { "-".to_string() } else { eff.join(",") }, effect, esc(&detail.chars().take(200).collect::<String>()));
                let _ = std::fs::remove_dir_all(&case.dir);
            }
        }
    }
    // a capability taken away after the module was registered (VM::set_capabilities): EVERY gated native
    for (module, _cap, func, argf, _effect) in ops.iter() {
        idx += 1;
        let case = Case::fresh(&root, idx);
        let cfg = config_of(&["--ae-trusted=true".to_string()]).unwrap();
        let mut vm = aelys_driver::new_vm_with_config(cfg, Vec::new()).unwrap();
        let _ = aelys_driver::run_with_vm_and_opt(&mut vm, &format!("needs std.{}", module), "<caps>", hxlib::runner::opt_level(0));
        // a handle obtained while the capability was there must not keep working either: hold the native itself
        let _ = aelys_driver::run_with_vm_and_opt(&mut vm, &format!("let held = {}.{}", module, func), "<caps>", hxlib::runner::opt_level(0));
        vm.set_capabilities(VMCapabilities::default());
        let port = 41000 + ((std::process::id() as usize * 3 + idx) % 20000) as u16;
        let args = argf(&case.dir, port, lport);
        let call = if idx % 2 == 0 { format!("{}.{}({})", module, func, args) } else { format!("held({})", args) };
        let before = snapshot(&case.dir);
        while listener.accept().is_ok() {}
        verif::sink_install();
        let r = guarded(std::panic::AssertUnwindSafe(|| aelys_driver::run_with_vm_and_opt(&mut vm, &call, "<caps>", hxlib::runner::opt_level(0))));
        let _ = verif::sink_take();
        let (class, detail) = outcome(r);
        let mut eff = diff(&before, &snapshot(&case.dir));
        std::thread::sleep(std::time::Duration::from_millis(10));
        if listener.accept().is_ok() { eff.push("connected:loopback".to_string()); }
        println!("L\t{}\t{}\t{}\t{}\t{}", module, func, class, if eff.is_empty() { "-".to_string() } else { eff.join(",") }, esc(&detail.chars().take(200).collect::<String>()));
        let _ = std::fs::remove_dir_all(&case.dir);
    }
    // ... and the handle-based fs natives on a handle that was opened while the capability was there
    for (func, mode, call_args) in [("write", "w", "h, \"data\""), ("write_line", "w", "h, \"data\""), ("write_bytes", "w", "h, \"data\""),
                                    ("read", "r", "h"), ("read_line", "r", "h"), ("read_all", "r", "h"), ("read_bytes", "r", "h, 4"), ("close", "w", "h")] {
        idx += 1;
        let case = Case::fresh(&root, idx);
        let cfg = config_of(&["--ae-trusted=true".to_string()]).unwrap();
        let mut vm = aelys_driver::new_vm_with_config(cfg, Vec::new()).unwrap();
        let _ = aelys_driver::run_with_vm_and_opt(&mut vm, "needs std.fs", "<caps>", hxlib::runner::opt_level(0));
        let target = if mode == "r" { "victim.txt" } else { "opened.txt" };
        let _ = aelys_driver::run_with_vm_and_opt(&mut vm, &format!("let h = fs.open(\"{}/{}\", \"{}\")", case.dir.display(), target, mode), "<caps>", hxlib::runner::opt_level(0));
        let before = snapshot(&case.dir);
        vm.set_capabilities(VMCapabilities::default());
        verif::sink_install();
        let r = guarded(std::panic::AssertUnwindSafe(|| aelys_driver::run_with_vm_and_opt(&mut vm, &format!("fs.{}({})", func, call_args), "<caps>", hxlib::runner::opt_level(0))));
        let _ = verif::sink_take();
        let (class, detail) = outcome(r);
        drop(vm);                                   // buffered writers flush here at the latest
        let eff = diff(&before, &snapshot(&case.dir));
        println!("L\tfs\t{}(handle)\t{}\t{}\t{}", func, class, if eff.is_empty() { "-".to_string() } else { eff.join(",") }, esc(&detail.chars().take(200).collect::<String>()));
        let _ = std::fs::remove_dir_all(&case.dir);
    }
    // sys.hostname() with no capability at all: does the value come out of a file?
    {
        // SAFETY: single-threaded here
        unsafe { std::env::remove_var("HOSTNAME"); std::env::remove_var("COMPUTERNAME"); }
        let mut vm = aelys_driver::new_vm_with_config(VmConfig::default(), Vec::new()).unwrap();
        let r = guarded(std::panic::AssertUnwindSafe(|| aelys_driver::run_with_vm_and_opt(&mut vm, "needs std.sys\nsys.hostname()", "<caps>", hxlib::runner::opt_level(0))));
        let got = match r { Ok(Ok(v)) => vm.value_to_string(v), _ => "<error>".to_string() };
        let f1 = std::fs::read_to_string("/etc/hostname").map(|s| s.trim().to_string()).unwrap_or_default();
        let f2 = std::fs::read_to_string("/proc/sys/kernel/hostname").map(|s| s.trim().to_string()).unwrap_or_default();
        let from_file = (!f1.is_empty() && got == f1) || (!f2.is_empty() && got == f2);
        println!("N\tsys\thostname\t{}\t{}", from_file as u8, esc(&got));
    }
    let _ = std::fs::remove_dir_all(&root);
}

#[cfg(vbxq_aelys_lang_verif)]
fn main() {
    match arg("--mode").as_deref() {
        Some("parse") => parse_main(),
        Some("natives") => natives_main(),
        Some("sentinel") => sentinel_main(),
        _ => { eprintln!("--mode parse|natives|sentinel"); std::process::exit(2); }
    }
}
#[cfg(not(vbxq_aelys_lang_verif))]
fn main() { eprintln!("built without hooks"); std::process::exit(2); }
