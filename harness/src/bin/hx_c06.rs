//! C06 harness.
//!   --select            : contract tie of Model/OpcodeSelect.v: prints, for every operator x
//!                         left type x right type, `QSel <op> <l> <r>\t<O_Opcode>\t<probe>` where
//!                         <l>,<r> are Coq terms of type rtype and <probe> is what happens when the
//!                         selected opcode is executed on the real VM with operands (float 2.5, int 1)
//!                         for selections that involve an Uncertain/Dynamic operand:
//!                         `m=<unchecked-accessor mismatches> <W word|E kind|P>` (or `-` when not probed).
//!   --run FILE          : whole-pipeline runs.  FILE holds programs separated by lines `=====`;
//!                         each is run through hxlib::runner::run_program at --opts (default
//!                         0,1,2,3); one line per run:
//!                         `<idx>\t<opt>\t<class>\t<mismatches>\t<output>\t<value>\t<detail>` (escaped).
#[cfg(vbxq_aelys_lang_verif)]
mod imp {
    use aelys_backend::opcode_select::select_opcode;
    use aelys_bytecode::{Function, OpCode, Value};
    use aelys_runtime::VM;
    use aelys_sema::ResolvedType as RT;
    use aelys_syntax::Source;
    use aelys_syntax::ast::BinaryOp;
    use hxlib::runner::*;
    use hxlib::*;

    fn base_types() -> Vec<(RT, &'static str)> {
        vec![
            (RT::I8, "RI8"), (RT::I16, "RI16"), (RT::I32, "RI32"), (RT::I64, "RI64"),
            (RT::U8, "RU8"), (RT::U16, "RU16"), (RT::U32, "RU32"), (RT::U64, "RU64"),
            (RT::F32, "RF32"), (RT::F64, "RF64"), (RT::Bool, "RBool"), (RT::String, "RString"), (RT::Null, "RNull"),
            (RT::Range, "ROther"), (RT::Array(Box::new(RT::I64)), "ROther"), (RT::Vec(Box::new(RT::F64)), "ROther"),
            (RT::Function { params: vec![RT::I64], ret: Box::new(RT::I64) }, "ROther"),
            (RT::Struct("S".into()), "ROther"), (RT::Tuple(vec![RT::I64, RT::F64]), "ROther"),
            (RT::Dynamic, "RDynamic"),
        ]
    }

    fn probe(op: OpCode) -> String {
        aelys_bytecode::verif::mismatches_reset();
        let r = guarded(std::panic::AssertUnwindSafe(|| {
            let mut vm = VM::new(Source::new("<sel>", "")).map_err(|e| kind_name(&e.kind).to_string())?;
            let mut f = Function::new(Some("t".into()), 0);
            f.num_registers = 4;
            f.constants.push(Value::float(2.5));
            f.constants.push(Value::int(1));
            f.emit_b(OpCode::LoadK, 0, 0, 1);
            f.emit_b(OpCode::LoadK, 1, 1, 1);
            f.emit_a(op, 2, 0, 1, 1);
            f.emit_a(OpCode::Return, 2, 0, 0, 1);
            f.finalize_bytecode();
            let fr = vm.alloc_function(f).map_err(|e| kind_name(&e.kind).to_string())?;
            vm.execute(fr).map(|v| v.raw_bits()).map_err(|e| kind_name(&e.kind).to_string())
        }));
        let m = aelys_bytecode::verif::mismatches();
        match r {
            Ok(Ok(w)) => format!("m={} W {}", m, w),
            Ok(Err(k)) => format!("m={} E {}", m, k),
            Err(_) => format!("m={} P", m),
        }
    }

    pub fn select() {
        let ops = [
            (BinaryOp::Add, "OpAdd"), (BinaryOp::Sub, "OpSub"), (BinaryOp::Mul, "OpMul"), (BinaryOp::Div, "OpDiv"), (BinaryOp::Mod, "OpMod"),
            (BinaryOp::Eq, "OpEq"), (BinaryOp::Ne, "OpNe"), (BinaryOp::Lt, "OpLt"), (BinaryOp::Le, "OpLe"), (BinaryOp::Gt, "OpGt"), (BinaryOp::Ge, "OpGe"),
            (BinaryOp::Shl, "OpShl"), (BinaryOp::Shr, "OpShr"), (BinaryOp::BitAnd, "OpBitAnd"), (BinaryOp::BitOr, "OpBitOr"), (BinaryOp::BitXor, "OpBitXor"),
        ];
        let mut tys: Vec<(RT, String, bool)> = Vec::new();     // (type, Coq term, uncertain-or-dynamic)
        for (t, n) in base_types() {
            let unc = matches!(t, RT::Dynamic);
            tys.push((t.clone(), n.to_string(), unc));
            tys.push((RT::Uncertain(Box::new(t.clone())), format!("(RUncertain {})", n), true));
        }
        tys.push((RT::Uncertain(Box::new(RT::Uncertain(Box::new(RT::I64)))), "(RUncertain (RUncertain RI64))".into(), true));
        tys.push((RT::Uncertain(Box::new(RT::Uncertain(Box::new(RT::F64)))), "(RUncertain (RUncertain RF64))".into(), true));
        let mut probed: std::collections::HashMap<u8, String> = std::collections::HashMap::new();
        for (op, on) in &ops {
            for (l, ln, lu) in &tys {
                for (r, rn, ru) in &tys {
                    let sel = select_opcode(*op, l, r);
                    let pr = if *lu || *ru {
                        probed.entry(sel as u8).or_insert_with(|| probe(sel)).clone()
                    } else { "-".to_string() };
                    println!("QSel {} {} {}\tO_{:?}\t{}", on, ln, rn, sel, pr);
                }
            }
        }
    }

    /// contract tie of Model/TypedArray.v: random operation sequences on the real AelysArray / AelysVec
    /// `QArr <K> <n> <ops>\t<observations>` ; ops: g<i> s<i>:<w> p<w> o l ; observations: one `a,b,..` group per op
    pub fn arrays(seed: u64, count: u64) {
        use aelys_bytecode::object::{AelysArray, AelysVec};
        let mut rng = Rng::new(seed ^ 0xA77A);
        let pool: Vec<u64> = vec![
            Value::int(0).raw_bits(), Value::int(7).raw_bits(), Value::int(-1).raw_bits(), Value::int((1 << 47) - 1).raw_bits(),
            Value::int(-(1 << 47)).raw_bits(), 0xFFF9_0000_0000_0005,
            Value::float(0.0).raw_bits(), Value::float(-0.0).raw_bits(), Value::float(2.5).raw_bits(), Value::float(f64::NAN).raw_bits(),
            0x7FF0_0000_0000_0001, 0xFFFE_0000_0000_0123, Value::float(f64::INFINITY).raw_bits(), 1,
            Value::bool(true).raw_bits(), Value::bool(false).raw_bits(), 0xFFFA_0000_0000_0003, Value::null().raw_bits(),
            Value::ptr(5).raw_bits(), Value::nested_fn_marker(2).raw_bits(),
        ];
        for _ in 0..count {
            let kind = rng.below(4);
            let is_vec = rng.chance(1, 2);
            let n = if is_vec { 0 } else { rng.below(5) as usize };
            let kname = ["KI", "KF", "KB", "KO"][kind as usize];
            let mut arr = match kind { 0 => AelysArray::new_ints(n), 1 => AelysArray::new_floats(n), 2 => AelysArray::new_bools(n), _ => AelysArray::new_objects(n) };
            let mut vec = match kind { 0 => AelysVec::new_ints(), 1 => AelysVec::new_floats(), 2 => AelysVec::new_bools(), _ => AelysVec::new_objects() };
            let mut ops: Vec<String> = Vec::new();
            let mut obs: Vec<String> = Vec::new();
            for _ in 0..(4 + rng.below(12)) {
                let w = if rng.chance(4, 5) { *rng.pick(&pool) } else {
                    match rng.below(3) { 0 => Value::int(rng.next_u64() as i64).raw_bits(), 1 => Value::float(f64::from_bits(rng.next_u64())).raw_bits(), _ => rng.next_u64() }
                };
                let i = rng.below(6) as usize;
                match rng.below(if is_vec { 5 } else { 3 }) {
                    0 => { ops.push(format!("g{}", i));
                           let r = if is_vec { vec.get(i) } else { arr.get(i) };
                           obs.push(match r { Some(v) => format!("1,{}", v.raw_bits()), None => "0".into() }); }
                    1 => { ops.push(format!("s{}:{}", i, w));
                           let r = if is_vec { vec.set(i, Value::from_raw(w)) } else { arr.set(i, Value::from_raw(w)) };
                           obs.push(format!("{}", r as u8)); }
                    2 => { ops.push("l".into()); obs.push(format!("{}", if is_vec { vec.len() } else { arr.len() })); }
                    3 => { ops.push(format!("p{}", w)); obs.push(format!("{}", vec.push(Value::from_raw(w)) as u8)); }
                    _ => { ops.push("o".into()); obs.push(match vec.pop() { Some(v) => format!("1,{}", v.raw_bits()), None => "0".into() }); }
                }
            }
            println!("QArr {} {} {}\t{}", kname, n, ops.join(" "), obs.join(" "));
        }
    }

    /// contract tie of the opcode level of Model/TypedArray.v: every array / vec load, get, store, push
    /// and pop arm (all element kinds), executed on the real VM with a container object and raw index /
    /// value words; `QAop <opcode> <container> <idx word> <value word>\t<outcome>|<contents after>`
    ///   container: A:<K>:<elems> | V:<K>:<elems> | S:<chars> | O    (what the container word resolves to)
    ///   outcome:   W <word> | N | S <i> | E <0 index|1 type|2 handle|9 other> | P
    pub fn arrayops(seed: u64, count: u64) {
        use aelys_bytecode::object::{AelysArray, AelysVec};
        use aelys_bytecode::{GcRef, ObjectKind};
        let mut rng = Rng::new(seed ^ 0xA0F5);
        let ops: Vec<(u8, char)> = (135u8..=138).map(|o| (o, 'l')).chain((139..=142).map(|o| (o, 'l')))
            .chain((143..=146).map(|o| (o, 's'))).chain((153..=156).map(|o| (o, 'p'))).chain((157..=160).map(|o| (o, 'o')))
            .chain((164..=167).map(|o| (o, 'l'))).chain((168..=171).map(|o| (o, 'l'))).chain((172..=175).map(|o| (o, 's'))).collect();
        let idx_pool: Vec<u64> = vec![
            Value::int(0).raw_bits(), Value::int(1).raw_bits(), Value::int(2).raw_bits(), Value::int(3).raw_bits(), Value::int(7).raw_bits(),
            Value::int(-1).raw_bits(), Value::int(-5).raw_bits(), Value::int((1 << 47) - 1).raw_bits(), Value::int(-(1 << 47)).raw_bits(),
            Value::float(0.0).raw_bits(), Value::float(1.0).raw_bits(), Value::float(2.0).raw_bits(), Value::float(1.5).raw_bits(),
            Value::float(-1.0).raw_bits(), Value::float(f64::NAN).raw_bits(), Value::float(f64::INFINITY).raw_bits(), 1,
            Value::bool(true).raw_bits(), Value::bool(false).raw_bits(), Value::null().raw_bits(), 0xFFF9_0000_0000_0001,
        ];
        let val_pool: Vec<u64> = vec![
            Value::int(5).raw_bits(), Value::int(-9).raw_bits(), Value::float(2.5).raw_bits(), Value::float(f64::NAN).raw_bits(),
            Value::float(3.0).raw_bits(), Value::bool(true).raw_bits(), Value::bool(false).raw_bits(), Value::null().raw_bits(),
        ];
        let describe = |vm: &VM, w: u64| -> (String, Vec<u64>) {
            let p = Value::from_raw(w).as_ptr().unwrap_or(0);
            match vm.heap().get(GcRef::new(p)).map(|o| &o.kind) {
                Some(ObjectKind::Array(a)) => {
                    let c: Vec<u64> = (0..a.len()).map(|i| a.get(i).unwrap().raw_bits()).collect();
                    (format!("A:{}", ["KI", "KF", "KB", "KO"][a.type_tag() as usize]), c)
                }
                Some(ObjectKind::Vec(v)) => {
                    let c: Vec<u64> = (0..v.len()).map(|i| v.get(i).unwrap().raw_bits()).collect();
                    (format!("V:{}", ["KI", "KF", "KB", "KO"][v.type_tag() as usize]), c)
                }
                Some(ObjectKind::String(s)) => (format!("S:{}", s.as_str().chars().count()), vec![]),
                Some(_) => ("O".to_string(), vec![]),
                None => ("H".to_string(), vec![]),
            }
        };
        let mut vm = VM::new(Source::new("<aop>", "")).expect("vm");
        let mut runs = 0;
        for n in 0..count {
            if runs >= 150 { vm = VM::new(Source::new("<aop>", "")).expect("vm"); runs = 0; }
            runs += 1;
            let (opc, shape) = ops[(n as usize) % ops.len()];
            // ---- container
            let kind = rng.below(4);
            let len = rng.below(4) as usize;
            let elem = |rng: &mut Rng, k: u64| -> Value { match k {
                0 => Value::int(rng.range_i64(-50, 50)), 1 => Value::float((rng.range_i64(-40, 40) as f64) / 4.0),
                2 => Value::bool(rng.chance(1, 2)), _ => *rng.pick(&[Value::int(4), Value::float(0.5), Value::null(), Value::bool(true)]) } };
            let cw: u64 = match rng.below(10) {
                0..=3 => { let mut a = match kind { 0 => AelysArray::new_ints(len), 1 => AelysArray::new_floats(len), 2 => AelysArray::new_bools(len), _ => AelysArray::new_objects(len) };
                           for i in 0..len { let v = elem(&mut rng, kind); a.set(i, v); }
                           Value::ptr(vm.alloc_array(a).expect("alloc").index()).raw_bits() }
                4..=7 => { let mut v = match kind { 0 => AelysVec::new_ints(), 1 => AelysVec::new_floats(), 2 => AelysVec::new_bools(), _ => AelysVec::new_objects() };
                           for _ in 0..len { let x = elem(&mut rng, kind); v.push(x); }
                           Value::ptr(vm.alloc_vec(v).expect("alloc").index()).raw_bits() }
                8 => Value::ptr(vm.alloc_string(["", "a", "héé", "wxyz"][len]).expect("alloc").index()).raw_bits(),
                _ => *rng.pick(&[Value::int(3).raw_bits(), Value::null().raw_bits(), Value::float(1.0).raw_bits()]),   // not a pointer: object 0
            };
            let iw = if rng.chance(1, 12) { Value::ptr(vm.alloc_string("1").expect("alloc").index()).raw_bits() }      // a string as index
                     else if rng.chance(5, 6) { *rng.pick(&idx_pool) } else { Value::float(rng.range_i64(0, 3) as f64).raw_bits() };
            let vw = *rng.pick(&val_pool);
            let (desc, before) = describe(&vm, cw);
            let mut f = Function::new(Some("t".into()), 0);
            f.num_registers = 6;
            for (i, &w) in [cw, iw, vw].iter().enumerate() {
                f.constants.push(Value::from_raw(w));
                f.emit_b(OpCode::LoadK, i as u8, i as i16, 1);
            }
            let has_dest = match shape { 'l' | 'o' => true, _ => false };
            let Some(op) = OpCode::from_u8(opc) else { continue };
            match shape {
                'l' => f.emit_a(op, 3, 0, 1, 1),
                's' => f.emit_a(op, 0, 1, 2, 1),
                'p' => f.emit_a(op, 0, 2, 0, 1),
                _ => f.emit_a(op, 3, 0, 0, 1),
            }
            f.emit_a(OpCode::Return, if has_dest { 3 } else { 0 }, 0, 0, 1);
            f.finalize_bytecode();
            let r = guarded(std::panic::AssertUnwindSafe(|| {
                let fr = vm.alloc_function(f).map_err(|e| kind_name(&e.kind).to_string())?;
                vm.execute(fr).map(|v| v.raw_bits()).map_err(|e| kind_name(&e.kind).to_string())
            }));
            let outcome = match r {
                Ok(Ok(w)) => {
                    if !has_dest { "N".to_string() } else {
                        // a fresh one-character string out of a string container?
                        let rv = Value::from_raw(w);
                        let ch = if desc.starts_with("S:") { rv.as_ptr().and_then(|p| match vm.heap().get(GcRef::new(p)).map(|o| &o.kind) {
                            Some(ObjectKind::String(s)) => Some(s.as_str().to_string()), _ => None }) } else { None };
                        match (ch, Value::from_raw(iw).as_int(), Value::from_raw(cw).as_ptr()) {
                            (Some(c), Some(i), Some(p)) if i >= 0 => {
                                let whole = match vm.heap().get(GcRef::new(p)).map(|o| &o.kind) { Some(ObjectKind::String(s)) => s.as_str().to_string(), _ => String::new() };
                                if whole.chars().nth(i as usize).map(|x| x.to_string()) == Some(c) { format!("S {}", i) } else { format!("W {}", w) }
                            }
                            _ => format!("W {}", w),
                        }
                    }
                }
                Ok(Err(k)) => { vm.clear_frames(); format!("E {}", match k.as_str() { "IndexOutOfBounds" => 0, "TypeError" => 1, "InvalidMemoryHandle" => 2, _ => 9 }) }
                Err(_) => { vm = VM::new(Source::new("<aop>", "")).expect("vm"); runs = 0; "P".to_string() }
            };
            let after = if outcome == "P" { before.clone() } else { describe(&vm, cw).1 };
            let l = |v: &Vec<u64>| v.iter().map(|x| x.to_string()).collect::<Vec<_>>().join(",");
            println!("QAop {} {}:{} {} {}\t{}|{}", opc, desc, l(&before), iw, vw, outcome, l(&after));

            // ---- literals (ArrayLit 134, VecLit 152): `QLit <opc> <w,w,..>\t<K>:<contents> | E <k> | P`
            if n % 4 == 0 {
                let lop = if rng.chance(1, 2) { 134u8 } else { 152 };
                let cnt = rng.below(5) as usize;
                let lk = rng.below(4);
                let ws: Vec<u64> = (0..cnt).map(|_| if rng.chance(3, 4) { elem(&mut rng, lk).raw_bits() } else { *rng.pick(&val_pool) }).collect();
                let mut f = Function::new(Some("t".into()), 0);
                f.num_registers = 8;
                for (i, &w) in ws.iter().enumerate() { f.constants.push(Value::from_raw(w)); f.emit_b(OpCode::LoadK, 1 + i as u8, i as i16, 1); }
                if let Some(op) = OpCode::from_u8(lop) {
                    f.emit_a(op, 0, 1, cnt as u8, 1);
                    f.emit_a(OpCode::Return, 0, 0, 0, 1);
                    f.finalize_bytecode();
                    let r = guarded(std::panic::AssertUnwindSafe(|| {
                        let fr = vm.alloc_function(f).map_err(|e| kind_name(&e.kind).to_string())?;
                        vm.execute(fr).map(|v| v.raw_bits()).map_err(|e| kind_name(&e.kind).to_string())
                    }));
                    let o = match r {
                        Ok(Ok(w)) => { let (d, c) = describe(&vm, w); format!("{}:{}", d, l(&c)) }
                        Ok(Err(k)) => { vm.clear_frames(); format!("E {}", match k.as_str() { "TypeError" => 1, "IndexOutOfBounds" => 0, _ => 9 }) }
                        Err(_) => { vm = VM::new(Source::new("<aop>", "")).expect("vm"); runs = 0; "P".to_string() }
                    };
                    println!("QLit {} {}\t{}", lop, l(&ws), o);
                }
            }
            // ---- one for-each step (177 / 178 / 179): `QEach <opc> <container> <idx word>\tW <elem> | S <i> | END | E <k> | P`
            if n % 3 == 0 {
                let eop = 177 + rng.below(3) as u8;
                let ecw: u64 = if rng.chance(1, 4) || desc.starts_with("S:") {      // ASCII strings only: the model takes byte offset = char index
                     Value::ptr(vm.alloc_string(["", "a", "xyz", "wxyz"][len]).expect("alloc").index()).raw_bits() } else { cw };
                let eiw = if rng.chance(3, 4) { Value::int(rng.range_i64(-1, 4)).raw_bits() } else { *rng.pick(&idx_pool) };
                let (edesc, econt) = describe(&vm, ecw);
                let sentinel = 0x7FFC_0000_0000_0777u64;
                let mut f = Function::new(Some("t".into()), 0);
                f.num_registers = 6;
                for (i, &w) in [eiw, ecw, sentinel].iter().enumerate() { f.constants.push(Value::from_raw(w)); }
                f.emit_b(OpCode::LoadK, 1, 0, 1);
                f.emit_b(OpCode::LoadK, 2, 1, 1);
                f.emit_b(OpCode::LoadK, 3, 2, 1);
                f.emit_a(OpCode::LoadNull, 0, 0, 0, 1);
                if let Some(op) = OpCode::from_u8(eop) {
                    f.emit_b(op, 0, 1, 1);                       // taken: skip the Return below
                    f.emit_a(OpCode::Return, 3, 0, 0, 1);        // not taken: the sentinel
                    f.emit_a(OpCode::Return, 0, 0, 0, 1);        // taken: the element
                    f.finalize_bytecode();
                    let r = guarded(std::panic::AssertUnwindSafe(|| {
                        let fr = vm.alloc_function(f).map_err(|e| kind_name(&e.kind).to_string())?;
                        vm.execute(fr).map(|v| v.raw_bits()).map_err(|e| kind_name(&e.kind).to_string())
                    }));
                    let o = match r {
                        Ok(Ok(w)) if w == sentinel => "END".to_string(),
                        Ok(Ok(w)) => if edesc.starts_with("S:") { format!("S {}", Value::from_raw(eiw).as_int().unwrap_or(0)) } else { format!("W {}", w) },
                        Ok(Err(k)) => { vm.clear_frames(); format!("E {}", match k.as_str() { "TypeError" => 1, "IndexOutOfBounds" => 0, _ => 9 }) }
                        Err(_) => { vm = VM::new(Source::new("<aop>", "")).expect("vm"); runs = 0; "P".to_string() }
                    };
                    println!("QEach {} {}:{} {}\t{}", eop, edesc, l(&econt), eiw, o);
                }
            }
        }
    }

    /// static opcode histogram of the programs in FILE compiled at -O0 (println lines dropped: the
    /// compile-only pipeline does not know the stdlib globals); cache words after call opcodes skipped
    pub fn opcodes(file: &str) {
        use aelys_opt::OptimizationLevel;
        let text = std::fs::read_to_string(file).expect("read");
        let mut hist = [0u64; 256];
        let mut failed = 0u64;
        fn walk(f: &Function, hist: &mut [u64; 256]) {
            let bc = f.bytecode.as_slice();
            let mut i = 0;
            while i < bc.len() {
                let op = (bc[i] >> 24) as u8;
                hist[op as usize] += 1;
                i += if matches!(op, 77..=81 | 104) { 3 } else { 1 };
            }
            for n in &f.nested_functions { walk(n, hist); }
        }
        for p in text.split("\n=====\n") {
            let src: String = p.lines().filter(|l| !l.trim_start().starts_with("println(")).collect::<Vec<_>>().join("\n");
            let r = guarded(std::panic::AssertUnwindSafe(|| {
                aelys_driver::pipeline::compilation_pipeline_with_opt(OptimizationLevel::None).compile_str("<verif>", &src)
            }));
            match r {
                Ok(Ok((f, _heap))) => walk(&f, &mut hist),
                _ => failed += 1,
            }
        }
        println!("#failed {}", failed);
        for (op, n) in hist.iter().enumerate() {
            if *n > 0 {
                let known = op <= 121 || (130..=179).contains(&op);
                let name = if known { OpCode::from_u8(op as u8).map(|o| format!("{:?}", o)).unwrap_or_else(|| format!("op{}", op)) } else { format!("op{}", op) };
                println!("OPC\t{}\t{}", name, n);
            }
        }
    }

    pub fn run(file: &str) {
        let opts: Vec<u32> = arg("--opts").unwrap_or("0,1,2,3".into()).split(',').filter_map(|s| s.parse().ok()).collect();
        let budget = arg_u64("--budget", 300_000);
        let text = std::fs::read_to_string(file).expect("read");
        let handle = std::thread::Builder::new().stack_size(256 << 20).spawn(move || {
            let progs: Vec<&str> = text.split("\n=====\n").collect();
            for (i, p) in progs.iter().enumerate() {
                for &o in &opts {
                    aelys_bytecode::verif::mismatches_reset();
                    let r = run_program(p, o, (0, 0), budget, None);
                    let m = aelys_bytecode::verif::mismatches();
                    println!("{}\t{}\t{}\t{}\t{}\t{}\t{}", i, o, r.class, m, esc(&r.output), esc(&r.value), esc(&r.detail));
                }
            }
        }).unwrap();
        handle.join().unwrap();
    }
}

#[cfg(vbxq_aelys_lang_verif)]
fn main() {
    hxlib::quiet_panics();
    println!("#debug {}", cfg!(debug_assertions) as u8);
    if hxlib::flag("--select") {
        imp::select();
    } else if let Some(f) = hxlib::arg("--run") {
        imp::run(&f);
    } else if hxlib::flag("--arrayops") {
        imp::arrayops(hxlib::arg_u64("--seed", 0), hxlib::arg_u64("--count", 4000));
    } else if hxlib::flag("--arrays") {
        imp::arrays(hxlib::arg_u64("--seed", 0), hxlib::arg_u64("--count", 2000));
    } else if let Some(f) = hxlib::arg("--opcodes") {
        imp::opcodes(&f);
    } else {
        eprintln!("usage: hx_c06 --select | --run FILE [--opts 0,1,2,3] [--budget N]");
        std::process::exit(2);
    }
}
#[cfg(not(vbxq_aelys_lang_verif))]
fn main() { eprintln!("built without hooks"); std::process::exit(2); }
