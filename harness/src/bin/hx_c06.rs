//! C06 harness.
//!   --select            : contract tie of Model/OpcodeSelect.v: prints, for every operator x
//!                         left type x right type, `QSel <op> <l> <r>\t<O_Opcode>\t<probe>` where
//!                         <l>,<r> are Coq terms of type rtype and <probe> is what happens when the
//!                         selected opcode is executed on the real VM with operands (float 2.5, int 1)
//!                         for selections that involve an Uncertain/Dynamic operand:
//!                         `m=<unchecked-accessor mismatches> <W word|E kind|P>` (or `-` when not probed).
//!   --run FILE          : whole-pipeline runs.  FILE holds programs separated by lines `=====`;
//!                         each is run through hxlib::runner::run_program at --opts (default
//!                         0,1,2,3); one line per run:
//!                         `<idx>\t<opt>\t<class>\t<mismatches>\t<output>\t<value>\t<detail>` (escaped).
#[cfg(vbxq_aelys_lang_verif)]
mod imp {
    use aelys_backend::opcode_select::select_opcode;
    use aelys_bytecode::{Function, OpCode, Value};
    use aelys_runtime::VM;
    use aelys_sema::ResolvedType as RT;
    use aelys_syntax::Source;
    use aelys_syntax::ast::BinaryOp;
    use hxlib::runner::*;
    use hxlib::*;

    fn base_types() -> Vec<(RT, &'static str)> {
        vec![
            (RT::I8, "RI8"), (RT::I16, "RI16"), (RT::I32, "RI32"), (RT::I64, "RI64"),
            (RT::U8, "RU8"), (RT::U16, "RU16"), (RT::U32, "RU32"), (RT::U64, "RU64"),
            (RT::F32, "RF32"), (RT::F64, "RF64"), (RT::Bool, "RBool"), (RT::String, "RString"), (RT::Null, "RNull"),
            (RT::Range, "ROther"), (RT::Array(Box::new(RT::I64)), "ROther"), (RT::Vec(Box::new(RT::F64)), "ROther"),
            (RT::Function { params: vec![RT::I64], ret: Box::new(RT::I64) }, "ROther"),
            (RT::Struct("S".into()), "ROther"), (RT::Tuple(vec![RT::I64, RT::F64]), "ROther"),
            (RT::Dynamic, "RDynamic"),
        ]
    }

    fn probe(op: OpCode) -> String {
        aelys_bytecode::verif::mismatches_reset();
        let r = guarded(std::panic::AssertUnwindSafe(|| {
            let mut vm = VM::new(Source::new("<sel>", "")).map_err(|e| kind_name(&e.kind).to_string())?;
            let mut f = Function::new(Some("t".into()), 0);
            f.num_registers = 4;
            f.constants.push(Value::float(2.5));
            f.constants.push(Value::int(1));
            f.emit_b(OpCode::LoadK, 0, 0, 1);
            f.emit_b(OpCode::LoadK, 1, 1, 1);
            f.emit_a(op, 2, 0, 1, 1);
            f.emit_a(OpCode::Return, 2, 0, 0, 1);
            f.finalize_bytecode();
            let fr = vm.alloc_function(f).map_err(|e| kind_name(&e.kind).to_string())?;
            vm.execute(fr).map(|v| v.raw_bits()).map_err(|e| kind_name(&e.kind).to_string())
        }));
        let m = aelys_bytecode::verif::mismatches();
        match r {
            Ok(Ok(w)) => format!("m={} W {}", m, w),
            Ok(Err(k)) => format!("m={} E {}", m, k),
            Err(_) => format!("m={} P", m),
        }
    }

    pub fn select() {
        let ops = [
            (BinaryOp::Add, "OpAdd"), (BinaryOp::Sub, "OpSub"), (BinaryOp::Mul, "OpMul"), (BinaryOp::Div, "OpDiv"), (BinaryOp::Mod, "OpMod"),
            (BinaryOp::Eq, "OpEq"), (BinaryOp::Ne, "OpNe"), (BinaryOp::Lt, "OpLt"), (BinaryOp::Le, "OpLe"), (BinaryOp::Gt, "OpGt"), (BinaryOp::Ge, "OpGe"),
            (BinaryOp::Shl, "OpShl"), (BinaryOp::Shr, "OpShr"), (BinaryOp::BitAnd, "OpBitAnd"), (BinaryOp::BitOr, "OpBitOr"), (BinaryOp::BitXor, "OpBitXor"),
        ];
        let mut tys: Vec<(RT, String, bool)> = Vec::new();     // (type, Coq term, uncertain-or-dynamic)
        for (t, n) in base_types() {
            let unc = matches!(t, RT::Dynamic);
            tys.push((t.clone(), n.to_string(), unc));
            tys.push((RT::Uncertain(Box::new(t.clone())), format!("(RUncertain {})", n), true));
        }
        tys.push((RT::Uncertain(Box::new(RT::Uncertain(Box::new(RT::I64)))), "(RUncertain (RUncertain RI64))".into(), true));
        tys.push((RT::Uncertain(Box::new(RT::Uncertain(Box::new(RT::F64)))), "(RUncertain (RUncertain RF64))".into(), true));
        let mut probed: std::collections::HashMap<u8, String> = std::collections::HashMap::new();
        for (op, on) in &ops {
            for (l, ln, lu) in &tys {
                for (r, rn, ru) in &tys {
                    let sel = select_opcode(*op, l, r);
                    let pr = if *lu || *ru {
                        probed.entry(sel as u8).or_insert_with(|| probe(sel)).clone()
                    } else { "-".to_string() };
                    println!("QSel {} {} {}\tO_{:?}\t{}", on, ln, rn, sel, pr);
                }
            }
        }
    }

    /// static opcode histogram of the programs in FILE compiled at -O0 (println lines dropped: the
    /// compile-only pipeline does not know the stdlib globals); cache words after call opcodes skipped
    pub fn opcodes(file: &str) {
        use aelys_opt::OptimizationLevel;
        let text = std::fs::read_to_string(file).expect("read");
        let mut hist = [0u64; 256];
        let mut failed = 0u64;
        fn walk(f: &Function, hist: &mut [u64; 256]) {
            let bc = f.bytecode.as_slice();
            let mut i = 0;
            while i < bc.len() {
                let op = (bc[i] >> 24) as u8;
                hist[op as usize] += 1;
                i += if matches!(op, 77..=81 | 104) { 3 } else { 1 };
            }
            for n in &f.nested_functions { walk(n, hist); }
        }
        for p in text.split("\n=====\n") {
            let src: String = p.lines().filter(|l| !l.trim_start().starts_with("println(")).collect::<Vec<_>>().join("\n");
            let r = guarded(std::panic::AssertUnwindSafe(|| {
                aelys_driver::pipeline::compilation_pipeline_with_opt(OptimizationLevel::None).compile_str("<verif>", &src)
            }));
            match r {
                Ok(Ok((f, _heap))) => walk(&f, &mut hist),
                _ => failed += 1,
            }
        }
        println!("#failed {}", failed);
        for (op, n) in hist.iter().enumerate() {
            if *n > 0 {
                let known = op <= 121 || (130..=179).contains(&op);
                let name = if known { OpCode::from_u8(op as u8).map(|o| format!("{:?}", o)).unwrap_or_else(|| format!("op{}", op)) } else { format!("op{}", op) };
                println!("OPC\t{}\t{}", name, n);
            }
        }
    }

    pub fn run(file: &str) {
        let opts: Vec<u32> = arg("--opts").unwrap_or("0,1,2,3".into()).split(',').filter_map(|s| s.parse().ok()).collect();
        let budget = arg_u64("--budget", 300_000);
        let text = std::fs::read_to_string(file).expect("read");
        let handle = std::thread::Builder::new().stack_size(256 << 20).spawn(move || {
            let progs: Vec<&str> = text.split("\n=====\n").collect();
            for (i, p) in progs.iter().enumerate() {
                for &o in &opts {
                    aelys_bytecode::verif::mismatches_reset();
                    let r = run_program(p, o, (0, 0), budget, None);
                    let m = aelys_bytecode::verif::mismatches();
                    println!("{}\t{}\t{}\t{}\t{}\t{}\t{}", i, o, r.class, m, esc(&r.output), esc(&r.value), esc(&r.detail));
                }
            }
        }).unwrap();
        handle.join().unwrap();
    }
}

#[cfg(vbxq_aelys_lang_verif)]
fn main() {
    hxlib::quiet_panics();
    println!("#debug {}", cfg!(debug_assertions) as u8);
    if hxlib::flag("--select") {
        imp::select();
    } else if let Some(f) = hxlib::arg("--run") {
        imp::run(&f);
    } else if let Some(f) = hxlib::arg("--opcodes") {
        imp::opcodes(&f);
    } else {
        eprintln!("usage: hx_c06 --select | --run FILE [--opts 0,1,2,3] [--budget N]");
        std::process::exit(2);
    }
}
#[cfg(not(vbxq_aelys_lang_verif))]
fn main() { eprintln!("built without hooks"); std::process::exit(2); }
