//! C01 kernel tie: the real ConstantFolder on single literal nodes.
//! Prints `<op> <a> <b>\t<result>` where result = I <n> | B <0/1> | S <escaped> | N (not folded).
//! Unary: `U<op> <a>`.
use aelys_opt::ConstantFolder;
use aelys_sema::{InferType, TypedExpr, TypedExprKind};
use aelys_syntax::{BinaryOp, Span, UnaryOp};
use hxlib::*;

fn lit(n: i64) -> TypedExpr { TypedExpr::new(TypedExprKind::Int(n), InferType::I64, Span::dummy()) }
fn blit(b: bool) -> TypedExpr { TypedExpr::new(TypedExprKind::Bool(b), InferType::Bool, Span::dummy()) }

fn show(e: &TypedExpr) -> String {
    match &e.kind {
        TypedExprKind::Int(n) => format!("I {}", n),
        TypedExprKind::Bool(b) => format!("B {}", *b as u8),
        TypedExprKind::String(s) => format!("S {}", runner::esc(s)),
        TypedExprKind::Float(f) => format!("F {}", f.to_bits()),
        _ => "N".to_string(),
    }
}

fn main() {
    quiet_panics();
    let seed = arg_u64("--seed", 0);
    let random = arg_u64("--random", 2000);
    let mut rng = Rng::new(seed);
    let ops = [("BAdd", BinaryOp::Add), ("BSub", BinaryOp::Sub), ("BMul", BinaryOp::Mul), ("BDiv", BinaryOp::Div),
        ("BMod", BinaryOp::Mod), ("BEq", BinaryOp::Eq), ("BNe", BinaryOp::Ne), ("BLt", BinaryOp::Lt), ("BLe", BinaryOp::Le),
        ("BGt", BinaryOp::Gt), ("BGe", BinaryOp::Ge), ("BShl", BinaryOp::Shl), ("BShr", BinaryOp::Shr),
        ("BBitAnd", BinaryOp::BitAnd), ("BBitOr", BinaryOp::BitOr), ("BBitXor", BinaryOp::BitXor)];
    let m47 = 1i64 << 47;
    let mut vals: Vec<i64> = vec![0, 1, -1, 2, -2, 3, 7, 10, 47, 48, 62, 63, 64, 65, -63, -64, 1 << 16, 1 << 24, 1 << 46, -(1 << 46),
        m47 - 1, m47 - 2, -m47, -m47 + 1, m47, -m47 - 1, 1 << 48, i64::MAX, i64::MIN, i64::MIN + 1, 12345678, -987654321];
    for _ in 0..16 { vals.push(rng.range_i64(-m47, m47 - 1)); }
    let mut pairs: Vec<(i64, i64)> = Vec::new();
    for &a in &vals { for &b in &vals { pairs.push((a, b)); } }
    for _ in 0..random {
        let a = match rng.below(3) { 0 => rng.range_i64(-m47, m47 - 1), 1 => rng.range_i64(-1000, 1000), _ => *rng.pick(&vals) };
        let b = match rng.below(3) { 0 => rng.range_i64(-m47, m47 - 1), 1 => rng.range_i64(-70, 70), _ => *rng.pick(&vals) };
        pairs.push((a, b));
    }
    for (name, op) in ops.iter() {
        for &(a, b) in &pairs {
            let mut e = TypedExpr::new(TypedExprKind::Binary { left: Box::new(lit(a)), op: *op, right: Box::new(lit(b)) }, InferType::I64, Span::dummy());
            let r = guarded(std::panic::AssertUnwindSafe(|| { ConstantFolder::new().optimize_expr(&mut e); show(&e) }));
            println!("{} {} {}\t{}", name, a, b, r.unwrap_or_else(|p| format!("PANIC {}", runner::esc(&p))));
        }
    }
    for &a in &vals {
        for (name, op) in [("UNeg", UnaryOp::Neg), ("UBitNot", UnaryOp::BitNot)] {
            let mut e = TypedExpr::new(TypedExprKind::Unary { op, operand: Box::new(lit(a)) }, InferType::I64, Span::dummy());
            let r = guarded(std::panic::AssertUnwindSafe(|| { ConstantFolder::new().optimize_expr(&mut e); show(&e) }));
            println!("{} {}\t{}", name, a, r.unwrap_or_else(|p| format!("PANIC {}", runner::esc(&p))));
        }
    }
    for a in [false, true] { for b in [false, true] {
        for (name, op) in [("BEq", BinaryOp::Eq), ("BNe", BinaryOp::Ne), ("BLt", BinaryOp::Lt)] {
            let mut e = TypedExpr::new(TypedExprKind::Binary { left: Box::new(blit(a)), op, right: Box::new(blit(b)) }, InferType::Bool, Span::dummy());
            ConstantFolder::new().optimize_expr(&mut e);
            println!("BOOL{} {} {}\t{}", name, a as u8, b as u8, show(&e));
        }
        let mut e = TypedExpr::new(TypedExprKind::And { left: Box::new(blit(a)), right: Box::new(blit(b)) }, InferType::Bool, Span::dummy());
        ConstantFolder::new().optimize_expr(&mut e);
        println!("AND {} {}\t{}", a as u8, b as u8, show(&e));
        let mut e = TypedExpr::new(TypedExprKind::Or { left: Box::new(blit(a)), right: Box::new(blit(b)) }, InferType::Bool, Span::dummy());
        ConstantFolder::new().optimize_expr(&mut e);
        println!("OR {} {}\t{}", a as u8, b as u8, show(&e));
        let mut e = TypedExpr::new(TypedExprKind::Unary { op: UnaryOp::Not, operand: Box::new(blit(a)) }, InferType::Bool, Span::dummy());
        ConstantFolder::new().optimize_expr(&mut e);
        println!("NOT {}\t{}", a as u8, show(&e));
    }}
    // strings around the 4096 limit
    for (la, lb) in [(0usize, 0usize), (1, 2), (4096, 0), (4095, 1), (4096, 1), (2048, 2049), (5000, 5)] {
        let sa = "a".repeat(la); let sb = "b".repeat(lb);
        let mut e = TypedExpr::new(TypedExprKind::Binary {
            left: Box::new(TypedExpr::new(TypedExprKind::String(sa), InferType::String, Span::dummy())), op: BinaryOp::Add,
            right: Box::new(TypedExpr::new(TypedExprKind::String(sb), InferType::String, Span::dummy())) }, InferType::String, Span::dummy());
        ConstantFolder::new().optimize_expr(&mut e);
        let r = match &e.kind { TypedExprKind::String(s) => format!("SLEN {}", s.len()), _ => "N".to_string() };
        println!("STR {} {}\t{}", la, lb, r);
    }
}
