//! C15 ties.
//!   --mode lex    contract: piece lists (token kinds, NL, Blank, LineComment, BlockComment) rendered
//!                 to text with random blank/indent/comment-text choices -> real Lexer token kinds.
//!                 `A\t<meta>\tQAsi [pieces]\t<kind names | ERR>`
//!   --mode lit    contract: integer literal texts (valid + malformed) -> value the real lexer gives
//!                 `L\t<meta>\tQLit [char codes]\t<value | -1>`
//!   --mode var    observational: generated programs, rendered canonically and re-laid-out by ONE
//!                 licensed transformation family each; both texts run through the real pipeline.
//!                 `V\t<id>\t<family>\t<flags>\t<opt>\t<base class>\t<variant class>\t<same 0/1>\t<esc base>\t<esc variant>\t<esc base out>\t<esc variant out>`
//!   --mode pairs --file F   corpus: `// name` then base program, `-----`, variant program; cases separated by `=====`
#[cfg(vbxq_aelys_lang_verif)]
mod imp {
    use aelys_frontend::lexer::Lexer;
    use aelys_syntax::TokenKind;
    use hxlib::runner::*;
    use hxlib::*;

    // ------------------------------------------------------------------------------ lexer contract
    pub const KINDS: [(&str, &[&str]); 67] = [
        ("Int", &["42", "0", "1_000", "0x1F", "0b101", "0o17"]), ("Float", &["1.5", "2e10", "0.25"]),
        ("String", &["\"s\"", "\"\"", "\"else\""]), ("FmtString", &["\"a{x}\"", "\"{}\""]),
        ("True", &["true"]), ("False", &["false"]), ("Null", &["null"]),
        ("Identifier", &["x", "foo1", "_a", "elsewhere", "else_", "elsex", "Else", "iff", "Vec"]),
        ("Let", &["let"]), ("Mut", &["mut"]), ("Fn", &["fn"]), ("If", &["if"]), ("Else", &["else"]), ("While", &["while"]),
        ("Return", &["return"]), ("Break", &["break"]), ("Continue", &["continue"]), ("And", &["and", "&&"]),
        ("Or", &["or", "||"]), ("Not", &["not"]), ("Pub", &["pub"]), ("Needs", &["needs"]), ("As", &["as"]),
        ("From", &["from"]), ("For", &["for"]), ("In", &["in"]), ("Step", &["step"]), ("Struct", &["struct"]),
        ("Plus", &["+"]), ("Minus", &["-"]), ("Star", &["*"]), ("Slash", &["/"]), ("Percent", &["%"]), ("Eq", &["="]),
        ("EqEq", &["=="]), ("BangEq", &["!="]), ("Lt", &["<"]), ("LtEq", &["<="]), ("Gt", &[">"]), ("GtEq", &[">="]),
        ("Arrow", &["->"]), ("Colon", &[":"]), ("PlusEq", &["+="]), ("MinusEq", &["-="]), ("StarEq", &["*="]),
        ("SlashEq", &["/="]), ("PercentEq", &["%="]), ("PlusPlus", &["++"]), ("MinusMinus", &["--"]),
        ("Shl", &["<<"]), ("Shr", &[">>"]), ("Ampersand", &["&"]), ("Pipe", &["|"]), ("Caret", &["^"]), ("Tilde", &["~"]),
        ("LParen", &["("]), ("RParen", &[")"]), ("LBrace", &["{"]), ("RBrace", &["}"]), ("LBracket", &["["]),
        ("RBracket", &["]"]), ("Comma", &[","]), ("Semicolon", &[";"]), ("Dot", &["."]), ("DotDot", &[".."]),
        ("DotDotEq", &["..="]), ("At", &["@"]),
    ];

    #[derive(Clone, Copy, PartialEq, Debug)]
    pub enum P { Tok(usize), NL, Blank, LineComment, BlockComment }

    fn delim(s: &str) -> bool { matches!(s, "(" | ")" | "[" | "]" | "{" | "}" | "," | ";") }
    fn wordlike(s: &str) -> bool {
        let c = s.chars().next().unwrap();
        c.is_alphanumeric() || c == '_' || c == '"'
    }
    /// may the two token texts be written without a separator?  (conservative: only next to a
    /// delimiter; never after a number when a '.' follows, never two operator texts)
    fn can_touch(a: &str, b: &str) -> bool {
        (delim(a) && (delim(b) || wordlike(b))) || (wordlike(a) && delim(b))
    }

    const COMMENT_WORDS: [&str; 12] = ["note", "else", "todo: fix", "x = 1;", "\"quote", "/* not a block", "*/", "{ }", "((", "é😀", "", "// again"];

    pub fn render(ps: &[P], r: &mut Rng) -> String {
        let mut o = String::new();
        let mut last_tok: Option<&str> = None;     // text of the previous token when nothing was written since
        let mut in_line_comment = false;
        for p in ps {
            match *p {
                P::NL => in_line_comment = false,
                P::LineComment => in_line_comment = true,
                _ => {}
            }
            match *p {
                P::Tok(k) => {
                    let t = *r.pick(KINDS[k].1);
                    if let Some(a) = last_tok {
                        if !can_touch(a, t) || r.chance(1, 3) { o.push(' '); }
                    }
                    o.push_str(t);
                    last_tok = Some(t);
                    continue;
                }
                P::NL => o.push('\n'),
                P::Blank => o.push(*r.pick(&[' ', ' ', '\t', '\r'])),
                P::LineComment => {
                    // a '/' directly after a '/' or '*' token text would change the token
                    if last_tok.is_some() { o.push(' '); }
                    o.push_str("//");
                    o.push_str(*r.pick(&COMMENT_WORDS[..]));
                }
                P::BlockComment => {
                    if last_tok.is_some() { o.push(' '); }
                    // inside a line comment a newline would end the comment: the piece stays on one line there
                    let k = if in_line_comment { r.below(4) } else { r.below(5) } as usize;
                    o.push_str(["/* c */", "/**/", "/* /* nested */ else */", "/* // */", "/* a\n b */"][k]);
                }
            }
            last_tok = None;
        }
        o
    }

    fn coq_pieces(ps: &[P]) -> String {
        let v: Vec<String> = ps.iter().map(|p| match p {
            P::Tok(k) => format!("Tok T{}", KINDS[*k].0), P::NL => "NL".into(), P::Blank => "Blank".into(),
            P::LineComment => "LineComment".into(), P::BlockComment => "BlockComment".into() }).collect();
        format!("[{}]", v.join("; "))
    }

    fn kind_name(k: &TokenKind) -> String {
        let d = format!("{:?}", k);
        d.split(|c: char| c == '(' || c == ' ' || c == '{').next().unwrap().to_string()
    }

    fn lex_names(text: &str) -> Option<Vec<String>> {
        let t = text.to_string();
        match guarded(std::panic::AssertUnwindSafe(move || Lexer::new(&t).scan())) {
            Ok(Ok(toks)) => Some(toks.iter().map(|t| kind_name(&t.kind)).collect()),
            _ => None,
        }
    }

    fn emit_lex(meta: &str, ps: &[P], r: &mut Rng) {
        // a line comment swallows the rest of the line in the text too: nothing to fix up, the
        // model does the same with the pieces
        let text = render(ps, r);
        let names = lex_names(&text);
        let obs = match &names { Some(v) => v.join(" "), None => "ERR".into() };
        // direct oracle on the real lexer (no model): the same pieces with extra blanks between
        // pieces and extra blank lines after newlines must give the same token kinds
        let mut alt: Vec<P> = Vec::new();
        for p in ps {
            if r.chance(1, 3) { alt.push(P::Blank); }
            alt.push(*p);
            if *p == P::NL { for _ in 0..r.below(3) { alt.push(if r.chance(1, 2) { P::NL } else { P::Blank }); } }
        }
        let alt_text = render(&alt, r);
        let same = lex_names(&alt_text) == names;
        println!("A\t{}\tQAsi {}\t{}\t{}\t{}\t{}", meta, coq_pieces(ps), obs, esc(&text), same as u8, if same { String::new() } else { esc(&alt_text) });
    }

    fn kidx(name: &str) -> usize { KINDS.iter().position(|k| k.0 == name).unwrap() }

    pub fn mode_lex(r: &mut Rng, n_random: usize, all_pairs: bool) {
        let nk = KINDS.len();
        let seps: Vec<Vec<P>> = vec![
            vec![P::NL], vec![P::NL, P::Blank], vec![P::NL, P::NL], vec![P::Blank, P::NL, P::Blank, P::NL, P::Blank],
            vec![P::LineComment, P::NL], vec![P::NL, P::LineComment, P::NL], vec![P::NL, P::Blank, P::LineComment, P::NL, P::Blank],
            vec![P::BlockComment], vec![P::BlockComment, P::NL], vec![P::NL, P::BlockComment], vec![],
            vec![P::Blank], vec![P::Tok(kidx("Semicolon"))], vec![P::Tok(kidx("Semicolon")), P::NL],
        ];
        let t = |n: &str| P::Tok(kidx(n));
        let ctxs: Vec<(Vec<P>, Vec<P>)> = vec![
            (vec![], vec![]),
            (vec![t("Identifier"), t("LParen")], vec![t("RParen")]),
            (vec![t("LBracket")], vec![t("RBracket")]),
            (vec![t("LBrace")], vec![t("RBrace")]),
            (vec![t("Identifier"), t("LParen"), t("Fn"), t("LParen"), t("RParen"), t("LBrace")], vec![t("RBrace"), t("RParen")]),
            (vec![t("RParen"), t("RParen")], vec![t("LParen")]),           // saturating depth
        ];
        // every ordered pair of token kinds across a separator, in a bracket context
        for a in 0..nk { for b in 0..nk {
            let combos: Vec<(usize, usize)> = if all_pairs {
                let mut v = Vec::new();
                for c in 0..ctxs.len() { for s in 0..seps.len() { v.push((c, s)); } }
                v
            } else {
                vec![(r.below(ctxs.len() as u64) as usize, r.below(seps.len() as u64) as usize), (0, r.below(7) as usize)]
            };
            for (c, s) in combos {
                let mut ps = ctxs[c].0.clone();
                ps.push(P::Tok(a));
                ps.extend(seps[s].iter().cloned());
                ps.push(P::Tok(b));
                ps.extend(ctxs[c].1.iter().cloned());
                emit_lex(&format!("pair:{}:{}:ctx{}:sep{}", KINDS[a].0, KINDS[b].0, c, s), &ps, r);
            }
        }}
        // the else-lookahead: every statement-ending kind, every mixture of blanks / newlines / comments, then `else`
        let enders: Vec<usize> = (0..nk).filter(|&k| ["Identifier", "Int", "Float", "String", "FmtString", "True", "False", "Null", "Break", "Continue",
            "Return", "RParen", "RBracket", "RBrace", "Star", "PlusPlus", "MinusMinus"].contains(&KINDS[k].0)).collect();
        let look: Vec<Vec<P>> = vec![
            vec![P::NL], vec![P::NL, P::Blank, P::NL], vec![P::NL, P::LineComment, P::NL], vec![P::LineComment, P::NL, P::Blank],
            vec![P::NL, P::BlockComment], vec![P::NL, P::BlockComment, P::NL], vec![P::BlockComment, P::NL, P::BlockComment, P::Blank],
            vec![P::NL, P::Blank, P::BlockComment, P::BlockComment, P::NL, P::LineComment, P::NL, P::Blank],
            vec![P::NL, P::LineComment, P::NL, P::LineComment, P::NL, P::BlockComment, P::Blank], vec![P::BlockComment],
            vec![P::NL, P::BlockComment, P::LineComment, P::NL], vec![P::Blank, P::NL, P::Blank, P::BlockComment, P::Blank, P::NL],
        ];
        for &a in &enders { for (li, l) in look.iter().enumerate() { for tail in ["Else", "Identifier", "LBrace"] {
            let mut ps = vec![P::Tok(a)];
            ps.extend(l.iter().cloned());
            ps.push(t(tail)); ps.push(P::Blank); ps.push(t("LBrace")); ps.push(t("RBrace"));
            emit_lex(&format!("look:{}:{}:{}", KINDS[a].0, li, tail), &ps, r);
        }}}
        // nested bracket structures: blocks inside ( / [ inside blocks ..., each level holding several statements
        // separated by a newline or by `;`, so that the saved / restored ( [ depth matters after every `}`
        fn nest(r: &mut Rng, depth: usize, ps: &mut Vec<P>, t: &dyn Fn(&str) -> P) {
            let n = r.range_i64(1, 4);
            for j in 0..n {
                if j > 0 { if r.chance(2, 3) { ps.push(P::NL); if r.chance(1, 3) { ps.push(P::Blank); } } else { ps.push(t("Semicolon")); ps.push(P::Blank); } }
                match if depth == 0 { 0 } else { r.below(6) } {
                    0 | 1 => { ps.push(t("Identifier")); if r.chance(1, 4) { ps.push(t("PlusPlus")); } }
                    2 => { ps.push(t("Identifier")); ps.push(t("LParen")); nest(r, depth - 1, ps, t); ps.push(t("RParen")); }
                    3 => { ps.push(t("LBracket")); nest(r, depth - 1, ps, t); ps.push(t("RBracket")); }
                    4 => { ps.push(t("If")); ps.push(P::Blank); ps.push(t("Identifier")); ps.push(P::Blank); ps.push(t("LBrace")); ps.push(P::NL);
                           nest(r, depth - 1, ps, t); ps.push(P::NL); ps.push(t("RBrace")); }
                    _ => { ps.push(t("Fn")); ps.push(t("LParen")); ps.push(t("Identifier")); ps.push(t("RParen")); ps.push(P::Blank); ps.push(t("LBrace"));
                           if r.chance(2, 3) { ps.push(P::NL); } nest(r, depth - 1, ps, t); if r.chance(2, 3) { ps.push(P::NL); } ps.push(t("RBrace")); }
                }
            }
        }
        for i in 0..(n_random / 3).max(200) {
            let mut ps: Vec<P> = Vec::new();
            // always at least: call( lambda { block { } NL stmt NL stmt } , arg )
            if i % 2 == 0 {
                ps.extend([t("Identifier"), t("LParen"), t("Fn"), t("LParen"), t("Identifier"), t("RParen"), P::Blank, t("LBrace"), P::NL]);
                nest(r, 2, &mut ps, &t);
                ps.extend([P::NL, t("If"), P::Blank, t("Identifier"), P::Blank, t("LBrace"), P::NL]);
                nest(r, 1, &mut ps, &t);
                ps.extend([P::NL, t("RBrace"), P::NL]);
                nest(r, 1, &mut ps, &t);
                ps.extend([P::NL, t("Return"), P::Blank, t("Identifier"), P::NL, t("RBrace"), t("Comma"), P::Blank, t("Int"), t("RParen")]);
            } else { nest(r, 4, &mut ps, &t); }
            emit_lex(&format!("nest:{}", i), &ps, r);
        }
        // statement-like templates joined by random separators
        let stmts: Vec<Vec<P>> = vec![
            vec![t("Let"), P::Blank, t("Identifier"), P::Blank, t("Eq"), P::Blank, t("Int")],
            vec![t("Identifier"), t("PlusPlus")],
            vec![t("Identifier"), t("LParen"), t("Identifier"), t("Comma"), P::NL, P::Blank, t("Int"), t("RParen")],
            vec![t("If"), P::Blank, t("Identifier"), P::Blank, t("LBrace"), P::NL, t("Identifier"), t("MinusMinus"), P::NL, t("RBrace"), P::NL, t("Else"), P::Blank, t("LBrace"), t("RBrace")],
            vec![t("If"), P::Blank, t("True"), P::Blank, t("LBrace"), t("RBrace"), P::NL, P::LineComment, P::NL, t("Else"), P::Blank, t("LBrace"), t("RBrace")],
            vec![t("Return"), P::Blank, t("Identifier"), P::Blank, t("Star"), P::NL, t("Int")],
            vec![t("Needs"), P::Blank, t("Identifier"), t("Dot"), t("Star")],
            vec![t("Identifier"), P::Blank, t("Eq"), P::Blank, t("LBracket"), t("Int"), t("Comma"), P::NL, t("Int"), P::NL, t("RBracket")],
            vec![t("Identifier"), t("LParen"), t("Fn"), t("LParen"), t("Identifier"), t("RParen"), P::Blank, t("LBrace"), P::NL, t("Identifier"), P::NL, t("Identifier"), P::NL, t("RBrace"), t("RParen")],
            vec![t("PlusPlus"), t("Identifier")],
            vec![t("Identifier"), P::Blank, t("Plus"), P::Blank, t("PlusPlus"), P::Blank, t("Identifier")],
            vec![t("Break")], vec![t("Continue")], vec![t("RBrace")], vec![t("String")], vec![t("FmtString")],
        ];
        for i in 0..n_random {
            let mut ps: Vec<P> = Vec::new();
            if i % 3 == 0 {
                // malformed stream: uniformly random pieces
                for _ in 0..r.range_i64(1, 14) {
                    ps.push(match r.below(10) { 0 | 1 => P::NL, 2 => P::Blank, 3 => P::LineComment, 4 => P::BlockComment, _ => P::Tok(r.below(nk as u64) as usize) });
                }
            } else {
                for _ in 0..r.range_i64(1, 5) {
                    ps.extend(r.pick(&stmts).iter().cloned());
                    ps.extend(r.pick(&seps).iter().cloned());
                    if r.chance(1, 4) { ps.push(P::Tok(r.below(nk as u64) as usize)); }
                }
            }
            emit_lex(&format!("rand:{}", i), &ps, r);
        }
    }

    // ------------------------------------------------------------------------------ literal contract
    pub fn spell_int(n: u64, r: &mut Rng, radix_choice: u64, underscores: bool) -> String {
        let (prefix, digits) = match radix_choice {
            0 => ("".to_string(), format!("{}", n)),
            1 => ((if r.chance(1, 4) { "0X" } else { "0x" }).to_string(), if r.chance(1, 2) { format!("{:x}", n) } else { format!("{:X}", n) }),
            2 => ((if r.chance(1, 4) { "0B" } else { "0b" }).to_string(), format!("{:b}", n)),
            _ => ((if r.chance(1, 4) { "0O" } else { "0o" }).to_string(), format!("{:o}", n)),
        };
        let mut o = prefix.clone();
        for (i, c) in digits.chars().enumerate() {
            // decimal: never before the first digit (the literal must start with a digit)
            if underscores && (i > 0 || !prefix.is_empty()) && r.chance(1, 3) { o.push('_'); if r.chance(1, 5) { o.push('_'); } }
            o.push(c);
        }
        if underscores && r.chance(1, 4) { o.push('_'); }
        o
    }

    fn lit_value(text: &str) -> i128 {
        let t = text.to_string();
        match guarded(std::panic::AssertUnwindSafe(move || Lexer::new(&t).scan())) {
            Ok(Ok(toks)) => {
                if toks.len() == 3 && matches!(toks[1].kind, TokenKind::Semicolon) && matches!(toks[2].kind, TokenKind::Eof) {
                    if let TokenKind::Int(n) = toks[0].kind { return n as i128; }
                }
                -1
            }
            _ => -1,
        }
    }

    pub fn mode_lit(r: &mut Rng, n: usize) {
        let emit = |tag: &str, text: &str| {
            let codes: Vec<String> = text.chars().map(|c| (c as u32).to_string()).collect();
            println!("L\t{}\tQLit [{}]\t{}\t{}", tag, codes.join("; "), lit_value(text), text);
        };
        for t in ["0", "7", "00", "007", "0x", "0X", "0b", "0o", "0x_", "0b_", "0_", "0__1", "1_", "1__0", "0_x1", "0x1g", "0b12", "0o8", "08",
                  "1e5", "1.5", "1.", "0xFF", "0Xff", "0xfF_", "0b1111_0000", "0o755", "0O7_5_5", "9223372036854775807", "9223372036854775808",
                  "0x7FFFFFFFFFFFFFFF", "0x8000000000000000", "0b111111111111111111111111111111111111111111111111111111111111111",
                  "0o777777777777777777777", "0o1000000000000000000000", "18446744073709551616", "0x1_0000_0000_0000_0000", "1_000_000",
                  "0xdead_BEEF", "0B1", "0b", "12ab", "0xg", "1x", "0x1.5", "140737488355327", "140737488355328", "0xe", "0b1e1", "1_e"] {
            emit("fixed", t);
        }
        for i in 0..n {
            let v: u64 = match r.below(8) {
                0 => r.below(16), 1 => r.below(1 << 16), 2 => r.next_u64() >> 17, 3 => r.next_u64() >> 1,
                4 => (1u64 << r.below(63)) - r.below(2), 5 => i64::MAX as u64 - r.below(3), 6 => (1u64 << 47) - 2 + r.below(4), _ => r.next_u64() >> r.below(64),
            };
            let v = v.min(i64::MAX as u64);
            let radix = r.below(4);
            let us = r.chance(2, 3);
            let mut text = spell_int(v, r, radix, us);
            let tag = if i % 5 == 4 {
                // malformed: damage the text
                let mut cs: Vec<char> = text.chars().collect();
                let pos = r.below(cs.len() as u64 + 1) as usize;
                match r.below(4) {
                    0 => cs.insert(pos, *r.pick(&['g', 'x', '9', '8', '2', '.', 'e', 'b'])),
                    1 => if !cs.is_empty() { cs.remove(pos.min(cs.len() - 1)); },
                    2 => cs.insert(0, '_'),
                    _ => cs.extend("99999999999999999999".chars()),
                }
                text = cs.into_iter().collect();
                "damaged"
            } else { "valid" };
            if !text.is_empty() { emit(tag, &text); }
        }
    }

    // ------------------------------------------------------------------------------ program variants
    #[derive(Clone, Debug)]
    pub enum E {
        Int(u64), Bool(bool), Str(&'static str), Var(String), Bin(Box<E>, &'static str, Box<E>), Neg(Box<E>), Not(Box<E>),
        Call(String, Vec<E>), Index(Box<E>, Box<E>), VecLit(&'static str, Vec<E>), Method(Box<E>, &'static str, Vec<E>),
        Lambda(Vec<String>, Vec<S>),
        /// `fn(p) e` (expression body, no braces)
        LambdaExpr(Vec<String>, Box<E>),
        /// if-EXPRESSION: each branch is a value block `{ e }`; bool = `else` on its own line
        IfExpr(Box<E>, Box<E>, Box<E>, bool, bool, bool),   // value blocks on several lines; a statement before the value (rejected by the parser)
        BitNot(Box<E>),
    }
    #[derive(Clone, Debug)]
    pub enum S {
        Let(bool, String, E), Assign(String, &'static str, E), Inc(String, bool), Print(bool, E),
        If(E, Vec<S>, Option<Vec<S>>, bool), While(E, Vec<S>), For(String, E, E, Vec<S>), Fn(String, Vec<String>, Vec<S>),
        Return(Option<E>), Break, Continue, Expr(E),
        /// `let v: i32 = 5` / `= -5`: an integer literal under a sized-integer annotation
        LetTyped(String, &'static str, E),
        /// an (unused) struct declaration; bool = the field list is written on several lines
        StructDecl(String, usize, bool),
    }

    pub struct Gen<'a> { r: &'a mut Rng, fresh: usize, ints: Vec<String>, muts: Vec<String>, vecs: Vec<String>, fns: Vec<(String, usize)>, lams: Vec<String>, depth: usize, in_loop: bool, in_fn: bool, in_lambda: bool, in_while: bool, pushable: Vec<String> }

    impl<'a> Gen<'a> {
        fn name(&mut self, p: &str) -> String { self.fresh += 1; format!("{}{}", p, self.fresh) }
        fn int_expr(&mut self, d: usize) -> E {
            let c = if d == 0 { self.r.below(3) } else if self.in_lambda { self.r.below(7) } else { self.r.below(14) };
            match c {
                0 => E::Int(match self.r.below(5) { 0 => self.r.below(10), 1 => self.r.below(1000), 2 => self.r.below(1 << 20), 3 => 0, _ => self.r.below(100000) }),
                1 | 2 => if self.ints.is_empty() { E::Int(self.r.below(50)) } else { E::Var(self.r.pick(&self.ints).clone()) },
                3 | 4 | 5 => {
                    let op = *self.r.pick(&["+", "-", "*", "/", "%", "+", "-", "&", "|", "^", "<<"]);
                    let b = if op == "<<" { E::Int(self.r.below(8)) } else { self.int_expr(d - 1) };
                    E::Bin(Box::new(self.int_expr(d - 1)), op, Box::new(b))
                }
                6 => E::Neg(Box::new(self.int_expr(d - 1))),
                7 => if self.fns.is_empty() { self.int_expr(d - 1) } else {
                    let (f, n) = self.r.pick(&self.fns).clone();
                    E::Call(f, (0..n).map(|_| self.int_expr(d - 1)).collect())
                },
                8 => if self.vecs.is_empty() { self.int_expr(d - 1) } else {
                    let v = self.r.pick(&self.vecs).clone();
                    if self.r.chance(1, 2) { E::Method(Box::new(E::Var(v)), "len", vec![]) }
                    else { E::Index(Box::new(E::Var(v)), Box::new(E::Int(self.r.below(3)))) }
                },
                9 => if self.lams.is_empty() { self.int_expr(d - 1) } else {
                    let l = self.r.pick(&self.lams).clone();
                    E::Call(l, vec![self.int_expr(d - 1)])
                },
                10 => E::Call("apply1".into(), vec![self.lambda(true), self.int_expr(d - 1)]),
                // inside functions the parameters have no static type and `~` / if-expressions over them hit
                // sema typing limits that are not layout matters: these two forms stay at script level
                11 | 12 => if self.in_fn { self.int_expr(d - 1) } else { self.if_expr(d - 1) },
                _ => if self.in_fn { self.int_expr(d - 1) } else { E::BitNot(Box::new(self.int_expr(0))) },
            }
        }
        /// `if c { e } else { e }` used as a value (value blocks hold a tail value only: the parser drops
        /// leading statements of a value block, which is not a layout matter)
        fn if_expr(&mut self, d: usize) -> E {
            let c = self.cond();
            // tail values may start with any prefix operator, `~` included (KF-C15-3 was repaired)
            let a = if self.r.chance(1, 8) { E::BitNot(Box::new(self.int_expr(0))) } else { self.int_expr(d) };
            let b = self.int_expr(d);
            E::IfExpr(Box::new(c), Box::new(a), Box::new(b), self.r.chance(1, 4), self.r.chance(1, 3), self.r.chance(1, 60))
        }
        fn lambda(&mut self, in_parens: bool) -> E {
            let p = self.name("p");
            let saved = (self.ints.clone(), self.muts.clone(), self.in_loop, self.in_fn);
            self.ints = vec![p.clone()];
            self.in_loop = false; self.in_fn = true; self.in_lambda = true;
            let mut body = Vec::new();
                        if self.r.chance(2, 5) {
                let t = self.name("t");
                body.push(S::Let(false, t.clone(), self.int_expr(1)));
                self.ints.push(t);
            }
            // a block nested in the lambda's block, followed by more statements (the lambda may sit inside ( or [)
            if self.r.chance(1, 3) {
                let c = self.cond();
                let t2 = self.name("t");
                let inner = vec![S::Let(false, self.name("t"), self.int_expr(1))];
                body.push(S::If(c, inner, if self.r.chance(1, 2) { Some(vec![S::Let(false, self.name("t"), self.int_expr(0))]) } else { None }, self.r.chance(1, 3)));
                body.push(S::Let(false, t2.clone(), self.int_expr(1)));
                self.ints.push(t2);
                let t3 = self.name("t");
                body.push(S::Let(false, t3.clone(), self.int_expr(1)));
                self.ints.push(t3);
            }
            let form = self.r.below(4);
            if form == 0 && body.is_empty() {
                // expression body without braces
                let e = self.int_expr(1);
                self.ints = saved.0; self.muts = saved.1; self.in_loop = saved.2; self.in_fn = saved.3; self.in_lambda = false;
                return E::LambdaExpr(vec![p], Box::new(e));
            }
            if form == 1 { body.push(S::Expr(self.int_expr(1))); }      // tail value, no `return`
            else { body.push(S::Return(Some(self.int_expr(1)))); }
            self.ints = saved.0; self.muts = saved.1; self.in_loop = saved.2; self.in_fn = saved.3; self.in_lambda = false;
            E::Lambda(vec![p], body)
        }
        fn cond(&mut self) -> E {
            let c = E::Bin(Box::new(self.int_expr(1)), *self.r.pick(&["<", "<=", ">", ">=", "==", "!="]), Box::new(self.int_expr(1)));
            match self.r.below(5) {
                0 => E::Bin(Box::new(c), *self.r.pick(&["and", "or"]), Box::new(self.cond_leaf())),
                1 => E::Not(Box::new(c)),
                _ => c,
            }
        }
        fn cond_leaf(&mut self) -> E {
            if self.r.chance(1, 4) { E::Bool(self.r.chance(1, 2)) }
            else { E::Bin(Box::new(self.int_expr(1)), *self.r.pick(&["<", ">", "==", "!="]), Box::new(self.int_expr(0))) }
        }
        fn block(&mut self, n: usize) -> Vec<S> {
            let saved = (self.ints.clone(), self.muts.clone(), self.vecs.clone(), self.lams.clone());
            self.depth += 1;
            let mut v = Vec::new();
            for _ in 0..n { v.push(self.stmt()); }
            self.depth -= 1;
            self.ints = saved.0; self.muts = saved.1; self.vecs = saved.2; self.lams = saved.3;
            v
        }
        fn stmt(&mut self) -> S {
            let top = self.depth == 0;
            loop {
                match self.r.below(21) {
                    0 | 1 => { let m = self.r.chance(1, 2); let x = self.name("v");
                               let e = if self.r.chance(1, 4) && !self.in_fn { self.if_expr(1) } else { self.int_expr(2) };
                               self.ints.push(x.clone()); if m { self.muts.push(x.clone()); } return S::Let(m, x, e); }
                    2 => if !self.muts.is_empty() { let x = self.r.pick(&self.muts).clone();
                               return S::Assign(x, *self.r.pick(&["=", "+=", "-=", "*="]), self.int_expr(2)); },
                    3 => if !self.muts.is_empty() { let x = self.r.pick(&self.muts).clone(); return S::Inc(x, self.r.chance(2, 3)); },
                    4 | 5 | 6 => { let e = if self.r.chance(1, 6) { E::Str(*self.r.pick(&["hi", "a b", "x;y", "// no"])) } else { self.int_expr(2) };
                               return S::Print(self.r.chance(2, 3), e); }
                    7 | 8 => if self.depth < 3 { let c = self.cond(); let n1 = self.r.range_i64(0, 2) as usize; let a = self.block(n1);
                               let b = if self.r.chance(3, 5) { let n2 = self.r.range_i64(0, 2) as usize; Some(self.block(n2)) } else { None };
                               return S::If(c, a, b, self.r.chance(1, 2)); },
                    9 => if self.depth < 2 { let i = self.name("w"); // bounded while
                               let saved = (self.in_loop, self.in_while); self.in_loop = true; self.in_while = true;
                               self.ints.push(i.clone());
                               let nb = self.r.range_i64(0, 2) as usize;
                               let mut body = self.block(nb);
                               body.push(S::Inc(i.clone(), true));
                               self.in_loop = saved.0; self.in_while = saved.1;
                               self.ints.pop();
                               // the counter declaration travels with the loop as a Let followed by While: emit as an If-true block to keep one statement
                               return S::If(E::Bool(true), vec![S::Let(true, i.clone(), E::Int(0)),
                                   S::While(E::Bin(Box::new(E::Var(i)), "<", Box::new(E::Int(self.r.below(4)))), body)], None, false); },
                    10 => if self.depth < 2 { let i = self.name("i"); let saved = self.in_loop; let savedw = self.in_while; self.in_loop = true; self.in_while = false;
                               self.ints.push(i.clone());
                               let nb = self.r.range_i64(1, 2) as usize;
                               let body = self.block(nb);
                               self.ints.pop(); self.in_loop = saved; self.in_while = savedw;
                               return S::For(i, E::Int(self.r.below(3)), E::Int(self.r.below(5)), body); },
                    11 => if top && self.fns.len() < 3 { let f = self.name("f"); let np = self.r.range_i64(1, 2) as usize;
                               let ps: Vec<String> = (0..np).map(|_| self.name("a")).collect();
                               let saved = (self.ints.clone(), self.muts.clone(), self.vecs.clone(), self.lams.clone(), self.in_loop, self.in_fn);
                               self.ints = ps.clone(); self.muts.clear(); self.vecs.clear(); self.lams.clear(); self.in_loop = false; self.in_fn = true;
                               self.depth += 1;
                               let mut body: Vec<S> = (0..self.r.range_i64(0, 3)).map(|_| self.stmt()).collect();
                               if self.r.chance(2, 3) { body.insert(0, S::Print(true, E::Var(ps[0].clone()))); }
                               body.push(S::Return(Some(self.int_expr(2))));
                               self.depth -= 1;
                               self.ints = saved.0; self.muts = saved.1; self.vecs = saved.2; self.lams = saved.3; self.in_loop = saved.4; self.in_fn = saved.5;
                               self.fns.push((f.clone(), np));
                               return S::Fn(f, ps, body); },
                    12 => { let v = self.name("c"); let n = self.r.range_i64(3, 5) as usize;
                               let kind = *self.r.pick(&["Vec", "Array"]);
                               let e = E::VecLit(kind, (0..n).map(|_| self.int_expr(1)).collect());
                               self.vecs.push(v.clone()); if kind == "Vec" { self.pushable.push(v.clone()); } return S::Let(false, v, e); }
                    13 => { let l = self.name("g"); let e = self.lambda(false); self.lams.push(l.clone()); return S::Let(false, l, e); }
                    14 => if self.in_loop && self.r.chance(1, 2) { return S::If(self.cond(), vec![if self.in_while || self.r.chance(1, 2) { S::Break } else { S::Continue }], None, false); }
                          else if self.in_fn && !top { return S::If(self.cond(), vec![S::Return(Some(self.int_expr(1)))], None, false); },
                    15 => { let cands: Vec<String> = self.pushable.iter().filter(|v| self.vecs.contains(v)).cloned().collect();
                            if !cands.is_empty() { let v = self.r.pick(&cands).clone();
                               return S::Expr(E::Method(Box::new(E::Var(v)), "push", vec![self.int_expr(1)])); } },
                    17 => { let x = self.name("v");
                            let (ty, max) = *self.r.pick(&[("i8", 127u64), ("i16", 32767), ("i32", 2147483647), ("i64", 1 << 40), ("int", 1 << 40)]);
                            let n = E::Int(self.r.below(max.min(100000)) );
                            let e = if self.r.chance(1, 3) { E::Neg(Box::new(n)) } else { n };
                            self.ints.push(x.clone());
                            return S::LetTyped(x, ty, e); }
                    18 => if top { let nme = format!("Rec{}", { self.fresh += 1; self.fresh }); return S::StructDecl(nme, self.r.range_i64(1, 3) as usize, self.r.chance(1, 2)); },
                    19 => if self.r.chance(1, 2) { return S::Print(true, E::Neg(Box::new(E::Int(1 << 47)))); },   // the most negative 48-bit literal
                    16 => if !self.fns.is_empty() && !self.in_lambda { let (f, n) = self.r.pick(&self.fns).clone();
                               // a variable that is never read, initialised by a call (the callee may print)
                               let u = self.name("unused");
                               return S::Let(false, u, E::Call(f, (0..n).map(|_| self.int_expr(1)).collect())); },
                    _ => if !self.fns.is_empty() { let (f, n) = self.r.pick(&self.fns).clone();
                               return S::Expr(E::Call(f, (0..n).map(|_| self.int_expr(1)).collect())); },
                }
            }
        }
        pub fn program(r: &'a mut Rng) -> Vec<S> {
            let mut g = Gen { r, fresh: 0, ints: vec![], muts: vec![], vecs: vec![], fns: vec![], lams: vec![], depth: 0, in_loop: false, in_fn: false, in_lambda: false, in_while: false, pushable: vec![] };
            let mut v = vec![S::Fn("apply1".into(), vec!["fz".into(), "az".into()], vec![S::Return(Some(E::Call("fz".into(), vec![E::Var("az".into())])))])];
            let n = g.r.range_i64(4, 10);
            for _ in 0..n { v.push(g.stmt()); }
            // operands with a side effect on a variable the other operand reads, in both orders, inside functions:
            // a closure assigning a captured local, and a function assigning a global
            for _ in 0..g.r.below(3) {
                let k = { g.fresh += 1; g.fresh };
                let (fname, x, bump, r1, r2) = (format!("sfx{k}"), format!("loc{k}"), format!("bump{k}"), format!("ra{k}"), format!("rb{k}"));
                let op1 = *g.r.pick(&["+", "-", "*"]);
                let op2 = *g.r.pick(&["+", "-", "*"]);
                let call = E::Call(bump.clone(), vec![]);
                let bump_body = vec![S::Assign(x.clone(), *g.r.pick(&["=", "+=", "*="]), E::Bin(Box::new(E::Var(x.clone())), "+", Box::new(E::Int(g.r.below(20) + 1)))),
                                     S::Return(Some(E::Int(100 + g.r.below(50))))];
                let mut body = vec![S::Let(true, x.clone(), E::Int(g.r.below(9) + 1)),
                                    S::Let(false, bump.clone(), E::Lambda(vec![], bump_body)),
                                    S::Let(false, r1.clone(), E::Bin(Box::new(E::Var(x.clone())), op1, Box::new(call.clone()))),
                                    S::Print(true, E::Var(r1)), S::Print(true, E::Var(x.clone())),
                                    S::Let(false, r2.clone(), E::Bin(Box::new(call.clone()), op2, Box::new(E::Var(x.clone())))),
                                    S::Print(true, E::Var(r2)), S::Print(true, E::Var(x.clone()))];
                if g.r.chance(1, 2) { body.push(S::Print(true, E::Bin(Box::new(E::Var(x.clone())), "+", Box::new(E::Bin(Box::new(call.clone()), "*", Box::new(E::Var(x.clone()))))))); }
                body.push(S::Return(Some(E::Var(x.clone()))));
                v.push(S::Fn(fname.clone(), vec![], body));
                v.push(S::Print(true, E::Call(fname, vec![])));
                // the global variant
                let (gv, setg, useg) = (format!("glob{k}"), format!("setg{k}"), format!("useg{k}"));
                v.push(S::Let(true, gv.clone(), E::Int(g.r.below(9) + 1)));
                v.push(S::Fn(setg.clone(), vec![], vec![S::Assign(gv.clone(), "=", E::Bin(Box::new(E::Var(gv.clone())), "+", Box::new(E::Int(10)))), S::Return(Some(E::Int(100)))]));
                let scall = E::Call(setg.clone(), vec![]);
                v.push(S::Fn(useg.clone(), vec![], vec![
                    S::Print(true, E::Bin(Box::new(E::Var(gv.clone())), op1, Box::new(scall.clone()))),
                    S::Print(true, E::Bin(Box::new(scall.clone()), op2, Box::new(E::Var(gv.clone())))),
                    S::Return(Some(E::Var(gv.clone())))]));
                v.push(S::Print(true, E::Call(useg, vec![])));
                v.push(S::Print(true, E::Bin(Box::new(E::Var(gv.clone())), op2, Box::new(scall))));
            }
            // make the final state observable
            for x in g.ints.clone() { v.push(S::Print(true, E::Var(x))); }
            v
        }
    }

    #[derive(Clone, Copy, PartialEq, Debug)]
    pub enum Fam { Base, Semi, Blank, Indent, Comment, Parens, Literal, Breaks, Reflow }
    pub const FAMS: [Fam; 8] = [Fam::Semi, Fam::Blank, Fam::Indent, Fam::Comment, Fam::Parens, Fam::Literal, Fam::Breaks, Fam::Reflow];

    /// Every syntactic position in which a family can apply its transformation (the generator must
    /// reach each of them; the counts go into the evidence).
    pub const POSITIONS: [&str; 65] = [
        "Parens:typed-let-init", "Reflow:struct-decl",
        "Breaks:before-comma", "Breaks:before-call-rparen", "Breaks:before-veclit-rbracket", "Breaks:before-method-rparen", "Breaks:before-print-rparen",
        "Semi:value-block-tail", "Reflow:value-block", "Reflow:stmt-block",
        "Comment:trailing:value-block-before-close", "Comment:own-line:value-block-before-close", "Blank:value-block-before-close",
        "Parens:let-init", "Parens:assign-rhs", "Parens:print-arg", "Parens:call-arg", "Parens:method-arg", "Parens:vec-elem",
        "Parens:operand", "Parens:if-cond", "Parens:while-cond", "Parens:return-value", "Parens:index-expr", "Parens:ifexpr-cond",
        "Parens:ifexpr-tail", "Parens:lambda-expr-body", "Parens:lambda-tail", "Parens:range-bound", "Parens:stmt-expr",
        "Parens:receiver", "Parens:index-base",
        "Semi:top-level", "Semi:fn-body", "Semi:if-block", "Semi:else-block", "Semi:while-body", "Semi:for-body", "Semi:lambda-body",
        "Breaks:after-call-lparen", "Breaks:after-call-comma", "Breaks:after-print-lparen", "Breaks:after-method-lparen",
        "Breaks:after-veclit-lbracket", "Breaks:after-veclit-comma",
        "Comment:trailing:between-stmts", "Comment:trailing:after-open-brace", "Comment:trailing:before-close-brace",
        "Comment:trailing:before-own-line-else", "Comment:trailing:end-of-program",
        "Comment:own-line:between-stmts", "Comment:own-line:after-open-brace", "Comment:own-line:before-close-brace",
        "Comment:own-line:before-own-line-else", "Comment:own-line:end-of-program",
        "Blank:between-stmts", "Blank:after-open-brace", "Blank:before-close-brace", "Blank:before-own-line-else", "Blank:end-of-program",
        "Indent:line-start", "Indent:between-tokens",
        "Literal:statement-level", "Literal:inside-parens-or-brackets", "Literal:range-bound",
    ];

    pub struct Pr<'a> {
        pub o: String, fam: Fam, r: &'a mut Rng, ind: usize, paren: usize,
        /// flags: comment line placed directly before an `else` line; statement separators written inside ( or [;
        /// value-block tails whose text starts with `~` (open finding KF-C15-3)
        pub comment_before_else: bool, pub sep_inside_parens: usize, pub applied: usize, pub tilde_tail: usize,
        pub pos: std::collections::BTreeMap<String, usize>, kinds: Vec<&'static str>, in_range: bool,
        /// redundant parentheses written inside a sized-int-annotated let / directly around the literal 2^47 under a minus; struct declarations written on several lines
        pub typed_paren: usize, pub minbound_paren: usize, pub struct_ml: usize, in_typed: bool, in_minbound: bool,
        /// sized-int variables declared (i8/i16/i32); integer literals wrapped in redundant parentheses anywhere
        pub sized_vars: usize, pub lit_paren: usize,
    }
    impl<'a> Pr<'a> {
        pub fn new(fam: Fam, r: &'a mut Rng) -> Self {
            Pr { o: String::new(), fam, r, ind: 0, paren: 0, comment_before_else: false, sep_inside_parens: 0, applied: 0, tilde_tail: 0,
                 pos: Default::default(), kinds: vec!["top-level"], in_range: false,
                 typed_paren: 0, minbound_paren: 0, struct_ml: 0, in_typed: false, in_minbound: false, sized_vars: 0, lit_paren: 0 }
        }
        fn note(&mut self, p: String) { self.applied += 1; *self.pos.entry(p).or_insert(0) += 1; }
        fn indent(&mut self) {
            if self.fam == Fam::Indent { self.note("Indent:line-start".into()); for _ in 0..self.r.below(9) { self.o.push(*self.r.pick(&[' ', ' ', '\t'])); } }
            else { for _ in 0..self.ind { self.o.push_str("    "); } }
        }
        fn sp(&mut self) {
            if self.fam == Fam::Indent { self.note("Indent:between-tokens".into()); for _ in 0..self.r.range_i64(1, 4) { self.o.push(*self.r.pick(&[' ', ' ', '\t'])); } }
            else { self.o.push(' '); }
        }
        fn comment_text(&mut self) -> String { format!("//{}", *self.r.pick(&COMMENT_WORDS[..])) }
        /// a line end at `site` (between-stmts, after-open-brace, before-close-brace, before-own-line-else, end-of-program)
        fn nl(&mut self, site: &'static str) {
            match self.fam {
                Fam::Blank => { let n = self.r.below(3);
                    if self.r.chance(1, 3) { self.o.push_str("  \t"); self.note(format!("Blank:{site}")); }
                    self.o.push('\n');
                    for _ in 0..n { self.note(format!("Blank:{site}")); if self.r.chance(1, 2) { self.o.push_str("   "); } self.o.push('\n'); } }
                Fam::Comment => {
                    if self.r.chance(1, 3) { self.note(format!("Comment:trailing:{site}")); self.o.push(' '); let c = self.comment_text(); self.o.push_str(&c); }
                    self.o.push('\n');
                    if self.r.chance(1, 4) { self.note(format!("Comment:own-line:{site}")); if site == "before-own-line-else" { self.comment_before_else = true; }
                        self.indent(); let c = self.comment_text(); self.o.push_str(&c); self.o.push('\n'); }
                }
                _ => self.o.push('\n'),
            }
        }
        /// between two statements of a block
        fn stmt_sep(&mut self) {
            if self.paren > 0 { self.sep_inside_parens += 1; }
            if self.fam == Fam::Semi {
                let k = *self.kinds.last().unwrap();
                self.note(format!("Semi:{k}"));
                match self.r.below(3) { 0 => { self.o.push_str("; "); return; } 1 => { self.o.push(';'); self.nl("between-stmts"); } _ => { self.o.push_str(" ;"); self.nl("between-stmts"); } }
            } else { self.nl("between-stmts"); }
            self.indent();
        }
        fn open(&mut self, t: &str, site: Option<&'static str>) {
            self.o.push_str(t); self.paren += 1;
            if let Some(site) = site { if self.fam == Fam::Breaks && self.r.chance(1, 2) {
                self.note(format!("Breaks:{site}")); self.o.push('\n'); self.ind += 2; self.indent(); self.ind -= 2; } }
        }
        fn close(&mut self, t: &str, site: Option<&'static str>) {
            // a line break after the last argument / element, before the closing bracket
            if let Some(site) = site { if self.fam == Fam::Breaks && self.r.chance(1, 3) {
                self.note(format!("Breaks:{site}")); self.o.push('\n'); self.indent(); } }
            self.paren -= 1; self.o.push_str(t);
        }
        fn comma(&mut self, site: &'static str) {
            // a line break before the comma (after an argument / element)
            if self.fam == Fam::Breaks && self.r.chance(1, 6) { self.note("Breaks:before-comma".into()); self.o.push('\n'); self.ind += 2; self.indent(); self.ind -= 2; }
            self.o.push(',');
            if self.fam == Fam::Breaks && self.r.chance(1, 2) { self.note(format!("Breaks:{site}")); self.o.push('\n'); self.ind += 2; self.indent(); self.ind -= 2; }
            else { self.sp(); }
        }
        fn int(&mut self, n: u64) {
            if self.fam == Fam::Literal {
                let w = if self.in_range { "range-bound" } else if self.paren > 0 { "inside-parens-or-brackets" } else { "statement-level" };
                self.note(format!("Literal:{w}"));
                let radix = self.r.below(4); let us = self.r.chance(1, 2);
                let s = spell_int(n, self.r, radix, us); self.o.push_str(&s); }
            else { self.o.push_str(&n.to_string()); }
        }
        /// r-value position `pos`: may be wrapped in redundant parentheses
        fn rv(&mut self, e: &E, pos: &'static str) {
            let wrap = self.fam == Fam::Parens && self.r.chance(1, 3);
            if wrap { if matches!(e, E::Int(_)) { self.lit_paren += 1; } if self.in_typed { self.typed_paren += 1; } if self.in_minbound { self.minbound_paren += 1; } self.note(format!("Parens:{pos}")); let n = 1 + self.r.below(2) as usize; for _ in 0..n { self.o.push('('); } self.paren += n;
                      self.expr(e); self.paren -= n; for _ in 0..n { self.o.push(')'); } }
            else { self.expr(e); }
        }
        fn operand(&mut self, e: &E) {
            // canonical text parenthesises nested binary/unary/if/lambda operands so that precedence never depends on layout
            match e { E::Bin(..) | E::Neg(..) | E::Not(..) | E::BitNot(..) | E::Lambda(..) | E::LambdaExpr(..) | E::IfExpr(..) => {
                          self.o.push('('); self.paren += 1; self.rv(e, "operand"); self.paren -= 1; self.o.push(')'); }
                      _ => self.rv(e, "operand") }
        }
        /// `{ e }` value block of an if-expression: one line, the value directly before `}`
        fn value_block(&mut self, e: &E, ml: bool, lead: bool) {
            self.o.push('{');
            if ml { self.ind += 1; self.nl("after-open-brace"); self.indent(); } else { self.sp(); }
            // a statement before the value: the parser rejects the whole text, in every layout
            if lead {
                self.o.push_str("let zq = 1");
                if self.fam == Fam::Semi { self.o.push_str("; "); } else { self.nl("between-stmts"); self.indent(); }
            }
            let before = self.o.len();
            self.rv(e, "ifexpr-tail");
            if self.o[before..].starts_with('~') { self.tilde_tail += 1; }
            // `e; }` / `e;` NEWLINE `}`: an explicit semicolon instead of nothing / the newline before `}`
            if self.fam == Fam::Semi && self.r.chance(1, 2) { self.note("Semi:value-block-tail".into()); self.o.push(';'); }
            if ml { self.ind -= 1; self.nl("value-block-before-close"); self.indent(); } else { self.sp(); }
            self.o.push('}');
        }
        fn expr(&mut self, e: &E) {
            match e {
                E::Int(n) => self.int(*n),
                E::Bool(b) => self.o.push_str(if *b { "true" } else { "false" }),
                E::Str(s) => { self.o.push('"'); self.o.push_str(s); self.o.push('"'); }
                E::Var(x) => self.o.push_str(x),
                E::Bin(a, op, b) => { self.operand(a); self.sp(); self.o.push_str(op); self.sp(); self.operand(b); }
                E::Neg(a) => { self.o.push('-'); let mb = matches!(**a, E::Int(n) if n == 1 << 47);
                    if mb { self.in_minbound = true; } self.operand(a); if mb { self.in_minbound = false; } }
                E::BitNot(a) => { self.o.push('~'); self.operand(a); }
                E::Not(a) => { self.o.push_str("not "); self.operand(a); }
                E::Call(f, args) => { self.o.push_str(f); self.open("(", Some("after-call-lparen"));
                    for (i, a) in args.iter().enumerate() { if i > 0 { self.comma("after-call-comma"); } self.rv(a, "call-arg"); }
                    self.close(")", if args.is_empty() { None } else { Some("before-call-rparen") }); }
                E::Index(a, i) => { self.rv(a, "index-base"); self.open("[", None); self.rv(i, "index-expr"); self.close("]", None); }
                E::VecLit(k, es) => { self.o.push_str(k); self.open("[", Some("after-veclit-lbracket"));
                    for (i, a) in es.iter().enumerate() { if i > 0 { self.comma("after-veclit-comma"); } self.rv(a, "vec-elem"); }
                    self.close("]", Some("before-veclit-rbracket")); }
                E::Method(a, m, args) => { self.rv(a, "receiver"); self.o.push('.'); self.o.push_str(m); self.open("(", Some("after-method-lparen"));
                    for (i, x) in args.iter().enumerate() { if i > 0 { self.comma("after-call-comma"); } self.rv(x, "method-arg"); }
                    self.close(")", if args.is_empty() { None } else { Some("before-method-rparen") }); }
                E::Lambda(ps, body) => { self.o.push_str("fn("); self.o.push_str(&ps.join(", ")); self.o.push_str(") "); self.block(body, "lambda-body"); }
                E::LambdaExpr(ps, body) => { self.o.push_str("fn("); self.o.push_str(&ps.join(", ")); self.o.push_str(") "); self.rv(body, "lambda-expr-body"); }
                E::IfExpr(c, a, b, own_line, ml, lead) => {
                    // family Reflow: the same value block on one line or on several
                    let ml = if self.fam == Fam::Reflow && self.r.chance(1, 2) { self.note("Reflow:value-block".into()); !*ml } else { *ml };
                    self.o.push_str("if"); self.sp(); self.rv(c, "ifexpr-cond"); self.sp(); self.value_block(a, ml, *lead);
                    // an `else` on its own line is only written where a newline is not swallowed by ( or [
                    if *own_line && self.paren == 0 { self.nl("before-own-line-else"); self.indent(); } else { self.sp(); }
                    self.o.push_str("else"); self.sp(); self.value_block(b, ml, false);
                }
            }
        }
        fn block(&mut self, b: &[S], kind: &'static str) {
            self.o.push('{');
            if b.is_empty() { self.o.push('}'); return; }
            if self.fam == Fam::Reflow && b.len() == 1 && self.r.chance(1, 2)
                && matches!(b[0], S::Let(..) | S::Assign(..) | S::Inc(..) | S::Print(..) | S::Return(..) | S::Break | S::Continue | S::Expr(..)) {
                // `{ stmt }` on one line instead of three
                self.note("Reflow:stmt-block".into());
                self.kinds.push(kind); self.sp();
                if kind == "lambda-body" { if let S::Expr(e) = &b[0] { self.rv(e, "lambda-tail"); } else { self.stmt(&b[0]); } } else { self.stmt(&b[0]); }
                self.sp(); self.o.push('}'); self.kinds.pop();
                return;
            }
            self.kinds.push(kind);
            self.ind += 1; self.nl("after-open-brace"); self.indent();
            for (i, s) in b.iter().enumerate() {
                if i > 0 { self.stmt_sep(); }
                if kind == "lambda-body" && i + 1 == b.len() { if let S::Expr(e) = s { self.rv(e, "lambda-tail"); continue; } }
                self.stmt(s);
            }
            self.ind -= 1; self.nl("before-close-brace"); self.indent(); self.o.push('}');
            self.kinds.pop();
        }
        fn stmt(&mut self, s: &S) {
            match s {
                S::Let(m, x, e) => { self.o.push_str("let"); self.sp(); if *m { self.o.push_str("mut"); self.sp(); } self.o.push_str(x); self.sp(); self.o.push('='); self.sp(); self.rv(e, "let-init"); }
                S::Assign(x, op, e) => { self.o.push_str(x); self.sp(); self.o.push_str(op); self.sp(); self.rv(e, "assign-rhs"); }
                S::Inc(x, up) => { self.o.push_str(x); self.o.push_str(if *up { "++" } else { "--" }); }
                S::Print(ln, e) => { self.o.push_str(if *ln { "println" } else { "print" }); self.open("(", Some("after-print-lparen")); self.rv(e, "print-arg"); self.close(")", Some("before-print-rparen")); }
                S::If(c, a, b, own_line) => {
                    self.o.push_str("if"); self.sp(); self.rv(c, "if-cond"); self.sp(); self.block(a, "if-block");
                    if let Some(b) = b {
                        if *own_line { self.nl("before-own-line-else"); self.indent(); } else { self.sp(); }
                        self.o.push_str("else"); self.sp(); self.block(b, "else-block");
                    }
                }
                S::While(c, b) => { self.o.push_str("while"); self.sp(); self.rv(c, "while-cond"); self.sp(); self.block(b, "while-body"); }
                S::For(i, a, b, body) => { self.o.push_str("for"); self.sp(); self.o.push_str(i); self.sp(); self.o.push_str("in"); self.sp();
                    self.in_range = true; self.rv(a, "range-bound"); self.o.push_str(".."); self.rv(b, "range-bound"); self.in_range = false;
                    self.sp(); self.block(body, "for-body"); }
                S::Fn(f, ps, body) => { self.o.push_str("fn"); self.sp(); self.o.push_str(f); self.o.push('('); self.o.push_str(&ps.join(", ")); self.o.push(')'); self.sp(); self.block(body, "fn-body"); }
                S::Return(e) => { self.o.push_str("return"); if let Some(e) = e { self.sp(); self.rv(e, "return-value"); } }
                S::Break => self.o.push_str("break"),
                S::Continue => self.o.push_str("continue"),
                S::Expr(e) => self.rv(e, "stmt-expr"),
                S::LetTyped(x, ty, e) => { if matches!(*ty, "i8" | "i16" | "i32") { self.sized_vars += 1; } self.o.push_str("let"); self.sp(); self.o.push_str(x); self.o.push(':'); self.sp(); self.o.push_str(ty);
                    self.sp(); self.o.push('='); self.sp(); self.in_typed = true; self.rv(e, "typed-let-init"); self.in_typed = false; }
                S::StructDecl(nme, nf, ml) => {
                    let ml = if self.fam == Fam::Reflow && self.r.chance(1, 2) { self.note("Reflow:struct-decl".into()); !*ml } else { *ml };
                    if ml { self.struct_ml += 1; }
                    self.o.push_str("struct"); self.sp(); self.o.push_str(nme); self.sp(); self.o.push('{');
                    for i in 0..*nf {
                        if i > 0 { self.o.push(','); }
                        if ml { self.o.push('\n'); self.ind += 1; self.indent(); self.ind -= 1; } else { self.sp(); }
                        self.o.push_str(&format!("f{}: int", i));
                    }
                    if ml { self.o.push('\n'); self.indent(); } else { self.sp(); }
                    self.o.push('}');
                }
            }
        }
        pub fn program(&mut self, p: &[S]) {
            for (i, s) in p.iter().enumerate() { if i > 0 { self.stmt_sep(); } self.stmt(s); }
            self.nl("end-of-program");
        }
    }

    /// The real parser's AST of `src`, printed with Debug, with every span erased and every
    /// Grouping node replaced by its content ("parse result modulo spans and Grouping nodes").
    pub fn ast_norm(src: &str) -> Option<String> {
        let t = src.to_string();
        let parsed = guarded(std::panic::AssertUnwindSafe(move || {
            let source = aelys_syntax::Source::new("<verif>", &t);
            let tokens = Lexer::with_source(source.clone()).scan().ok()?;
            let stmts = aelys_frontend::parser::Parser::new(tokens, source).parse().ok()?;
            Some(format!("{:?}", stmts))
        })).ok().flatten()?;
        // erase spans
        let mut d = String::with_capacity(parsed.len());
        let mut rest = parsed.as_str();
        while let Some(i) = rest.find("Span {") {
            d.push_str(&rest[..i]);
            d.push('_');
            let j = rest[i..].find('}').map(|j| i + j + 1).unwrap_or(rest.len());
            rest = &rest[j..];
        }
        d.push_str(rest);
        // unwrap Grouping nodes, innermost-last is fine: repeat until none is left
        let pat = "Expr { kind: Grouping(";
        while let Some(i) = d.find(pat) {
            let inner_start = i + pat.len();
            let bytes = d.as_bytes();
            let (mut depth, mut k, mut in_str) = (1i32, inner_start, false);
            while k < bytes.len() && depth > 0 {
                let c = bytes[k];
                if in_str { if c == b'\\' { k += 1; } else if c == b'"' { in_str = false; } }
                else if c == b'"' { in_str = true; }
                else if c == b'(' { depth += 1; } else if c == b')' { depth -= 1; }
                k += 1;
            }
            // d[inner_start..k-1] is the grouped expression; after it comes `, span: _ }`
            let inner = d[inner_start..k - 1].to_string();
            let tail = ", span: _ }";
            let end = if d[k..].starts_with(tail) { k + tail.len() } else { k };
            d.replace_range(i..end, &inner);
        }
        // the parser folds `-` applied directly to an integer literal (unary.rs); with a Grouping in between it
        // does not: fold here so that `-(5)` and `-5` compare equal
        let pat = "Expr { kind: Unary { op: Neg, operand: Expr { kind: Int(";
        let mut from = 0;
        while let Some(off) = d[from..].find(pat) {
            let i = from + off;
            let ns = i + pat.len();
            let ne = ns + d[ns..].find(')').unwrap_or(0);
            let tail = "), span: _ } }, span: _ }";
            if let (Ok(n), true) = (d[ns..ne].parse::<i64>(), d[ne..].starts_with(tail)) {
                d.replace_range(i..ne + tail.len(), &format!("Expr {{ kind: Int({}), span: _ }}", n.wrapping_neg()));
                from = 0;        // an enclosing negation may now be foldable too
            } else { from = i + 1; }
        }
        Some(d)
    }

    // ------------------------------------------------------------------------------ value-block parser contract
    /// `B\t<meta>\tQBlk [items]\t<Value j | Null | ParseError>\t<text>`: item lists of a value block rendered to
    /// text inside `let r = if true { ... } else { 0 }`, parsed by the real parser; the observation is read off
    /// the AST (which item's text the then-branch expression starts at; Null = the block yielded null).
    pub fn mode_blk(r: &mut Rng, n: usize) {
        use aelys_syntax::{ExprKind, StmtKind};
        const EXPRS: [(&str, &str); 15] = [("Int", "7"), ("Float", "7.5"), ("String", "\"s\""), ("FmtString", "\"f{1}\""), ("True", "true"),
            ("False", "false"), ("Null", "null"), ("Identifier", "qq"), ("LBracket", "[1, 2]"), ("LParen", "(1 + 2)"),
            ("If", "if true { 1 } else { 2 }"), ("Fn", "fn(q) q"), ("Minus", "-qq"), ("Not", "not true"), ("Tilde", "~5")];
        const TERMS: [&str; 4] = ["let d = 1", "return 3", "break", "continue"];
        const BLOCKS: [&str; 2] = ["while false { }", "for z in 0..1 { }"];   // an `if` inside a value block is always an if-EXPRESSION
        for case in 0..n {
            // half of the cases have the accepted shape (semicolons, one expression, semicolons); the rest are
            // arbitrary item lists, which a value block now rejects as soon as they hold a statement or a second expression
            let single = case >= 40 && r.chance(1, 2);
            let len = if single { 1 } else if case < 40 { case % 4 } else { r.range_i64(0, 6) as usize };
            let mut items: Vec<String> = Vec::new();      // Coq items
            let mut text = String::from("let r = if true {");
            let mut starts: Vec<usize> = Vec::new();      // char offset of each expression item
            let mut prev = 0u8;                           // 0 nothing/semi, 1 expr or terminated statement, 2 block statement
            if r.chance(1, 6) { text.push_str(" ;"); items.push("BSemi".into()); }
            let kinds: Vec<u64> = (0..len).map(|j| if single || (j + 1 == len && r.chance(2, 3)) { 0 } else { r.below(5) }).collect();
            for j in 0..len {
                text.push(' ');
                let kind = kinds[j];
                match kind {
                    0 | 1 | 2 => { let (k, t) = *r.pick(&EXPRS); starts.push(text.chars().count()); text.push_str(t); items.push(format!("BExpr T{}", k)); prev = 1; }
                    3 => { text.push_str(*r.pick(&TERMS[..])); items.push("BTerm".into()); prev = 1; }
                    _ => { text.push_str(*r.pick(&BLOCKS[..])); items.push("BBlock".into()); prev = 2; }
                }
                // separator after the item; a missing separator is only written before a keyword-led item or `}`
                let last = j + 1 == len;
                // no separator at all: before `}`, or (1 in 6) before an item that starts with a keyword -- a missing
                // separator the parser must reject after an expression / let / return, and accept after a `}`-ended statement
                let sep = if last { r.below(6) } else if kinds[j + 1] >= 3 && r.chance(1, 6) { 5 } else { r.below(5) };
                match sep {
                    0 => { text.push(';'); items.push("BSemi".into()); prev = 0; }
                    1 => { text.push_str(";\n  "); items.push("BSemi".into()); prev = 0; }
                    2 => { text.push_str("\n  "); items.push("BSemi".into()); prev = 0; let _ = prev; }   // inserted by the lexer (every item ends in a statement-ending token)
                    3 => { text.push_str(" ;; "); items.push("BSemi".into()); items.push("BSemi".into()); prev = 0; }
                    4 => { text.push_str("\n\n // c\n  ;"); items.push("BSemi".into()); items.push("BSemi".into()); prev = 0; }
                    _ => {}
                }
            }
            let _ = prev;
            text.push_str(" } else { 0 }\n");
            // items written next to each other without separator: only let the case through when the next item starts with a keyword
            let obs = {
                let t = text.clone();
                let st = starts.clone();
                guarded(std::panic::AssertUnwindSafe(move || {
                    let source = aelys_syntax::Source::new("<verif>", &t);
                    let tokens = match Lexer::with_source(source.clone()).scan() { Ok(t) => t, Err(_) => return "ParseError".to_string() };
                    let stmts = match aelys_frontend::parser::Parser::new(tokens, source).parse() { Ok(s) => s, Err(_) => return "ParseError".to_string() };
                    let Some(first) = stmts.first() else { return "ParseError".to_string() };
                    let StmtKind::Let { initializer, .. } = &first.kind else { return "Shape".to_string() };
                    let ExprKind::If { then_branch, .. } = &initializer.kind else { return "Shape".to_string() };
                    match st.iter().position(|&o| o == then_branch.span.start) {
                        Some(j) => format!("Value {}", j),
                        None => if matches!(then_branch.kind, ExprKind::Null) { "Null".to_string() } else { "Shape".to_string() },
                    }
                })).unwrap_or("Panic".to_string())
            };
            println!("B\t{}\tQBlk [{}]\t{}\t{}", case, items.join("; "), obs, esc(&text));
        }
    }

    /// `Q\t<meta>\tQSeq <top> [items]\t<Some n | None>\t<text>`: statement sequences at top level or inside
    /// `fn f() { ... }`, parsed by the real parser; observation = number of statements / rejected.
    pub fn mode_seq(r: &mut Rng, n: usize) {
        use aelys_syntax::StmtKind;
        // statements that end with consume_semicolon: keyword-led ones first (index < 3)
        const TERMS: [&str; 6] = ["let d = 1", "return 3", "break", "g(1)", "x = 2", "y++"];
        const BLOCKS: [&str; 4] = ["while false { }", "for z in 0..1 { }", "if true { }", "fn h() { }"];
        for case in 0..n {
            let top = r.chance(1, 2);
            let len = if case < 40 { case % 4 } else { r.range_i64(0, 6) as usize };
            let kinds: Vec<u64> = (0..len).map(|_| r.below(5)).collect();       // 0..2 STerm, 3..4 SBlock
            let mut items: Vec<&str> = Vec::new();
            let mut text = String::from(if top { "" } else { "fn f() {" });
            if r.chance(1, 6) { text.push_str(" ;"); items.push("SSemi"); }
            let mut sep_pending = false;       // the last thing written is an item without separator
            for j in 0..len {
                text.push(' ');
                let no_sep_before = sep_pending;
                if kinds[j] < 3 {
                    // after a missing separator only a keyword-led statement is written (anything else could merge into one expression)
                    let t = if no_sep_before { TERMS[r.below(3) as usize] } else { *r.pick(&TERMS[..]) };
                    text.push_str(t); items.push("STerm");
                } else { text.push_str(*r.pick(&BLOCKS[..])); items.push("SBlock"); }
                let last = j + 1 == len;
                let sep = if last { r.below(6) } else if r.chance(1, 6) { 5 } else { r.below(5) };
                sep_pending = false;
                match sep {
                    0 => { text.push(';'); items.push("SSemi"); }
                    1 => { text.push_str(";\n  "); items.push("SSemi"); }
                    2 => { text.push_str("\n  "); items.push("SSemi"); }
                    3 => { text.push_str(" ;; "); items.push("SSemi"); items.push("SSemi"); }
                    4 => { text.push_str("\n\n // c\n  ;"); items.push("SSemi"); items.push("SSemi"); }
                    _ => { sep_pending = true; }
                }
            }
            if top { if sep_pending { items.push("SSemi"); } }     // the lexer adds `;` at the end of input after a statement-ending token
            else { text.push_str(" }\n"); }
            let obs = {
                let t = text.clone();
                guarded(std::panic::AssertUnwindSafe(move || {
                    let source = aelys_syntax::Source::new("<verif>", &t);
                    let tokens = match Lexer::with_source(source.clone()).scan() { Ok(t) => t, Err(_) => return "None".to_string() };
                    let stmts = match aelys_frontend::parser::Parser::new(tokens, source).parse() { Ok(s) => s, Err(_) => return "None".to_string() };
                    if top { return format!("Some {}", stmts.len()); }
                    match stmts.first().map(|s| &s.kind) {
                        Some(StmtKind::Function(f)) if stmts.len() == 1 => format!("Some {}", f.body.len()),
                        _ => "Shape".to_string(),
                    }
                })).unwrap_or("Panic".to_string())
            };
            println!("Q\t{}\tQSeq {} [{}]\t{}\t{}", case, top, items.join("; "), obs, esc(&text));
        }
    }

    fn same(a: &Outcome, b: &Outcome) -> bool {
        if a.class != b.class { return false; }
        if a.class == "compile-error" { return true; }
        // cut off by the instruction budget: the two texts may compile to different instruction counts
        // (Grouping nodes); what was printed before the cut must agree
        if a.class == "budget" { return a.output.starts_with(&b.output) || b.output.starts_with(&a.output); }
        a.output == b.output && a.value == b.value
    }

    pub fn mode_var(r: &mut Rng, n: usize, opts: &[u32], budget: u64, dump: bool) {
        let mut dist: std::collections::BTreeMap<String, usize> = POSITIONS.iter().map(|p| (p.to_string(), 0)).collect();
        for id in 0..n {
            let mut gr = Rng::new(r.next_u64());
            let prog = Gen::program(&mut gr);
            let mut br = Rng::new(1);
            let mut bp = Pr::new(Fam::Base, &mut br);
            bp.program(&prog);
            let base_sep_in_parens = bp.sep_inside_parens;
            let base_tilde = bp.tilde_tail;
            let base_struct_ml = bp.struct_ml;
            let base = bp.o;
            let base_out: Vec<Outcome> = opts.iter().map(|&o| run_program(&base, o, (0, 0), budget, None)).collect();
            let base_ast = ast_norm(&base);
            for fam in FAMS {
                for rep in 0..2 {
                    let mut vr = Rng::new(r.next_u64());
                    let mut vp = Pr::new(fam, &mut vr);
                    vp.program(&prog);
                    if vp.applied == 0 || vp.o == base { continue; }
                    let flags = format!("applied={},comment_before_else={},sep_inside_parens={}/{},tilde_tail={},typed_paren={},minbound_paren={},struct_ml={}/{},sized_lit_paren={}", vp.applied, vp.comment_before_else as u8, base_sep_in_parens, vp.sep_inside_parens, base_tilde, vp.typed_paren, vp.minbound_paren, base_struct_ml, vp.struct_ml, if vp.sized_vars > 0 { vp.lit_paren } else { 0 });
                    for (k, v) in &vp.pos { *dist.entry(k.clone()).or_insert(0) += v; }
                    let var = vp.o;
                    // parser-level oracle: same AST modulo spans and Grouping ("-" when one of the texts is rejected)
                    let ast = match (&base_ast, ast_norm(&var)) { (Some(a), Some(b)) => if *a == b { "1" } else { "0" }, _ => "-" };
                    for (k, &o) in opts.iter().enumerate() {
                        let vo = run_program(&var, o, (0, 0), budget, None);
                        let s = same(&base_out[k], &vo);
                        let show = !s || ast == "0" || dump || (id < 2 && rep == 0 && k == 0);
                        println!("V\t{}\t{:?}\t{},ast={}\t{}\t{}\t{}\t{}\t{}\t{}\t{}\t{}", id, fam, flags, ast, o, base_out[k].class, vo.class, s as u8,
                                 if show { esc(&base) } else { String::new() }, if show { esc(&var) } else { String::new() },
                                 if show { esc(&base_out[k].output) } else { String::new() }, if show { esc(&vo.output) } else { String::new() });
                    }
                }
            }
        }
        // how often each family was applied in each syntactic position (all variants of this run)
        for (k, v) in &dist { println!("D\t{}\t{}", k, v); }
    }

    pub fn mode_pairs(file: &str, opts: &[u32], budget: u64) {
        let text = std::fs::read_to_string(file).expect("read");
        for case in text.split("\n=====\n") {
            let name = case.lines().next().unwrap_or("").trim_start_matches('/').trim().to_string();
            let mut it = case.splitn(2, "\n-----\n");
            let (Some(a), Some(b)) = (it.next(), it.next()) else { continue };
            for &o in opts {
                let ra = run_program(a, o, (0, 0), budget, None);
                let rb = run_program(b, o, (0, 0), budget, None);
                println!("K\t{}\t{}\t{}\t{}\t{}\t{}\t{}", name, o, ra.class, rb.class, same(&ra, &rb) as u8, esc(&ra.output), esc(&rb.output));
            }
        }
    }

    pub fn main() {
        quiet_panics();
        let seed = arg_u64("--seed", 0);
        let mode = arg("--mode").unwrap_or("lex".into());
        let n = arg_u64("--n", 300) as usize;
        let budget = arg_u64("--budget", 300_000);
        let opts: Vec<u32> = arg("--opts").unwrap_or("0,2".into()).split(',').filter_map(|s| s.parse().ok()).collect();
        let mut rng = Rng::new(seed ^ match mode.as_str() { "lex" => 0x11, "lit" => 0x22, "blk" => 0x44, "seq" => 0x55, _ => 0x33 });
        match mode.as_str() {
            "lex" => mode_lex(&mut rng, n, flag("--all-pairs")),
            "lit" => mode_lit(&mut rng, n),
            "var" => mode_var(&mut rng, n, &opts, budget, flag("--dump")),
            "blk" => mode_blk(&mut rng, n),
            "seq" => mode_seq(&mut rng, n),
            "pairs" => mode_pairs(&arg("--file").expect("--file"), &opts, budget),
            "astfile" => {
                let text = std::fs::read_to_string(arg("--file").expect("--file")).expect("read");
                println!("{}", ast_norm(&text).unwrap_or("REJECTED".into()));
            }
            "lexfile" => {
                let text = std::fs::read_to_string(arg("--file").expect("--file")).expect("read");
                println!("{}", match lex_names(&text) { Some(v) => v.join(" "), None => "ERR".into() });
            }
            _ => { eprintln!("unknown mode"); std::process::exit(2); }
        }
    }
}

#[cfg(vbxq_aelys_lang_verif)]
fn main() {
    let h = std::thread::Builder::new().stack_size(256 << 20).spawn(imp::main).unwrap();
    h.join().unwrap();
}
#[cfg(not(vbxq_aelys_lang_verif))]
fn main() { eprintln!("built without hooks"); std::process::exit(2); }
