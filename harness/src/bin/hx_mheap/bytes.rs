//! std.bytes part of the C09 tie: histories of bytes.* calls run as REPL inputs on one VM
//! (`needs std.bytes`), compared with Model/Bytes.v (lines starting with `Q`) and with a reference
//! map of byte arrays kept here (the direct oracle; lines `!ORACLE`).  One history in eight also uses the f32 accessors.
use super::*;

#[derive(Clone, Debug)]
pub enum BOp {
    Alloc(i64),
    Free(A),
    Size(i64),
    Resize(i64, i64),
    Read { w: u8, kind: u8, be: bool, h: i64, off: i64 },
    Write { w: u8, sg: bool, be: bool, h: i64, off: i64, v: i64 },
    WriteF { w: u8, be: bool, h: i64, off: i64, lit: &'static str },
    Copy(i64, i64, i64, i64, i64),
    Fill(i64, i64, i64, i64),
    Clone(i64),
    Equals(i64, i64),
    FromString(&'static str),
    Decode(i64, i64, i64),
    WriteString(i64, i64, &'static str),
    Find(i64, i64, i64, i64),
    Reverse(i64, i64, i64),
    Swap(i64, i64, i64),
    /// open file number `file` of the fixture, fs.read_bytes(n), close: a byte buffer produced by std.fs
    ReadFile { file: usize, n: i64, uniq: u64 },
    /// fs.close / net.close applied to a handle of the resource table
    FsClose(i64),
    NetClose(i64),
    /// a call with an operand of the wrong type (source text kept verbatim)
    NonInt(String),
}
/// fixture files (created under .cache by `fixture_dir`): lengths 0, 3, 10, 100; byte i of a file is (i * 7 + len) mod 256
pub const FILE_LENS: [usize; 4] = [0, 3, 10, 100];
pub fn file_content(len: usize) -> Vec<u8> { (0..len).map(|i| ((i * 7 + len) % 256) as u8).collect() }
pub fn fixture_dir() -> String {
    let d = format!("{}/.cache/c09-files/{}", env!("CARGO_MANIFEST_DIR").split("/.cache").next().unwrap_or("/verif"), std::process::id());
    let d = if d.starts_with("/verif") || std::path::Path::new(&d).parent().is_some() { d } else { format!("/tmp/c09-files/{}", std::process::id()) };
    std::fs::create_dir_all(&d).expect("fixture dir");
    for len in FILE_LENS { std::fs::write(format!("{}/f{}.bin", d, len), file_content(len)).expect("fixture file"); }
    d
}
thread_local! { pub static FIXTURE: std::cell::RefCell<String> = std::cell::RefCell::new(String::new()); }
fn fixture() -> String { FIXTURE.with(|f| { if f.borrow().is_empty() { *f.borrow_mut() = fixture_dir(); } f.borrow().clone() }) }

const STRINGS: [&str; 8] = ["", "a", "hello", "Meow 42", "h\u{e9}llo", "\u{65e5}\u{672c}", "x y z", "\u{1F600}!"];

const MAX_ALLOC: i64 = 256 * 1024 * 1024; // only used to pick "too large" sizes; the model takes the real constant from the source
const FLOATS: [&str; 8] = ["0.0", "0.5", "1.5", "2.25", "1234567.875", "0.1", "100000000000000000000.0", "3.0"];

fn acc_name(prefix: &str, t: char, w: u8, be: bool) -> String {
    format!("bytes.{}_{}{}{}", prefix, t, (w as u32) * 8, if be { "_be" } else { "" })
}

fn src(op: &BOp) -> String {
    match op {
        BOp::Alloc(n) => format!("bytes.alloc({})", n),
        BOp::Free(a) => format!("bytes.free({})", vmrun::arg_src(*a)),
        BOp::Size(h) => format!("bytes.size({})", h),
        BOp::Resize(h, n) => format!("bytes.resize({}, {})", h, n),
        BOp::Read { w, kind, be, h, off } => format!("{}({}, {})", acc_name("read", ['u', 'i', 'f'][*kind as usize], *w, *be), h, off),
        BOp::Write { w, sg, be, h, off, v } => format!("{}({}, {}, {})", acc_name("write", if *sg { 'i' } else { 'u' }, *w, *be), h, off, v),
        BOp::WriteF { w, be, h, off, lit } => format!("{}({}, {}, {})", acc_name("write", 'f', *w, *be), h, off, lit),
        BOp::Copy(a, b, c, d, e) => format!("bytes.copy({}, {}, {}, {}, {})", a, b, c, d, e),
        BOp::Fill(a, b, c, d) => format!("bytes.fill({}, {}, {}, {})", a, b, c, d),
        BOp::Clone(h) => format!("bytes.clone({})", h),
        BOp::Equals(a, b) => format!("bytes.equals({}, {})", a, b),
        BOp::FromString(t) => format!("bytes.from_string(\"{}\")", t),
        BOp::Decode(h, o, l) => format!("bytes.decode({}, {}, {})", h, o, l),
        BOp::WriteString(h, o, t) => format!("bytes.write_string({}, {}, \"{}\")", h, o, t),
        BOp::Find(h, a, b, n) => format!("bytes.find({}, {}, {}, {})", h, a, b, n),
        BOp::Reverse(h, o, l) => format!("bytes.reverse({}, {}, {})", h, o, l),
        BOp::Swap(h, i, j) => format!("bytes.swap({}, {}, {})", h, i, j),
        BOp::ReadFile { file, n, uniq } => format!("let rf{u} = fsys.open(\"{d}/f{l}.bin\", \"r\")\nlet rb{u} = fsys.read_bytes(rf{u}, {n})\nfsys.close(rf{u})\nrb{u}", u = uniq, d = fixture(), l = FILE_LENS[*file], n = n),
        BOp::FsClose(h) => format!("fsys.close({})", h),
        BOp::NetClose(h) => format!("netw.close({})", h),
        BOp::NonInt(t) => t.clone(),
    }
}

fn coq_bytes(t: &str) -> String { format!("[{}]", t.as_bytes().iter().map(|b| b.to_string()).collect::<Vec<_>>().join("; ")) }

fn coq(op: &BOp) -> String {
    let z = |n: i64| zc(n as i128);
    let b = |x: bool| if x { "true" } else { "false" };
    match op {
        BOp::Alloc(n) => format!("BAlloc {}", z(*n)),
        BOp::Free(a) => format!("BFree {}", match a { A::I(n) => format!("(AInt {})", zc(*n)), A::Null => "ANull".into(), A::Flt => "AOther".into() }),
        BOp::Size(h) => format!("BSize {}", z(*h)),
        BOp::Resize(h, n) => format!("BResize {} {}", z(*h), z(*n)),
        BOp::Read { w, kind, be, h, off } => format!("BRead {} {} {} {} {}", w, kind, b(*be), z(*h), z(*off)),
        BOp::Write { w, sg, be, h, off, v } => format!("BWrite {} {} {} {} {} {}", w, b(*sg), b(*be), z(*h), z(*off), z(*v)),
        BOp::WriteF { w, be, h, off, lit } => format!("BWriteF {} {} {} {} {}", w, b(*be), z(*h), z(*off), lit.parse::<f64>().unwrap().to_bits()),
        BOp::Copy(a, bb, c, d, e) => format!("BCopy {} {} {} {} {}", z(*a), z(*bb), z(*c), z(*d), z(*e)),
        BOp::Fill(a, bb, c, d) => format!("BFill {} {} {} {}", z(*a), z(*bb), z(*c), z(*d)),
        BOp::Clone(h) => format!("BClone {}", z(*h)),
        BOp::Equals(a, bb) => format!("BEquals {} {}", z(*a), z(*bb)),
        BOp::FromString(t) => format!("BFromString {}", coq_bytes(t)),
        BOp::Decode(h, o, l) => format!("BDecode {} {} {}", z(*h), z(*o), z(*l)),
        BOp::WriteString(h, o, t) => format!("BWriteString {} {} {}", z(*h), z(*o), coq_bytes(t)),
        BOp::Find(h, a, bb, n) => format!("BFind {} {} {} {}", z(*h), z(*a), z(*bb), z(*n)),
        BOp::Reverse(h, o, l) => format!("BReverse {} {} {}", z(*h), z(*o), z(*l)),
        BOp::Swap(h, i, j) => format!("BSwap {} {} {}", z(*h), z(*i), z(*j)),
        BOp::ReadFile { file, n, .. } => format!("BReadFile [{}] {}", file_content(FILE_LENS[*file]).iter().map(|b| b.to_string()).collect::<Vec<_>>().join("; "), z(*n)),
        BOp::FsClose(h) => format!("BFsClose {}", z(*h)),
        BOp::NetClose(h) => format!("BNetClose {}", z(*h)),
        BOp::NonInt(_) => "BNonInt".into(),
    }
}

// ---------------------------------------------------------------- reference map of byte arrays
#[derive(Default)]
struct RefB { live: BTreeMap<i64, Vec<u8>>, dead: BTreeSet<i64> }

#[derive(Debug, PartialEq, Clone)]
enum Want { Err, Unit, Int(i64), Word(u64), FreshHandle, FreshHandleWith(Vec<u8>), Str(Vec<u8>), Any }

fn range_of(w: u8, sg: bool) -> (i64, i64) {
    match (w, sg) {
        (1, false) => (0, 255), (1, true) => (-128, 127),
        (2, false) => (0, 65535), (2, true) => (-32768, 32767),
        (4, false) => (0, u32::MAX as i64), (4, true) => (i32::MIN as i64, i32::MAX as i64),
        _ => (i64::MIN, i64::MAX),
    }
}

fn span(d: &[u8], off: i64, len: i64) -> Option<(usize, usize)> {
    if off < 0 || len < 0 { return None; }
    let end = (off as u64).checked_add(len as u64)?;
    if end > d.len() as u64 { None } else { Some((off as usize, end as usize)) }
}

fn read_val(bytes: &[u8], w: u8, kind: u8, be: bool) -> u64 {
    let mut a = [0u8; 8];
    let n = w as usize;
    if be { for i in 0..n { a[i] = bytes[n - 1 - i]; } } else { a[..n].copy_from_slice(bytes); }
    let u = u64::from_le_bytes(a);
    match kind {
        2 => if w == 8 { Value::float(f64::from_bits(u)).raw_bits() } else { Value::float(f32::from_bits(u as u32) as f64).raw_bits() },
        1 => { let sh = 64 - 8 * n as u32; Value::int(((u << sh) as i64) >> sh).raw_bits() }
        _ => Value::int(u as i64).raw_bits(),
    }
}

/// what the property (map of fixed-size byte arrays) demands, and the reference update
fn ref_step(r: &mut RefB, op: &BOp) -> Want {
    match op {
        BOp::Alloc(n) => if *n >= 1 && *n <= MAX_ALLOC { Want::FreshHandle } else { Want::Err },
        BOp::Free(A::Null) => Want::Unit,
        BOp::Free(A::I(h)) => { let h = *h as i64; if r.live.remove(&h).is_some() { r.dead.insert(h); Want::Unit } else { Want::Err } }
        BOp::Free(_) => Want::Err,
        BOp::Size(h) => r.live.get(h).map(|d| Want::Int(d.len() as i64)).unwrap_or(Want::Err),
        BOp::Resize(h, n) => match r.live.get_mut(h) { Some(d) if *n >= 1 && *n <= MAX_ALLOC => { d.resize(*n as usize, 0); Want::Unit } _ => Want::Err },
        BOp::Read { w, kind, be, h, off } => match r.live.get(h) {
            Some(d) => match span(d, *off, *w as i64) { Some((a, b)) => Want::Word(read_val(&d[a..b], *w, *kind, *be)), None => Want::Err },
            None => Want::Err },
        BOp::Write { w, sg, be, h, off, v } => {
            let (lo, hi) = range_of(*w, *sg);
            match r.live.get_mut(h) {
                Some(d) if *v >= lo && *v <= hi => match span(d, *off, *w as i64) {
                    Some((a, b)) => { let le = (*v as u64).to_le_bytes(); for i in 0..(b - a) { d[a + i] = if *be { le[b - a - 1 - i] } else { le[i] }; } Want::Unit }
                    None => Want::Err },
                _ => Want::Err }
        }
        BOp::WriteF { w, be, h, off, lit } => {
            let f: f64 = lit.parse().unwrap();
            match r.live.get_mut(h) {
                Some(d) => match span(d, *off, *w as i64) {
                    Some((a, b)) => { let le: Vec<u8> = if *w == 8 { f.to_le_bytes().to_vec() } else { (f as f32).to_le_bytes().to_vec() };
                        for i in 0..(b - a) { d[a + i] = if *be { le[b - a - 1 - i] } else { le[i] }; } Want::Unit }
                    None => Want::Err },
                None => Want::Err }
        }
        BOp::Copy(sh, so, dh, doff, len) => {
            if *len < 0 || *so < 0 || *doff < 0 || *sh < 0 || *dh < 0 { return Want::Err; }
            if *len == 0 { return Want::Any; }   // touches no byte: success and failure are both acceptable
            let srcb = match r.live.get(sh) { Some(d) => match span(d, *so, *len) { Some((a, b)) => d[a..b].to_vec(), None => return Want::Err }, None => return Want::Err };
            match r.live.get_mut(dh) { Some(d) => match span(d, *doff, *len) { Some((a, b)) => { d[a..b].copy_from_slice(&srcb); Want::Unit } None => Want::Err }, None => Want::Err }
        }
        BOp::Fill(h, off, len, v) => {
            if *len < 0 || *off < 0 || *h < 0 || *v < 0 || *v > 255 { return Want::Err; }
            if *len == 0 { return Want::Any; }
            match r.live.get_mut(h) { Some(d) => match span(d, *off, *len) { Some((a, b)) => { for x in &mut d[a..b] { *x = *v as u8; } Want::Unit } None => Want::Err }, None => Want::Err }
        }
        BOp::Clone(h) => match r.live.get(h) { Some(d) => Want::FreshHandleWith(d.clone()), None => Want::Err },
        BOp::Equals(a, b) => match (r.live.get(a), r.live.get(b)) { (Some(x), Some(y)) => Want::Word(Value::bool(x == y).raw_bits()), _ => Want::Err },
        BOp::FromString(t) => Want::FreshHandleWith(t.as_bytes().to_vec()),
        BOp::Decode(h, off, len) => match r.live.get(h) {
            Some(d) => match span(d, *off, *len) { Some((a, b)) => match std::str::from_utf8(&d[a..b]) { Ok(t) => Want::Str(t.as_bytes().to_vec()), Err(_) => Want::Err }, None => Want::Err },
            None => Want::Err },
        BOp::WriteString(h, off, t) => match r.live.get_mut(h) {
            Some(d) => match span(d, *off, t.len() as i64) { Some((a, b)) => { d[a..b].copy_from_slice(t.as_bytes()); Want::Int(t.len() as i64) } None => Want::Err },
            None => Want::Err },
        BOp::Find(h, start, stop, needle) => {
            if *start < 0 || *needle < 0 || *needle > 255 { return Want::Err; }
            match r.live.get(h) { Some(d) => {
                let e = if *stop < 0 { d.len() as i64 } else { (*stop).min(d.len() as i64) };
                if *start >= e { Want::Int(-1) } else { Want::Int(d[*start as usize..e as usize].iter().position(|x| *x == *needle as u8).map(|p| p as i64 + *start).unwrap_or(-1)) } }
                None => Want::Err }
        }
        BOp::Reverse(h, off, len) => {
            if *len < 0 || *off < 0 || *h < 0 { return Want::Err; }
            if *len == 0 { return Want::Any; }
            match r.live.get_mut(h) { Some(d) => match span(d, *off, *len) { Some((a, b)) => { d[a..b].reverse(); Want::Unit } None => Want::Err }, None => Want::Err }
        }
        BOp::Swap(h, i, j) => match r.live.get_mut(h) {
            Some(d) if *i >= 0 && *j >= 0 && (*i as usize) < d.len() && (*j as usize) < d.len() => { d.swap(*i as usize, *j as usize); Want::Unit }
            _ => Want::Err },
        // closing a byte buffer as a file must be refused; net.close is documented as a no-op for non-sockets.
        // Either way the whole-state comparison below demands that every buffer is still there.
        BOp::ReadFile { file, n, .. } => { let c = file_content(FILE_LENS[*file]); let k = (*n as usize).min(c.len()); Want::FreshHandleWith(c[..k].to_vec()) }
        BOp::FsClose(_) => Want::Err,
        BOp::NetClose(_) => Want::Any,
        BOp::NonInt(_) => Want::Err,
    }
}

fn op_kind(op: &BOp) -> &'static str {
    match op { BOp::Alloc(_) => "alloc", BOp::Free(_) => "free", BOp::Size(_) => "size", BOp::Resize(..) => "resize", BOp::Read { .. } => "read",
               BOp::Write { .. } => "write", BOp::WriteF { .. } => "write_f", BOp::Copy(..) => "copy", BOp::Fill(..) => "fill",
               BOp::Clone(_) => "clone", BOp::Equals(..) => "equals", BOp::FromString(_) => "from_string", BOp::Decode(..) => "decode",
               BOp::WriteString(..) => "write_string", BOp::Find(..) => "find", BOp::Reverse(..) => "reverse", BOp::Swap(..) => "swap", BOp::ReadFile { .. } => "fs_read_bytes", BOp::FsClose(_) => "fs_close", BOp::NetClose(_) => "net_close", BOp::NonInt(_) => "non-int-operand" }
}


/// inverse of `src` for replays: "bytes.write_u16_be(0, 1, 5); bytes.free(null); ..."
fn parse_bops(text: &str) -> Vec<BOp> {
    let mut out = Vec::new();
    for t0 in text.split(';') {
        let t0 = t0.trim();
        if t0.is_empty() { continue; }
        let full = t0.to_string();
        let parsed = std::panic::catch_unwind(|| parse_one(t0));
        out.push(match parsed { Ok(op) => op, Err(_) => BOp::NonInt(full) });
    }
    out
}

fn parse_one(t: &str) -> BOp {
    {
        if t.starts_with("let rf") {
            let len: usize = t.split("/f").last().and_then(|x| x.split(".bin").next()).and_then(|x| x.parse().ok()).expect("fixture file");
            let n: i64 = t.split("read_bytes(").nth(1).and_then(|x| x.split(", ").nth(1)).and_then(|x| x.split(')').next()).and_then(|x| x.trim().parse().ok()).expect("count");
            return BOp::ReadFile { file: FILE_LENS.iter().position(|l| *l == len).expect("known file"), n, uniq: 900_000_000 + (n as u64 % 1000) * 1000 + len as u64 };
        }
        if let Some(r) = t.strip_prefix("netw.close(") { return BOp::NetClose(r.trim_end_matches(')').trim().parse().expect("int")); }
        let t = t.strip_prefix("bytes.").or_else(|| t.strip_prefix("fsys.")).unwrap_or(t);
        let open = t.find('(').expect("(");
        let name = &t[..open];
        let args: Vec<&str> = t[open + 1..t.rfind(')').expect(")")].split(',').map(|a| a.trim()).collect();
        let i = |k: usize| -> i64 { args[k].parse().expect("int argument") };
        let op = match name {
            "alloc" => BOp::Alloc(i(0)),
            "free" => BOp::Free(match args[0] { "null" => A::Null, "1.5" => A::Flt, n => A::I(n.parse().expect("int")) }),
            "size" => BOp::Size(i(0)),
            "resize" => BOp::Resize(i(0), i(1)),
            "copy" => BOp::Copy(i(0), i(1), i(2), i(3), i(4)),
            "fill" => BOp::Fill(i(0), i(1), i(2), i(3)),
            "clone" => BOp::Clone(i(0)),
            "equals" => BOp::Equals(i(0), i(1)),
            "from_string" => BOp::FromString(STRINGS.iter().find(|t| format!("\"{}\"", t) == args[0]).copied().expect("known string literal")),
            "decode" => BOp::Decode(i(0), i(1), i(2)),
            "write_string" => BOp::WriteString(i(0), i(1), STRINGS.iter().find(|t| format!("\"{}\"", t) == args[2]).copied().expect("known string literal")),
            "find" => BOp::Find(i(0), i(1), i(2), i(3)),
            "reverse" => BOp::Reverse(i(0), i(1), i(2)),
            "swap" => BOp::Swap(i(0), i(1), i(2)),
            "close" => BOp::FsClose(i(0)),
            _ => {
                let (rw, rest) = name.split_once('_').expect("accessor name");
                let be = rest.ends_with("_be");
                let ty = rest.trim_end_matches("_be");
                let w = (ty[1..].parse::<u32>().expect("width") / 8) as u8;
                let kind = match &ty[..1] { "u" => 0u8, "i" => 1, _ => 2 };
                if rw == "read" { BOp::Read { w, kind, be, h: i(0), off: i(1) } }
                else if kind == 2 { BOp::WriteF { w, be, h: i(0), off: i(1), lit: FLOATS.iter().find(|f| **f == args[2]).copied().expect("known float literal") } }
                else { BOp::Write { w, sg: kind == 1, be, h: i(0), off: i(1), v: i(2) } }
            }
        };
        op
    }
}

// ---------------------------------------------------------------- generator
fn gen_bop(rng: &mut Rng, r: &RefB, f32ok: bool, dist: &mut Dist) -> BOp {
    let live: Vec<i64> = r.live.keys().cloned().collect();
    let dead: Vec<i64> = r.dead.iter().cloned().collect();
    let fresh = live.iter().chain(dead.iter()).max().map(|m| m + 1).unwrap_or(0);
    let widths = [1u8, 2, 4, 8];
    let pick_acc = |rng: &mut Rng| -> (u8, bool, bool) { let w = *rng.pick(&widths); (w, rng.chance(1, 2), w > 1 && rng.chance(1, 2)) };
    let val_in = |rng: &mut Rng, w: u8, sg: bool| -> i64 {
        let (lo, hi) = range_of(w, sg);
        let (lo, hi) = (lo.max(-(1 << 47)), hi.min((1 << 47) - 1));
        match rng.below(5) { 0 => lo, 1 => hi, 2 => rng.range_i64(lo.max(-3), hi.min(3)), _ => rng.range_i64(lo, hi) }
    };
    if rng.chance(4, 5) || (live.is_empty() && rng.chance(1, 2)) {
        dist.hit("valid");
        if live.is_empty() || (live.len() < 5 && rng.chance(1, 6)) { dist.hit("valid:alloc"); return BOp::Alloc(rng.range_i64(1, 24)); }
        let h = *rng.pick(&live);
        let len = r.live[&h].len() as i64;
        if live.len() < 6 && rng.chance(1, 12) {
            // a byte buffer produced by fs.read_bytes: exact, short (count larger than the file), empty file, zero count
            let file = rng.below(FILE_LENS.len() as u64) as usize;
            let len = FILE_LENS[file] as i64;
            let n = *rng.pick(&[0i64, 1, (len - 1).max(0), len, len + 1, 2 * len + 5, 1000, 1_000_000]);
            dist.hit(if n > len { "valid:fs.read_bytes-short-read" } else if len == 0 { "valid:fs.read_bytes-empty-file" } else if n == len { "valid:fs.read_bytes-exact" } else { "valid:fs.read_bytes" });
            return BOp::ReadFile { file, n, uniq: rng.next_u64() % 1_000_000_000 };
        }
        if rng.chance(1, 25) {
            // a byte-buffer handle given to another module's close
            return if rng.chance(1, 2) { dist.hit("valid-handle:fs.close"); BOp::FsClose(h) } else { dist.hit("valid-handle:net.close"); BOp::NetClose(h) };
        }
        if rng.chance(1, 5) {
            // the rest of the API: clone / equals / strings / find / reverse / swap
            let other = *rng.pick(&live);
            return match rng.below(9) {
                0 => { dist.hit("valid:clone"); if live.len() < 6 { BOp::Clone(h) } else { BOp::Equals(h, other) } }
                1 => { dist.hit("valid:equals"); BOp::Equals(h, other) }
                2 => { dist.hit("valid:from_string"); if live.len() < 6 { BOp::FromString(*rng.pick(&STRINGS)) } else { BOp::Equals(other, h) } }
                3 => { dist.hit("valid:decode"); let n = rng.range_i64(0, len.min(12)); BOp::Decode(h, rng.range_i64(0, len - n), n) }
                4 => { let t = *rng.pick(&STRINGS); if (t.len() as i64) > len { dist.hit("valid:decode"); BOp::Decode(h, 0, 0) } else { dist.hit("valid:write_string"); BOp::WriteString(h, rng.range_i64(0, len - t.len() as i64), t) } }
                5 | 6 => { dist.hit("valid:find"); let st = rng.range_i64(0, len); let needle = if len > 0 && rng.chance(2, 3) { r.live[&h][rng.below(len as u64) as usize] as i64 } else { rng.range_i64(0, 255) };
                           let mid = rng.range_i64(0, len.max(1)); BOp::Find(h, st, *rng.pick(&[-1i64, len, len + 5, mid, 0]), needle) }
                7 => { dist.hit("valid:reverse"); let n = rng.range_i64(0, len); BOp::Reverse(h, rng.range_i64(0, len - n), n) }
                _ => { if len == 0 { dist.hit("valid:find"); BOp::Find(h, 0, -1, 0) } else { dist.hit("valid:swap"); BOp::Swap(h, rng.below(len as u64) as i64, rng.below(len as u64) as i64) } }
            };
        }
        loop {
            match rng.below(20) {
                0 => { dist.hit("valid:free"); return BOp::Free(A::I(h as i128)); }
                1 => { dist.hit("valid:size"); return BOp::Size(h); }
                2 => { dist.hit("valid:resize"); return BOp::Resize(h, rng.range_i64(1, 32)); }
                3..=8 => { let (w, sg, be) = pick_acc(rng); if (w as i64) > len { continue; }
                    dist.hit(&format!("valid:write{}", w * 8)); return BOp::Write { w, sg, be, h, off: rng.range_i64(0, len - w as i64), v: val_in(rng, w, sg) }; }
                9..=13 => { let (w, sg, be) = pick_acc(rng); if (w as i64) > len { continue; }
                    dist.hit(&format!("valid:read{}", w * 8)); return BOp::Read { w, kind: sg as u8, be, h, off: rng.range_i64(0, len - w as i64) }; }
                14 => { let w = if f32ok && rng.chance(1, 2) { 4 } else { 8 }; if (w as i64) > len { continue; }
                    dist.hit(&format!("valid:write_f{}", w * 8)); return BOp::WriteF { w, be: rng.chance(1, 2), h, off: rng.range_i64(0, len - w as i64), lit: *rng.pick(&FLOATS) }; }
                15 => { let w = if f32ok && rng.chance(1, 2) { 4 } else { 8 }; if (w as i64) > len { continue; }
                    dist.hit(&format!("valid:read_f{}", w * 8)); return BOp::Read { w, kind: 2, be: rng.chance(1, 2), h, off: rng.range_i64(0, len - w as i64) }; }
                16 | 17 => { let d = if rng.chance(1, 2) { h } else { *rng.pick(&live) }; let dl = r.live[&d].len() as i64;
                    let n = rng.range_i64(0, len.min(dl)); let so = rng.range_i64(0, len - n); let dof = rng.range_i64(0, dl - n);
                    dist.hit(if d == h { "valid:copy-same-buffer" } else { "valid:copy" });
                    if d == h && n > 0 && (so - dof).abs() < n && so != dof { dist.hit("valid:copy-overlapping"); }
                    return BOp::Copy(h, so, d, dof, n); }
                _ => { let n = rng.range_i64(0, len); dist.hit("valid:fill"); return BOp::Fill(h, rng.range_i64(0, len - n), n, rng.range_i64(0, 255)); }
            }
        }
    }
    dist.hit("malformed");
    let bad_h = |rng: &mut Rng, dist: &mut Dist| -> i64 {
        if !live.is_empty() && rng.chance(1, 4) { dist.hit("malformed:handle-alias-of-live"); return { let k0 = *rng.pick(&live) as i128; alias_of(rng, k0, true) } as i64; }
        match rng.below(5) {
            0 | 1 if !dead.is_empty() => { dist.hit("malformed:stale-handle"); *rng.pick(&dead) }
            0 | 1 | 2 => { dist.hit("malformed:never-issued"); fresh + rng.range_i64(0, 2) }
            3 => { dist.hit("malformed:huge-handle"); *rng.pick(&[1i64 << 31, 1 << 40, (1 << 47) - 1]) }
            _ => { dist.hit("malformed:negative-handle"); -rng.range_i64(1, 3) }
        }
    };
    if rng.chance(1, 8) {
        // an operand of the wrong type where an int (or number / string) is required
        dist.hit("malformed:non-int-operand");
        let g = live.first().cloned().unwrap_or(0);
        let bad = *rng.pick(&["1.5", "true", "null", "\"s\""]);
        let t = match rng.below(14) {
            0 => format!("bytes.alloc({})", bad), 1 => format!("bytes.size({})", bad), 2 => format!("bytes.read_u8({}, 0)", bad),
            3 => format!("bytes.read_u32({}, {})", g, bad), 4 => format!("bytes.write_u16({}, 0, {})", g, bad), 5 => format!("bytes.write_u8({}, {}, 1)", g, bad),
            6 => format!("bytes.write_f64({}, 0, {})", g, *rng.pick(&["null", "true", "\"s\""])), 7 => format!("bytes.fill({}, 0, {}, 1)", g, bad),
            8 => format!("bytes.copy({}, 0, {}, 0, 1)", g, bad), 9 => format!("bytes.resize({}, {})", g, bad), 10 => format!("bytes.from_string({})", *rng.pick(&["1", "null", "2.5"])),
            11 => format!("bytes.write_string({}, 0, {})", g, *rng.pick(&["1", "null", "true"])), 12 => format!("bytes.free({})", *rng.pick(&["1.5", "true", "\"s\""])),
            _ => format!("bytes.swap({}, {}, 0)", g, bad),
        };
        // fs.read_bytes on something that is not an open file, or with a bad count: refused, nothing charged
        let t = if rng.chance(1, 4) { dist.hit("malformed:fs.read_bytes"); match rng.below(3) { 0 => format!("fsys.read_bytes({}, 4)", g), 1 => format!("fsys.read_bytes({}, -1)", g), _ => format!("fsys.read_bytes({}, 4)", fresh + 3) } } else { t };
        return BOp::NonInt(t);
    }
    let k = rng.below(12);
    if k == 0 { dist.hit("malformed:alloc");
        if rng.chance(1, 3) { dist.hit("malformed:alloc-size-alias-of-small"); let n = rng.range_i64(1, 16) as i128; return BOp::Alloc(({ let k0 = n; alias_of(rng, k0, true) } as i64).max(1 << 32)); }
        return BOp::Alloc(*rng.pick(&[0i64, -1, -7, MAX_ALLOC + 1, 1 << 40, (1 << 47) - 1])); }
    if k == 1 { dist.hit("malformed:free"); return match rng.below(6) { 0 => BOp::Free(A::Null), 1 => BOp::Free(A::Flt), _ => BOp::Free(A::I(bad_h(rng, dist) as i128)) }; }
    if live.is_empty() || k <= 4 {
        let h = bad_h(rng, dist);
        let (w, sg, be) = pick_acc(rng);
        return match rng.below(14) {
            12 => BOp::FsClose(h),
            13 => BOp::NetClose(h),
            6 => BOp::Clone(h),
            7 => { let g = live.first().cloned().unwrap_or(0); if rng.chance(1, 2) { BOp::Equals(h, g) } else { BOp::Equals(g, h) } }
            8 => BOp::Decode(h, 0, rng.range_i64(0, 1)),
            9 => BOp::WriteString(h, 0, *rng.pick(&STRINGS)),
            10 => BOp::Find(h, 0, -1, 0),
            11 => if rng.chance(1, 2) { BOp::Reverse(h, 0, rng.range_i64(0, 2)) } else { BOp::Swap(h, 0, 0) },
            0 => BOp::Read { w, kind: sg as u8, be, h, off: 0 },
            1 => BOp::Write { w, sg, be, h, off: 0, v: 1 },
            2 => BOp::Size(h),
            3 => BOp::Resize(h, 4),
            4 => { let g = live.first().cloned().unwrap_or(0); let n = rng.range_i64(0, 2); if rng.chance(1, 2) { BOp::Copy(h, 0, g, 0, n) } else { BOp::Copy(g, 0, h, 0, n) } }
            _ => BOp::Fill(h, 0, rng.range_i64(0, 2), 7),
        };
    }
    let h = *rng.pick(&live);
    let len = r.live[&h].len() as i64;
    let (w, sg, be) = pick_acc(rng);
    let bad_off = |rng: &mut Rng, dist: &mut Dist, w: i64| -> i64 {
        if len >= w && rng.chance(1, 3) { dist.hit("malformed:offset-alias-of-valid"); return { let k0 = rng.range_i64(0, len - w) as i128; alias_of(rng, k0, true) } as i64; }
        match rng.below(5) {
            0 | 1 => { dist.hit("malformed:width-straddling-offset"); rng.range_i64((len - w + 1).max(0), len) }
            2 => { dist.hit("malformed:offset-past-end"); len + rng.range_i64(1, 40) }
            3 => { dist.hit("malformed:offset-huge"); *rng.pick(&[(1i64 << 47) - 1, 1 << 32, (1 << 47) - 8]) }
            _ => { dist.hit("malformed:offset-negative"); -rng.range_i64(1, 9) }
        }
    };
    if rng.chance(1, 4) {
        dist.hit("malformed:other-api");
        return match rng.below(7) {
            0 => BOp::Decode(h, bad_off(rng, dist, 1), 1),
            1 => { let al = alias_of(rng, 1, true) as i64; BOp::Decode(h, 0, *rng.pick(&[len + 1, -1, al])) }
            2 => { let t = *rng.pick(&STRINGS[1..]); BOp::WriteString(h, bad_off(rng, dist, t.len() as i64), t) }
            3 => BOp::Find(h, *rng.pick(&[-1i64, -5]), -1, 0),
            4 => BOp::Find(h, 0, -1, *rng.pick(&[-1i64, 256, 1000])),
            5 => BOp::Reverse(h, bad_off(rng, dist, 2), 2),
            _ => if rng.chance(1, 2) { BOp::Swap(h, bad_off(rng, dist, 1), 0) } else { BOp::Swap(h, 0, bad_off(rng, dist, 1)) },
        };
    }
    if rng.chance(1, 6) {
        // float accessors at bad offsets
        let fw: u8 = if f32ok && rng.chance(1, 2) { 4 } else { 8 };
        dist.hit("malformed:float-accessor");
        return if rng.chance(1, 2) { BOp::Read { w: fw, kind: 2, be, h, off: bad_off(rng, dist, fw as i64) } }
               else { BOp::WriteF { w: fw, be, h, off: bad_off(rng, dist, fw as i64), lit: *rng.pick(&FLOATS) } };
    }
    match k {
        5 | 6 => BOp::Read { w, kind: sg as u8, be, h, off: bad_off(rng, dist, w as i64) },
        7 | 8 => BOp::Write { w, sg, be, h, off: bad_off(rng, dist, w as i64), v: val_in(rng, w, sg) },
        9 => { dist.hit("malformed:value-out-of-range"); let (lo, hi) = range_of(w, sg);
               let v = if w == 8 { return BOp::Fill(h, 0, rng.range_i64(0, len), *rng.pick(&[-1i64, 256, 1000])); } else if rng.chance(1, 2) { hi + 1 + rng.range_i64(0, 3) } else { lo - 1 - rng.range_i64(0, 3) };
               if (w as i64) > len { BOp::Fill(h, 0, 1, 256) } else { BOp::Write { w, sg, be, h, off: rng.range_i64(0, len - w as i64), v } } }
        10 => { dist.hit("malformed:copy"); let d = *rng.pick(&live); let dl = r.live[&d].len() as i64;
                match rng.below(7) { 0 => BOp::Copy(h, 0, d, 0, len.max(dl) + 1), 1 => BOp::Copy(h, len - 1, d, 0, 2), 2 => BOp::Copy(h, 0, d, dl - 1, 2), 3 => BOp::Copy(h, 0, d, 0, -1),
                    4 => { dist.hit("malformed:length-alias-of-valid"); BOp::Copy(h, 0, d, 0, { let k0 = rng.range_i64(1, len.min(dl).max(1)) as i128; alias_of(rng, k0, true) } as i64) }
                    5 => { dist.hit("malformed:offset-alias-of-valid"); BOp::Copy(h, { let k0 = 0; alias_of(rng, k0, true) } as i64, d, 0, 1) }
                    _ => { dist.hit("malformed:offset-alias-of-valid"); BOp::Copy(h, 0, d, { let k0 = 0; alias_of(rng, k0, true) } as i64, 1) } } }
        _ => { dist.hit("malformed:fill-resize"); match rng.below(6) { 0 => BOp::Fill(h, len - 1, 2, 1), 1 => BOp::Fill(h, 0, -1, 1), 2 => BOp::Resize(h, *rng.pick(&[0i64, -1, MAX_ALLOC + 1])),
                    3 => { dist.hit("malformed:length-alias-of-valid"); BOp::Fill(h, 0, { let k0 = rng.range_i64(1, len.max(1)) as i128; alias_of(rng, k0, true) } as i64, 1) }
                    4 => { dist.hit("malformed:alloc-size-alias-of-small"); BOp::Resize(h, ({ let k0 = rng.range_i64(1, 16) as i128; alias_of(rng, k0, true) } as i64).max(1 << 32)) }
                    _ => BOp::Fill(h, bad_off(rng, dist, 1), 1, 1) } }
    }
}

/// Boundary scenario at MAX_ALLOC (the value the translator read from the source is passed in): the
/// largest buffer must be allocatable and addressable up to its last byte, one more byte must not be.
/// Oracle only (a 256 MiB list is not something to evaluate inside Coq).
#[cfg(vbxq_aelys_lang_verif)]
pub fn limits(max_alloc: i64, dist: &mut Dist) {
    // byte buffers count against max_heap_bytes since 0d876af: give the VM room for one MAX_ALLOC buffer (not two)
    let mut vm = vmrun::new_vm((max_alloc as u64) + (max_alloc as u64) / 2);
    let (c, _, d) = vmrun::input(&mut vm, "needs std.bytes\n0", 1);
    if c != OK_VAL { println!("!HARNESS\tbytes prelude failed: {} {}", c, d); return; }
    let m = max_alloc;
    // (source, expected: Some(int) / None = error / Some(i64::MIN) = null)
    let null = i64::MIN;
    let steps: Vec<(String, Option<i64>)> = vec![
        (format!("bytes.alloc({})", m), Some(0)),
        ("bytes.clone(0)".into(), None),                       // a second MAX_ALLOC buffer does not fit the heap limit
        ("bytes.size(0)".into(), Some(m)),
        (format!("bytes.write_u8(0, {}, 7)", m - 1), Some(null)),
        (format!("bytes.read_u8(0, {})", m - 1), Some(7)),
        (format!("bytes.read_u8(0, {})", m), None),
        (format!("bytes.read_u16(0, {})", m - 1), None),
        (format!("bytes.write_u32(0, {}, 1)", m - 3), None),
        (format!("bytes.fill(0, {}, 4, 9)", m - 4), Some(null)),
        (format!("bytes.fill(0, {}, 4, 9)", m - 3), None),
        (format!("bytes.read_u8(0, {})", m - 1), Some(9)),
        ("bytes.resize(0, 16)".into(), Some(null)),
        ("bytes.size(0)".into(), Some(16)),
        ("bytes.read_u8(0, 16)".into(), None),
        (format!("bytes.resize(0, {})", m), Some(null)),
        (format!("bytes.read_u8(0, {})", m - 1), Some(0)),
        (format!("bytes.resize(0, {})", m + 1), None),
        ("bytes.size(0)".into(), Some(m)),
        ("bytes.free(0)".into(), Some(null)),
        (format!("bytes.alloc({})", m + 1), None),
        (format!("bytes.alloc({})", m), Some(0)),
        (format!("bytes.copy(0, 0, 0, {}, 2)", m - 2), Some(null)),
        (format!("bytes.copy(0, 0, 0, {}, 2)", m - 1), None),
        ("bytes.free(0)".into(), Some(null)),
        ("bytes.size(0)".into(), None),
    ];
    for (i, (src, want)) in steps.iter().enumerate() {
        let (c, bits, detail) = vmrun::input(&mut vm, src, 1);
        let v = Value::from_raw(bits);
        let got: Option<i64> = if c != OK_VAL { None } else if v.is_null() { Some(null) } else { v.as_int() };
        if c == E_COMPILE || c == PANIC { println!("!HARNESS\tinput `{}` -> class {}: {}", src, c, detail.replace('\n', " ")); }
        dist.hit("limits:steps");
        if got != *want {
            let what = if want.is_none() { "invalid-access-not-reported" } else if got.is_none() { "valid-access-rejected" } else { "wrong-result" };
            println!("!ORACLE\tbytes-oracle:limits:{}\t`{}` answered {:?}, expected {:?} (MAX_ALLOC = {}) {}\tstep {} of: {}", what, src, got, want, m, detail.replace('\t', " "), i,
                     steps[..=i].iter().map(|s| s.0.clone()).collect::<Vec<_>>().join("; "));
            return;
        }
    }
}

/// fs.read_bytes as a producer of byte buffers, beyond what one modelled operation can express: several reads on
/// one open file (the later ones short or at end of file), interleaved with frees; after every step
/// bytes_allocated() must be the total length of the live byte buffers.  Oracle only.
#[cfg(vbxq_aelys_lang_verif)]
pub fn fsread(dist: &mut Dist) {
    let d = fixture();
    let mut vm = vmrun::new_vm_trusted(64 << 20);
    let (c, _, e) = vmrun::input(&mut vm, "needs std.bytes\nneeds std.fs as fsys\n0", 1);
    if c != OK_VAL { println!("!HARNESS\tfsread prelude failed: {} {}", c, e); return; }
    // (source, expected length of the buffer the step creates (-1: none), frees handle (-1: none))
    let steps: Vec<(String, i64, i64)> = vec![
        (format!("let fa = fsys.open(\"{}/f10.bin\", \"r\")\nfa", d), -1, -1),          // handle 0 = the file
        ("fsys.read_bytes(0, 4)".into(), 4, -1),                                          // 1
        ("fsys.read_bytes(0, 1000000)".into(), 6, -1),                                    // 2: short read, 999 994 bytes to give back
        ("fsys.read_bytes(0, 1000000)".into(), 0, -1),                                    // 3: at end of file
        ("bytes.free(2)".into(), -1, 2),
        ("fsys.read_bytes(0, 0)".into(), 0, -1),                                          // reuses slot 2
        ("bytes.free(1)".into(), -1, 1),
        ("bytes.free(2)".into(), -1, 2),
        ("bytes.free(3)".into(), -1, 3),
        ("fsys.close(0)".into(), -1, -1),
        (format!("let fb = fsys.open(\"{}/f0.bin\", \"r\")\nfb", d), -1, -1),
        ("fsys.read_bytes(0, 16777216)".into(), 0, -1),                                   // MAX_BUF from an empty file
        ("fsys.close(0)".into(), -1, -1),
        (format!("let fc = fsys.open(\"{}/f100.bin\", \"r\")\nfc", d), -1, -1),
        ("fsys.read_bytes(0, 100)".into(), 100, -1),                                      // exact
        ("fsys.read_bytes(0, 1)".into(), 0, -1),
        ("fsys.close(0)".into(), -1, -1),
    ];
    let mut live: BTreeMap<i64, i64> = BTreeMap::new();
    for (i, (src, made, freed)) in steps.iter().enumerate() {
        let (c, bits, detail) = vmrun::input(&mut vm, src, 1);
        dist.hit("fsread:steps");
        let hist = || steps[..=i].iter().map(|s| s.0.replace('\n', " ")).collect::<Vec<_>>().join("; ");
        if c != OK_VAL { println!("!ORACLE\tbytes-oracle:fsread:valid-access-rejected\t`{}` failed: {}\tstep {} of: {}", src.replace('\n', " "), detail.replace('\t', " "), i, hist()); return; }
        if *made >= 0 {
            let h = Value::from_raw(bits).as_int().unwrap_or(-1);
            let got = match vm.get_resource(h as usize) { Some(aelys_runtime::Resource::ByteBuffer(b)) => b.data.len() as i64, _ => -1 };
            if got != *made { println!("!ORACLE\tbytes-oracle:fsread:wrong-result\t`{}` produced a buffer of {} bytes, expected {}\tstep {} of: {}", src, got, made, i, hist()); return; }
            live.insert(h, *made);
        }
        if *freed >= 0 { live.remove(freed); }
        let total: i64 = live.values().sum();
        let charged = vm.manual_heap().bytes_allocated() as i64;
        if charged != total {
            println!("!ORACLE\tbytes-oracle:accounting:after-fs_read_bytes-sequence\tafter `{}`: bytes_allocated() = {}, live byte buffers total {} bytes\tstep {} of: {}", src.replace('\n', " "), charged, total, i, hist());
            return;
        }
    }
}

/// Resources of different kinds in one table: an operation of one module applied to a handle of another
/// kind must be refused (or be the documented no-op) and must leave that resource alive.  Oracle only.
#[cfg(vbxq_aelys_lang_verif)]
pub fn crossres(dist: &mut Dist) {
    let mut vm = vmrun::new_vm_trusted(64 << 20);
    let (c, _, d) = vmrun::input(&mut vm, "needs std.bytes\nneeds std.fs as fsys\nneeds std.net as netw\nneeds std.time as tm\n0", 1);
    if c != OK_VAL { println!("!HARNESS\tcrossres prelude failed: {} {}", c, d); return; }
    // expectation: 'o' ok (any value), 'e' error, '=' ok with exactly this int, 'a' any
    let steps: Vec<(&str, char, i64)> = vec![
        ("tm.timer()", '=', 0),
        ("bytes.alloc(4)", '=', 1),
        ("bytes.write_u8(1, 0, 7)", 'o', 0),
        ("bytes.free(0)", 'e', 0),                 // a timer is not a byte buffer ...
        ("tm.elapsed_us(0)", 'o', 0),              // ... and must still be a timer afterwards
        ("fsys.close(0)", 'e', 0),
        ("tm.elapsed_us(0)", 'o', 0),
        ("netw.close(0)", 'a', 0),
        ("tm.elapsed_us(0)", 'o', 0),
        ("fsys.close(1)", 'e', 0),                 // a byte buffer is not a file ...
        ("bytes.read_u8(1, 0)", '=', 7),           // ... and must still be there
        ("netw.close(1)", 'a', 0),
        ("bytes.read_u8(1, 0)", '=', 7),
        ("tm.elapsed_us(1)", 'e', 0),
        ("bytes.size(0)", 'e', 0),
        ("bytes.read_u8(1, 0)", '=', 7),
        ("bytes.free(1)", 'o', 0),
        ("bytes.free(1)", 'e', 0),
        ("tm.elapsed_us(0)", 'o', 0),
        // one counter for manual slots (8 bytes each) and byte buffers (1 byte each); timers are not charged
        ("#charge", '#', 0),
        ("bytes.alloc(10)", '=', 1),
        ("alloc(3)", '=', 0),
        ("#charge", '#', 34),
        ("bytes.clone(1)", '=', 2),
        ("#charge", '#', 44),
        ("bytes.clone(7)", 'e', 0),
        ("#charge", '#', 44),
        ("free(0)", 'o', 0),
        ("#charge", '#', 20),
        ("bytes.resize(1, 4)", 'o', 0),
        ("#charge", '#', 14),
        ("bytes.resize(1, 40)", 'o', 0),
        ("#charge", '#', 50),
        ("bytes.from_string(\"hello\")", '=', 3),
        ("#charge", '#', 55),
        ("bytes.free(1)", 'o', 0),
        ("bytes.free(2)", 'o', 0),
        ("bytes.free(3)", 'o', 0),
        ("#charge", '#', 0),
    ];
    for (i, (src, want, n)) in steps.iter().enumerate() {
        if *want == '#' {
            let got = vm.manual_heap().bytes_allocated() as i64;
            if got != *n {
                println!("!ORACLE\tbytes-oracle:crossres:shared-counter\tbytes_allocated() = {}, live manual slots and byte buffers total {} bytes\tstep {} of: {}", got, n, i,
                         steps[..=i].iter().map(|s| s.0).collect::<Vec<_>>().join("; "));
                return;
            }
            continue;
        }
        let (c, bits, detail) = vmrun::input(&mut vm, src, 1);
        dist.hit("crossres:steps");
        if c == E_COMPILE || c == PANIC { println!("!HARNESS\tinput `{}` -> class {}: {}", src, c, detail.replace('\n', " ")); return; }
        let ok = c == OK_VAL;
        let bad = match want { 'o' => !ok, 'e' => ok, '=' => !ok || Value::from_raw(bits).as_int() != Some(*n), _ => false };
        if bad {
            let what = if *want == 'e' { "wrong-kind-handle-accepted" } else { "resource-destroyed-by-refused-call" };
            println!("!ORACLE\tbytes-oracle:crossres:{}\t`{}` answered {} ({}), expected {}{}\tstep {} of: {}", what, src, if ok { "ok" } else { "error" }, detail.replace('\t', " "),
                     want, if *want == '=' { format!(" {}", n) } else { String::new() }, i, steps[..=i].iter().map(|s| s.0).collect::<Vec<_>>().join("; "));
            return;
        }
    }
}

#[cfg(vbxq_aelys_lang_verif)]
pub fn main(seed: u64, hist: u64, maxlen: u64, replay: Option<String>, dist: &mut Dist) {
    use aelys_runtime::Resource;
    let fixed = replay.as_ref().map(|t| parse_bops(t));
    for hidx in 0..(if fixed.is_some() { 1 } else { hist }) {
        let mut rng = Rng::new(seed.wrapping_mul(1_000_003).wrapping_add(hidx).wrapping_add(3 << 40));
        let len = match rng.below(4) { 0 => 1 + rng.below(8), 1 => 1 + rng.below(40), _ => 1 + rng.below(maxlen) } as usize;
        let len = fixed.as_ref().map(|f| f.len()).unwrap_or(len);
        let opt = rng.below(4) as u32;
        let f32ok = hidx % 4 == 3;
        let mut vm = vmrun::new_vm_trusted(64 << 20);
        let (c, _, d) = vmrun::input(&mut vm, "needs std.bytes\nneeds std.fs as fsys\nneeds std.net as netw\n0", opt);
        if c != OK_VAL { println!("!HARNESS\tbytes prelude failed: {} {}", c, d); return; }
        let mut r = RefB::default();
        let mut ops: Vec<BOp> = Vec::new();
        let mut obs: Vec<i128> = Vec::new();
        let mut findings: Vec<(usize, String, String)> = Vec::new();
        for i in 0..len {
            let op = match &fixed { Some(f) => f[i].clone(), None => gen_bop(&mut rng, &r, f32ok, dist) };
            let text = src(&op);
            if flag("--trace") { eprintln!("#STEP\tbytes\t{}\t{}", i, text); }
            let (c, bits, detail) = vmrun::input(&mut vm, &text, opt);
            if c == PANIC {
                // a panic inside the implementation is a failure of the property's "reported as an error", with this input
                findings.push((i, format!("bytes-oracle:{}:panic", op_kind(&op)), format!("`{}` panicked: {}", text, detail.replace('\n', " ").replace('\t', " "))));
            } else if c == E_COMPILE || (c != OK_VAL && c != E_TYPE && c != E_OOM) {
                println!("!HARNESS\tinput `{}` (opt {}) -> class {}: {}", text, opt, c, detail.replace('\n', " ").replace('\t', " "));
            }
            let v = Value::from_raw(bits);
            let mut decoded: Vec<u8> = Vec::new();
            // canonical observation: 0 int, 1 unit, 2 word, 9 error
            let (code, val): (i64, i128) = if c != OK_VAL { (9, 0) } else {
                match &op {
                    BOp::Alloc(_) | BOp::Size(_) | BOp::Clone(_) | BOp::FromString(_) | BOp::WriteString(..) | BOp::Find(..) | BOp::ReadFile { .. } => match v.as_int() { Some(n) => (0, n as i128), None => (2, bits as i128) },
                    BOp::Read { .. } | BOp::Equals(..) => (2, bits as i128),
                    BOp::Decode(..) => { let t = vm.value_to_string(v); decoded = t.as_bytes().to_vec();
                        let mut acc: i128 = 1; for b in t.as_bytes().iter().rev() { acc = acc * 256 + *b as i128; } (3, acc) }
                    _ => if v.is_null() { (1, 0) } else { (2, bits as i128) },
                }
            };
            let want = ref_step(&mut r, &op);
            let sig = |what: &str| format!("bytes-oracle:{}:{}", op_kind(&op), what);
            match (&want, code) {
                (Want::Any, _) => {}
                (Want::Err, 9) => {}
                (Want::Err, _) => findings.push((i, sig("invalid-access-not-reported"), format!("`{}` answered ok ({}, {})", text, code, val))),
                (_, 9) => findings.push((i, sig("valid-access-rejected"), format!("`{}` failed: {}", text, detail))),
                (Want::Unit, 1) => {}
                (Want::Int(n), 0) if *n as i128 == val => {}
                (Want::Word(w), 2) if *w as i128 == val => {}
                (Want::Str(t), 3) if *t == decoded => {}
                (Want::FreshHandleWith(d), 0) => {
                    let h = val as i64;
                    if h < 0 || r.live.contains_key(&h) { findings.push((i, sig("handle-not-fresh"), format!("`{}` returned live handle {}", text, h))); }
                    else { r.dead.remove(&h); r.live.insert(h, d.clone()); }
                }
                (Want::FreshHandle, 0) => {
                    let h = val as i64;
                    if h < 0 || r.live.contains_key(&h) { findings.push((i, sig("handle-not-fresh"), format!("`{}` returned live handle {}", text, h))); }
                    else if let BOp::Alloc(n) = &op { r.dead.remove(&h); r.live.insert(h, vec![0u8; *n as usize]); }
                }
                (w, _) => findings.push((i, sig("wrong-result"), format!("`{}` answered ({}, {}), the reference says {:?}", text, code, val, w))),
            }
            // whole-state comparison: every handle up to the largest ever seen + 2
            let top = r.live.keys().chain(r.dead.iter()).max().cloned().unwrap_or(0) + 2;
            for h in 0..=top {
                let got = match vm.get_resource(h as usize) { Some(Resource::ByteBuffer(b)) => Some(&b.data), _ => None };
                let exp = r.live.get(&h);
                if got != exp {
                    findings.push((i, format!("bytes-oracle:state:buffer-{}-after-{}", if exp.is_none() { "appeared" } else if got.is_none() { "vanished" } else { "changed" }, op_kind(&op)),
                                   format!("after `{}`: handle {} holds {:?}, reference {:?}", text, h, got, exp)));
                    break;
                }
            }
            let detail_kind = match &op { BOp::Read { w, kind, be, .. } => format!("read_{}{}{}", ["u", "i", "f"][*kind as usize], *w as u32 * 8, if *be { "_be" } else { "" }),
                BOp::Write { w, sg, be, .. } => format!("write_{}{}{}", if *sg { "i" } else { "u" }, *w as u32 * 8, if *be { "_be" } else { "" }),
                BOp::WriteF { w, be, .. } => format!("write_f{}{}", *w as u32 * 8, if *be { "_be" } else { "" }), _ => op_kind(&op).to_string() };
            dist.hit(&format!("outcome:{}:{}", detail_kind, if code == 9 { "err" } else { "ok" }));
            // the counter the heap limit is checked against: one byte per byte of every live buffer (no manual slots here)
            let charged = vm.manual_heap().bytes_allocated() as u64;
            let want_charge: u64 = r.live.values().map(|d| d.len() as u64).sum();
            if charged != want_charge {
                findings.push((i, format!("bytes-oracle:accounting:after-{}-{}", op_kind(&op), if code == 9 { "error" } else { "ok" }),
                               format!("after `{}`: bytes_allocated() = {}, live byte buffers total {} bytes", text, charged, want_charge)));
            }
            obs.push(code as i128);
            obs.push(val);
            obs.push(charged as i128);
            ops.push(op);
        }
        let has_f32 = ops.iter().any(|o| matches!(o, BOp::WriteF { w: 4, .. } | BOp::Read { w: 4, kind: 2, .. }));
        if has_f32 { dist.hit("history-with-f32-accessors"); }
        println!("{}QBytes [{}]\t{}\t{}", "", ops.iter().map(coq).collect::<Vec<_>>().join("; "), obs.iter().map(|x| x.to_string()).collect::<Vec<_>>().join(" "),
                 ops.iter().map(src).collect::<Vec<_>>().join("; "));
        let first = findings.iter().map(|f| f.0).min();
        let mut seen = BTreeSet::new();
        for (i, sig, d) in findings {
            if Some(i) != first || !seen.insert(sig.clone()) { continue; }
            println!("!ORACLE\t{}\t{}\tstep {} of: {}", sig, d.replace('\t', " "), i, ops[..=i].iter().map(src).collect::<Vec<_>>().join("; "));
        }
        dist.hit(&format!("history-length:{}", match ops.len() { 0..=8 => "1-8", 9..=40 => "9-40", 41..=100 => "41-100", _ => "101+" }));
    }
}
#[cfg(not(vbxq_aelys_lang_verif))]
pub fn main(_seed: u64, _hist: u64, _maxlen: u64, _replay: Option<String>, _dist: &mut Dist) {}
