//! C17 harness: runs the real `lower` + `compute_layouts` + `monomorphize` (the calls made by
//! AirLowerStage) under catch_unwind on generated type-correct programs and prints
//!   SRC  <case> <escaped source>
//!   SK   <case> <mode> <Coq skeleton term> <canonical block structure of lower()'s output>
//!   MO   <case> <mode> <Coq mono-model program> <canonical observation of monomorphize()'s output>
//!   V    <case> <mode> <stage> <pre-mono fn index> <fn name> <kind> <detail>    (independent validator)
//!   PANIC/REJ/STAT lines.
//! The validator (mod validate) never looks at the model: it is the property's own oracle.
use aelys_air::*;
use aelys_sema::{
    InferType, TypedExpr, TypedExprKind, TypedFmtStringPart, TypedFunction, TypedProgram, TypedStmt,
    TypedStmtKind,
};
use hxlib::runner::{esc, unesc};
use hxlib::*;
use std::collections::{BTreeMap, HashMap};

// ------------------------------------------------------------------------------------------
// front end
fn ann_mentions(a: &aelys_syntax::TypeAnnotation, n: &str) -> bool {
    a.name == n
        || a.type_param.as_ref().is_some_and(|i| ann_mentions(i, n))
        || a.fn_params.as_ref().is_some_and(|ps| ps.iter().any(|p| ann_mentions(p, n)))
        || a.fn_ret.as_ref().is_some_and(|r| ann_mentions(r, n))
}

/// generic functions of the SOURCE with a type parameter written in none of their parameter annotations
fn source_uninferable(stmts: &[aelys_syntax::Stmt], out: &mut Vec<String>) {
    use aelys_syntax::StmtKind as K;
    for s in stmts {
        match &s.kind {
            K::Function(f) => {
                if f.type_params.iter().any(|tp| !f.params.iter().any(|p| p.type_annotation.as_ref().is_some_and(|a| ann_mentions(a, tp)))) {
                    out.push(f.name.clone());
                }
                source_uninferable(&f.body, out);
            }
            K::Block(b) => source_uninferable(b, out),
            K::If { then_branch, else_branch, .. } => {
                source_uninferable(std::slice::from_ref(then_branch), out);
                if let Some(e) = else_branch {
                    source_uninferable(std::slice::from_ref(e), out);
                }
            }
            K::While { body, .. } | K::For { body, .. } | K::ForEach { body, .. } => source_uninferable(std::slice::from_ref(body), out),
            _ => {}
        }
    }
}

thread_local! {
    static SOURCE_UNINFERABLE: std::cell::RefCell<Vec<String>> = std::cell::RefCell::new(Vec::new());
}

fn front(code: &str) -> Result<TypedProgram, String> {
    use aelys_frontend::lexer::Lexer;
    use aelys_frontend::parser::Parser;
    let src = aelys_syntax::Source::new("<verif>", code);
    let tokens = Lexer::with_source(src.clone()).scan().map_err(|e| format!("lex: {}", e))?;
    let ast = Parser::new(tokens, src.clone()).parse().map_err(|e| format!("parse: {}", e))?;
    let mut un = Vec::new();
    source_uninferable(&ast, &mut un);
    SOURCE_UNINFERABLE.with(|c| *c.borrow_mut() = un);
    aelys_sema::TypeInference::infer_program(ast, src)
        .map_err(|es| format!("sema: {}", es.iter().map(|e| format!("{}", e)).collect::<Vec<_>>().join("; ")))
}

// ------------------------------------------------------------------------------------------
// typed AST -> skeleton term of Model/AirLower.v
struct Names(HashMap<String, u32>);
impl Names {
    fn id(&mut self, s: &str) -> u32 {
        let n = self.0.len() as u32;
        *self.0.entry(s.to_string()).or_insert(n)
    }
}

fn nlist(v: &[u32]) -> String {
    format!("[{}]", v.iter().map(|x| x.to_string()).collect::<Vec<_>>().join(";"))
}

fn sk_exprs(es: Vec<String>) -> String {
    let mut s = String::from("ENil");
    for e in es.into_iter().rev() {
        s = format!("(ECons {} {})", e, s);
    }
    s
}

fn sk_stmts(ss: Vec<String>) -> String {
    let mut s = String::from("SNil");
    for e in ss.into_iter().rev() {
        s = format!("(SCons {} {})", e, s);
    }
    s
}

fn op(parts: Vec<String>) -> String {
    format!("(EOp KTmp {})", sk_exprs(parts))
}
fn opk(kind: &str, parts: Vec<String>) -> String {
    format!("(EOp {} {})", kind, sk_exprs(parts))
}

/// a call: `void` = statement-level call of type null (lower_expr_discard emits CallVoid)
fn sk_call(callee: &TypedExpr, args: &[TypedExpr], void: bool, nm: &mut Names) -> String {
    use TypedExprKind as K;
    let mut parts: Vec<String> = args.iter().map(|a| sk_expr(a, nm)).collect();
    let named = match &callee.kind {
        K::Identifier(_) => true,
        K::Member { object, .. } => matches!(object.kind, K::Identifier(_)),
        _ => false,
    };
    if named {
        opk(if void { "KVoid" } else { "KTmp" }, parts)
    } else {
        parts.push(sk_expr(callee, nm));
        opk(if void { "(KCall true)" } else { "(KCall false)" }, parts)
    }
}

fn sk_fn(caps: &[(String, InferType)], params: &[aelys_sema::TypedParam], body: &[TypedStmt], nm: &mut Names) -> (String, String, String) {
    let c: Vec<u32> = caps.iter().map(|(n, _)| nm.id(n)).collect();
    let p: Vec<u32> = params.iter().map(|p| nm.id(&p.name)).collect();
    let b = sk_stmts(body.iter().map(|s| sk_stmt(s, nm)).collect());
    (nlist(&c), nlist(&p), b)
}

fn sk_expr(e: &TypedExpr, nm: &mut Names) -> String {
    use TypedExprKind as K;
    match &e.kind {
        K::Int(_) | K::Float(_) | K::Bool(_) | K::String(_) | K::Null => "EAtom".into(),
        K::Identifier(n) => format!("(EIdent {})", nm.id(n)),
        K::Binary { left, right, .. } => op(vec![sk_expr(left, nm), sk_expr(right, nm)]),
        K::Unary { operand, .. } => op(vec![sk_expr(operand, nm)]),
        K::And { left, right } => format!("(EShort true {} {})", sk_expr(left, nm), sk_expr(right, nm)),
        K::Or { left, right } => format!("(EShort false {} {})", sk_expr(left, nm), sk_expr(right, nm)),
        K::Call { callee, args } => sk_call(callee, args, false, nm),
        K::Assign { name, value } => {
            let v = sk_expr(value, nm);
            let k = format!("(KAssign {})", nm.id(name));
            opk(&k, vec![v])
        }
        K::Grouping(i) | K::Lambda(i) => sk_expr(i, nm),
        K::If { condition, then_branch, else_branch } => format!(
            "(EIfE {} {} {})",
            sk_expr(condition, nm),
            sk_expr(then_branch, nm),
            sk_expr(else_branch, nm)
        ),
        K::LambdaInner { params, body, captures, .. } => {
            let (c, p, b) = sk_fn(captures, params, body, nm);
            format!("(ELam {} {} {})", c, p, b)
        }
        K::FmtString(parts) => {
            let mut sub = Vec::new();
            for p in parts {
                if let TypedFmtStringPart::Expr(x) = p {
                    let inner = sk_expr(x, nm);
                    if matches!(x.ty, InferType::String) {
                        sub.push(inner);
                    } else {
                        sub.push(op(vec![inner]));
                    }
                }
            }
            if parts.len() >= 2 {
                let k = format!("(KConcat {})", parts.len() - 1);
                opk(&k, sub)
            } else {
                opk("KPass", sub)
            }
        }
        K::Member { object, .. } => op(vec![sk_expr(object, nm)]),
        K::StructLiteral { fields, .. } => op(fields.iter().map(|(_, v)| sk_expr(v, nm)).collect()),
        K::ArrayLiteral { elements, .. } | K::VecLiteral { elements, .. } => {
            op(elements.iter().map(|v| sk_expr(v, nm)).collect())
        }
        K::ArraySized { size, .. } => op(vec![sk_expr(size, nm)]),
        K::Index { object, index } => op(vec![sk_expr(object, nm), sk_expr(index, nm)]),
        K::IndexAssign { object, index, value } => {
            opk("KVoid", vec![sk_expr(object, nm), sk_expr(index, nm), sk_expr(value, nm)])
        }
        K::Range { start, end, .. } => {
            let mut v = Vec::new();
            if let Some(s) = start {
                v.push(sk_expr(s, nm));
            }
            if let Some(s) = end {
                v.push(sk_expr(s, nm));
            }
            op(v)
        }
        K::Slice { object, range } => op(vec![sk_expr(object, nm), sk_expr(range, nm)]),
        K::Cast { expr, .. } => op(vec![sk_expr(expr, nm)]),
    }
}

fn sk_stmt(s: &TypedStmt, nm: &mut Names) -> String {
    use TypedStmtKind as K;
    match &s.kind {
        K::Expression(e) => match &e.kind {
            TypedExprKind::Call { callee, args } if matches!(e.ty, InferType::Null) => {
                format!("(SExpr {})", sk_call(callee, args, true, nm))
            }
            _ => format!("(SExpr {})", sk_expr(e, nm)),
        },
        K::Let { name, initializer, .. } => {
            let id = nm.id(name);
            format!("(SLet {} {})", id, sk_expr(initializer, nm))
        }
        K::Block(v) => format!("(SBlock {})", sk_stmts(v.iter().map(|s| sk_stmt(s, nm)).collect())),
        K::If { condition, then_branch, else_branch } => match else_branch {
            None => format!("(SIf {} {})", sk_expr(condition, nm), sk_stmt(then_branch, nm)),
            Some(e) => format!(
                "(SIfElse {} {} {})",
                sk_expr(condition, nm),
                sk_stmt(then_branch, nm),
                sk_stmt(e, nm)
            ),
        },
        K::While { condition, body } => format!("(SWhile {} {})", sk_expr(condition, nm), sk_stmt(body, nm)),
        K::For { iterator, start, end, step, body, .. } => {
            let id = nm.id(iterator);
            let st = match step.as_ref() {
                Some(x) => sk_expr(x, nm),
                None => "EAtom".into(),
            };
            format!("(SFor {} {} {} {} {})", id, sk_expr(start, nm), sk_expr(end, nm), st, sk_stmt(body, nm))
        }
        K::ForEach { iterator, iterable, body, .. } => {
            let id = nm.id(iterator);
            format!("(SForEach {} {} {})", id, sk_expr(iterable, nm), sk_stmt(body, nm))
        }
        K::Return(None) => "SRet".into(),
        K::Return(Some(e)) => format!("(SRetE {})", sk_expr(e, nm)),
        K::Break => "SBreak".into(),
        K::Continue => "SContinue".into(),
        K::Function(f) => {
            let (c, p, b) = sk_fn(&f.captures, &f.params, &f.body, nm);
            format!("(SFn {} {} {})", c, p, b)
        }
        K::Needs(_) | K::StructDecl { .. } => "SNop".into(),
    }
}

fn sk_program(p: &TypedProgram) -> String {
    let mut nm = Names(HashMap::new());
    sk_stmts(
        p.stmts
            .iter()
            .map(|s| match &s.kind {
                TypedStmtKind::Function(_) => sk_stmt(s, &mut nm),
                _ => "SNop".into(),
            })
            .collect(),
    )
}

// ------------------------------------------------------------------------------------------
// canonical block structure of the real output: ids renamed by first appearance
fn term_targets(t: &AirTerminator) -> (u32, Vec<u32>) {
    match t {
        AirTerminator::Return(_) => (0, vec![]),
        AirTerminator::Goto(b) => (1, vec![b.0]),
        AirTerminator::Branch { then_block, else_block, .. } => (2, vec![then_block.0, else_block.0]),
        AirTerminator::Switch { targets, default, .. } => {
            let mut v: Vec<u32> = targets.iter().map(|(_, b)| b.0).collect();
            v.push(default.0);
            (3, v)
        }
        AirTerminator::Invoke { normal, unwind, .. } => (4, vec![normal.0, unwind.0]),
        AirTerminator::Unwind => (5, vec![]),
        AirTerminator::Unreachable => (6, vec![]),
        AirTerminator::Panic { .. } => (7, vec![]),
    }
}

/// returns (canonical rows, raw id -> canonical id)
fn canon_fn(f: &AirFunction) -> (Vec<Vec<u32>>, Vec<(u32, u32)>) {
    let mut m: Vec<(u32, u32)> = Vec::new();
    let mut ren = |x: u32, m: &mut Vec<(u32, u32)>| -> u32 {
        if let Some(&(_, y)) = m.iter().find(|(a, _)| *a == x) {
            y
        } else {
            let y = m.len() as u32;
            m.push((x, y));
            y
        }
    };
    let mut rows = Vec::new();
    for b in &f.blocks {
        let (k, ts) = term_targets(&b.terminator);
        let mut row = vec![ren(b.id.0, &mut m), k];
        for t in ts {
            row.push(ren(t, &mut m));
        }
        rows.push(row);
    }
    (rows, m)
}

fn rows_term(rows: &[Vec<u32>]) -> String {
    format!("[{}]", rows.iter().map(|r| nlist(r)).collect::<Vec<_>>().join(";"))
}

// ------------------------------------------------------------------------------------------
// the property's oracle, written against the AirProgram data structure only
mod validate {
    use super::*;

    pub struct Finding {
        pub fn_id: u32,
        pub fn_name: String,
        pub kind: String,
        pub detail: String,
    }

    fn ty_structs(t: &AirType, out: &mut Vec<String>) {
        match t {
            AirType::Struct(n) => out.push(n.clone()),
            AirType::Ptr(i) | AirType::Slice(i) | AirType::Array(i, _) => ty_structs(i, out),
            AirType::FnPtr { params, ret, .. } => {
                for p in params {
                    ty_structs(p, out);
                }
                ty_structs(ret, out);
            }
            _ => {}
        }
    }
    pub fn ty_has_param(t: &AirType) -> bool {
        match t {
            AirType::Param(_) => true,
            AirType::Ptr(i) | AirType::Slice(i) | AirType::Array(i, _) => ty_has_param(i),
            AirType::FnPtr { params, ret, .. } => params.iter().any(ty_has_param) || ty_has_param(ret),
            _ => false,
        }
    }

    #[derive(Default)]
    struct Mentions {
        locals: Vec<u32>,
        types: Vec<AirType>,
        inits: Vec<String>,
        calls: Vec<(String, Vec<Operand>)>,
    }
    fn m_const(c: &AirConst, m: &mut Mentions) {
        if let AirConst::ZeroInit(t) | AirConst::Undef(t) = c {
            m.types.push(t.clone());
        }
    }
    fn m_op(o: &Operand, m: &mut Mentions) {
        match o {
            Operand::Copy(l) | Operand::Move(l) => m.locals.push(l.0),
            Operand::Const(c) => m_const(c, m),
        }
    }
    fn m_place(p: &Place, m: &mut Mentions) {
        match p {
            Place::Local(l) | Place::Field(l, _) | Place::Deref(l) => m.locals.push(l.0),
            Place::Index(l, o) => {
                m.locals.push(l.0);
                m_op(o, m);
            }
        }
    }
    fn m_callee(c: &Callee, args: &[Operand], m: &mut Mentions) {
        match c {
            Callee::FnPtr(l) => m.locals.push(l.0),
            Callee::Named(n) => m.calls.push((n.clone(), args.to_vec())),
            _ => {}
        }
        for a in args {
            m_op(a, m);
        }
    }
    fn m_rvalue(r: &Rvalue, m: &mut Mentions) {
        match r {
            Rvalue::Use(o) | Rvalue::UnaryOp(_, o) | Rvalue::Deref(o) | Rvalue::Discriminant(o) => m_op(o, m),
            Rvalue::BinaryOp(_, a, b) => {
                m_op(a, m);
                m_op(b, m);
            }
            Rvalue::Call { func, args } => m_callee(func, args, m),
            Rvalue::StructInit { name, fields } => {
                m.inits.push(name.clone());
                for (_, o) in fields {
                    m_op(o, m);
                }
            }
            Rvalue::FieldAccess { base, .. } => m_op(base, m),
            Rvalue::AddressOf(l) => m.locals.push(l.0),
            Rvalue::Cast { operand, from, to } => {
                m_op(operand, m);
                m.types.push(from.clone());
                m.types.push(to.clone());
            }
        }
    }
    pub fn local_counts(f: &AirFunction) -> [usize; 4] {
        let m = mentions(f);
        let mut d: Vec<u32> = Vec::new();
        for l in &m.locals {
            if !d.contains(l) {
                d.push(*l);
            }
        }
        let undeclared = d.iter().filter(|l| !f.locals.iter().any(|x| x.id.0 == **l) && !f.params.iter().any(|x| x.id.0 == **l)).count();
        [f.params.len(), f.locals.len(), d.len(), undeclared]
    }

    fn mentions(f: &AirFunction) -> Mentions {
        let mut m = Mentions::default();
        for b in &f.blocks {
            for s in &b.stmts {
                match &s.kind {
                    AirStmtKind::Assign { place, rvalue } => {
                        m_place(place, &mut m);
                        m_rvalue(rvalue, &mut m);
                    }
                    AirStmtKind::GcAlloc { local, ty, .. } | AirStmtKind::Alloc { local, ty } => {
                        m.locals.push(local.0);
                        m.types.push(ty.clone());
                    }
                    AirStmtKind::GcDrop(l) | AirStmtKind::Free(l) => m.locals.push(l.0),
                    AirStmtKind::CallVoid { func, args } => m_callee(func, args, &mut m),
                    _ => {}
                }
            }
            match &b.terminator {
                AirTerminator::Return(Some(o)) => m_op(o, &mut m),
                AirTerminator::Branch { cond, .. } => m_op(cond, &mut m),
                AirTerminator::Switch { discr, targets, .. } => {
                    m_op(discr, &mut m);
                    for (c, _) in targets {
                        m_const(c, &mut m);
                    }
                }
                AirTerminator::Invoke { func, args, ret, .. } => {
                    m_callee(func, args, &mut m);
                    m_place(ret, &mut m);
                }
                _ => {}
            }
        }
        m
    }

    /// structural clauses (before or after monomorphisation)
    pub fn structural(p: &AirProgram, tp_names: &[String], generic_ids: &[u32], declared_structs: &[String], toplevel_nested: &[String], declared_before_opt: &[String], out: &mut Vec<Finding>) {
        for f in &p.functions {
            let mut add = |kind: &str, detail: String| {
                out.push(Finding { fn_id: f.id.0, fn_name: f.name.clone(), kind: kind.into(), detail })
            };
            if f.is_extern {
                continue;
            }
            if f.blocks.is_empty() {
                add("no-entry-block", String::new());
            }
            let (_, cmap) = canon_fn(f);
            let cid = |x: u32| cmap.iter().find(|(a, _)| *a == x).map(|(_, y)| *y).unwrap_or(u32::MAX);
            let ids: Vec<u32> = f.blocks.iter().map(|b| b.id.0).collect();
            for (i, id) in ids.iter().enumerate() {
                if ids[..i].contains(id) {
                    add("duplicate-block-id", format!("{}", cid(*id)));
                }
            }
            let mut seen_dangling = Vec::new();
            for b in &f.blocks {
                let (_, ts) = term_targets(&b.terminator);
                for t in ts {
                    if !ids.contains(&t) && !seen_dangling.contains(&t) {
                        seen_dangling.push(t);
                        add("dangling-target", format!("{}", cid(t)));
                    }
                }
            }
            // locals: every mention declared, every declaration of an id agrees on the type
            let mut decl: BTreeMap<u32, Vec<AirType>> = BTreeMap::new();
            for p in &f.params {
                decl.entry(p.id.0).or_default().push(p.ty.clone());
            }
            let mut local_ids = Vec::new();
            for l in &f.locals {
                if local_ids.contains(&l.id.0) {
                    add("local-declared-twice", format!("%{}", l.id.0));
                }
                local_ids.push(l.id.0);
                decl.entry(l.id.0).or_default().push(l.ty.clone());
            }
            for (id, tys) in &decl {
                if tys.iter().any(|t| t != &tys[0]) {
                    add("local-type-conflict", format!("%{}", id));
                }
            }
            let m = mentions(f);
            let mut und = Vec::new();
            for l in &m.locals {
                if !decl.contains_key(l) && !und.contains(l) {
                    und.push(*l);
                    add("local-undeclared", format!("%{}", l));
                }
            }
            // structs named exist
            let mut named = Vec::new();
            ty_structs(&f.ret_ty, &mut named);
            for p in &f.params {
                ty_structs(&p.ty, &mut named);
            }
            for l in &f.locals {
                ty_structs(&l.ty, &mut named);
            }
            for t in &m.types {
                ty_structs(t, &mut named);
            }
            let mut reported = Vec::new();
            for n in named {
                if !p.structs.iter().any(|s| s.name == n) && !reported.contains(&n) {
                    reported.push(n.clone());
                    if tp_names.contains(&n) {
                        let in_generic = generic_ids.contains(&f.id.0);
                        add(if in_generic { "struct-missing-type-param-name:in-generic" } else { "struct-missing-type-param-name:in-caller" }, n);
                    } else {
                        add("struct-missing-type", n);
                    }
                }
            }
            for n in &m.inits {
                if !p.structs.iter().any(|s| &s.name == n) && !reported.contains(n) {
                    reported.push(n.clone());
                    add(
                        if n.starts_with("__mono_") {
                            "struct-missing-init-renamed"
                        } else if !declared_structs.contains(n) && declared_before_opt.contains(n) {
                            // declared in the program type inference saw, gone after the optimizer
                            "struct-missing-init:declaration-removed-by-optimizer"
                        } else if !declared_structs.contains(n) {
                            // the source declares no such struct anywhere: type inference let it through
                            "struct-missing-init-undeclared"
                        } else if toplevel_nested.contains(n) {
                            // declared inside a top-level block / if / loop, outside every function
                            "struct-missing-init:declared-in-toplevel-statement"
                        } else {
                            "struct-missing-init"
                        },
                        n.clone(),
                    );
                }
            }
        }
        // struct field types name existing structs
        for s in &p.structs {
            let mut named = Vec::new();
            for fl in &s.fields {
                ty_structs(&fl.ty, &mut named);
            }
            for n in named {
                if !p.structs.iter().any(|x| x.name == n) {
                    out.push(Finding { fn_id: u32::MAX, fn_name: format!("struct {}", s.name), kind: "struct-missing-field-type".into(), detail: n });
                }
            }
        }
    }

    fn operand_ty(o: &Operand, f: &AirFunction) -> Option<AirType> {
        match o {
            Operand::Const(c) => Some(match c {
                AirConst::IntLiteral(_) => AirType::I64,
                AirConst::Int(_, s) => match s {
                    AirIntSize::I8 => AirType::I8,
                    AirIntSize::I16 => AirType::I16,
                    AirIntSize::I32 => AirType::I32,
                    AirIntSize::I64 => AirType::I64,
                    AirIntSize::U8 => AirType::U8,
                    AirIntSize::U16 => AirType::U16,
                    AirIntSize::U32 => AirType::U32,
                    AirIntSize::U64 => AirType::U64,
                },
                AirConst::Float(_, AirFloatSize::F32) => AirType::F32,
                AirConst::Float(_, AirFloatSize::F64) => AirType::F64,
                AirConst::Bool(_) => AirType::Bool,
                AirConst::Str(_) => AirType::Str,
                AirConst::Null => AirType::Void,
                AirConst::ZeroInit(t) | AirConst::Undef(t) => t.clone(),
            }),
            Operand::Copy(l) | Operand::Move(l) => f
                .params
                .iter()
                .find(|p| p.id == *l)
                .map(|p| p.ty.clone())
                .or_else(|| f.locals.iter().find(|x| x.id == *l).map(|x| x.ty.clone())),
        }
    }

    /// what the generic's type parameters must be for these argument types (None = not determined)
    fn expected_args(g: &AirFunction, arg_tys: &[Option<AirType>]) -> Vec<Option<AirType>> {
        fn go(p: &AirType, a: &AirType, r: &mut HashMap<u32, AirType>) {
            match (p, a) {
                (AirType::Param(i), _) => {
                    r.entry(i.0).or_insert_with(|| a.clone());
                }
                (AirType::Ptr(x), AirType::Ptr(y)) | (AirType::Slice(x), AirType::Slice(y)) | (AirType::Array(x, _), AirType::Array(y, _)) => go(x, y, r),
                (AirType::FnPtr { params: ps, ret: pr, .. }, AirType::FnPtr { params: qs, ret: qr, .. }) => {
                    for (x, y) in ps.iter().zip(qs.iter()) {
                        go(x, y, r);
                    }
                    go(pr, qr, r);
                }
                _ => {}
            }
        }
        let mut r = HashMap::new();
        // call sites of closures pass the user arguments only
        let skip = if g.params.first().is_some_and(|p| p.name == "__env") { 1 } else { 0 };
        for (p, a) in g.params.iter().skip(skip).zip(arg_tys.iter()) {
            if let Some(a) = a {
                go(&p.ty, a, &mut r);
            }
        }
        g.type_params.iter().map(|tp| r.get(&tp.0).cloned()).collect()
    }

    /// clauses that hold only after monomorphisation; `pre` = program before monomorphize
    pub fn after_mono(pre: &AirProgram, post: &AirProgram, tp_names: &[String], uninferable: &[String], out: &mut Vec<Finding>) {
        let generic_names: Vec<&str> = pre.functions.iter().filter(|f| !f.type_params.is_empty()).map(|f| f.name.as_str()).collect();
        let mut roots: Vec<String> = Vec::new();
        for f in &post.functions {
            let mut add = |kind: &str, detail: String| {
                out.push(Finding { fn_id: f.id.0, fn_name: f.name.clone(), kind: kind.into(), detail })
            };
            if !f.type_params.is_empty() {
                add("generic-function-remains", String::new());
            }
            let m = mentions(f);
            let mut tys: Vec<&AirType> = vec![&f.ret_ty];
            tys.extend(f.params.iter().map(|p| &p.ty));
            tys.extend(f.locals.iter().map(|l| &l.ty));
            tys.extend(m.types.iter());
            if tys.iter().any(|t| ty_has_param(t)) {
                // an instance that still mentions a parameter = substitution failure; any other
                // function can only have got one from the generic function it is nested in
                let is_instance = post.mono_instances.iter().any(|i| i.result == f.id);
                add(if is_instance { "type-param-in-function" } else { "type-param-in-nested-function-of-generic" }, String::new());
            }
            for t in tys {
                ty_structs(t, &mut roots);
            }
            roots.extend(m.inits.iter().cloned());
            for (callee, args) in &m.calls {
                if generic_names.contains(&callee.as_str()) && !post.functions.iter().any(|g| &g.name == callee) {
                    let from_instance = post.mono_instances.iter().any(|i| i.result == f.id);
                    let g = pre.functions.iter().rev().find(|g| &g.name == callee && !g.type_params.is_empty());
                    let is_closure = g.is_some_and(|g| g.params.first().is_some_and(|p| p.name == "__env"));
                    let no_param_in_sig = g.is_some_and(|g| !g.params.iter().any(|p| ty_has_param(&p.ty)));
                    let builtin_tp = !uninferable.contains(callee) && tp_names.iter().any(|n| {
                        matches!(n.to_lowercase().as_str(), "int" | "float" | "bool" | "string" | "i8" | "i16" | "i32" | "i64" | "u8" | "u16" | "u32" | "u64" | "f32" | "f64" | "null" | "void" | "array" | "vec")
                    });
                    // an argument that is the result of another (generic) call: its type is unresolved in the caller
                    let arg_is_generic_result = args.iter().any(|a| match a {
                        Operand::Copy(l) | Operand::Move(l) => f.blocks.iter().flat_map(|b| b.stmts.iter()).any(|st| match &st.kind {
                            AirStmtKind::Assign { place: Place::Local(d), rvalue: Rvalue::Call { func: Callee::Named(n), .. } } => {
                                d == l && (generic_names.contains(&n.as_str()) || post.mono_instances.iter().any(|i| post.functions.iter().any(|h| h.id == i.result && &h.name == n)))
                            }
                            _ => false,
                        }),
                        _ => false,
                    });
                    add(
                        if is_closure {
                            "generic-closure-callee-not-instantiated"
                        } else if from_instance {
                            "generic-callee-in-instance"
                        } else if is_closure {
                            "generic-closure-callee-not-instantiated"
                        } else if uninferable.contains(callee) {
                            // the source declares a type parameter that occurs in no parameter type
                            "generic-callee-not-instantiated:type-param-not-in-any-parameter"
                        } else if no_param_in_sig && builtin_tp {
                            "generic-callee-not-instantiated:type-param-named-like-builtin"
                        } else if arg_is_generic_result {
                            "generic-callee-not-instantiated:argument-is-generic-call-result"
                        } else {
                            "generic-callee-not-instantiated"
                        },
                        callee.clone(),
                    );
                    continue;
                }
                // a call to an instance: the instance must be the one for these argument types
                let target = match post.functions.iter().find(|g| &g.name == callee) {
                    Some(t) => t,
                    None => continue,
                };
                let inst = match post.mono_instances.iter().find(|i| i.result == target.id) {
                    Some(i) => i,
                    None => continue,
                };
                let g = match pre.functions.iter().find(|g| g.id == inst.original) {
                    Some(g) => g,
                    None => continue,
                };
                let arg_tys: Vec<Option<AirType>> = args.iter().map(|a| operand_ty(a, f)).collect();
                let want = expected_args(g, &arg_tys);
                let mismatch = want.iter().zip(inst.type_args.iter()).any(|(w, h)| matches!(w, Some(w) if w != h));
                if mismatch {
                    let n_inst = post.mono_instances.iter().filter(|i| i.original == inst.original).count();
                    let exact_exists = post.mono_instances.iter().any(|i| {
                        i.original == inst.original && want.iter().zip(i.type_args.iter()).all(|(w, h)| matches!(w, Some(w) if w == h))
                    });
                    let from_instance = post.mono_instances.iter().any(|i| i.result == f.id);
                    let closure_callee = g.params.first().is_some_and(|p| p.name == "__env");
                    add(
                        if closure_callee {
                            // the environment parameter took part in the pairing
                            "generic-closure-call-wrong-instance"
                        } else if exact_exists && n_inst >= 2 { "call-wrong-instance-of-several" } else if from_instance { "instance-call-no-exact-instance" } else { "call-wrong-instance" },
                        format!("{} instances={}", g.name, n_inst),
                    );
                }
            }
        }
        // reachable structs have no type-parameter field
        let mut seen: Vec<String> = Vec::new();
        while let Some(n) = roots.pop() {
            if seen.contains(&n) {
                continue;
            }
            seen.push(n.clone());
            if let Some(s) = post.structs.iter().find(|s| s.name == n) {
                if s.fields.iter().any(|f| ty_has_param(&f.ty)) {
                    let kind = if s.is_closure_env { "type-param-in-closure-env-of-generic" } else { "type-param-in-reachable-struct" };
                    out.push(Finding { fn_id: u32::MAX, fn_name: format!("struct {}", s.name), kind: kind.into(), detail: n.clone() });
                }
                for fl in &s.fields {
                    ty_structs(&fl.ty, &mut roots);
                }
            }
        }
    }
}

// ------------------------------------------------------------------------------------------
// AirProgram -> term of Model/Mono.v
struct MonoEnc {
    names: HashMap<String, u32>,
}
impl MonoEnc {
    fn id(&mut self, s: &str) -> u32 {
        let n = self.names.len() as u32;
        *self.names.entry(s.to_string()).or_insert(n)
    }
    fn ty(&mut self, t: &AirType) -> String {
        match t {
            AirType::I8 => "(TPrim 0)".into(),
            AirType::I16 => "(TPrim 1)".into(),
            AirType::I32 => "(TPrim 2)".into(),
            AirType::I64 => "(TPrim 3)".into(),
            AirType::U8 => "(TPrim 4)".into(),
            AirType::U16 => "(TPrim 5)".into(),
            AirType::U32 => "(TPrim 6)".into(),
            AirType::U64 => "(TPrim 7)".into(),
            AirType::F32 => "(TPrim 8)".into(),
            AirType::F64 => "(TPrim 9)".into(),
            AirType::Bool => "(TPrim 10)".into(),
            AirType::Str => "(TPrim 11)".into(),
            AirType::Void => "(TPrim 12)".into(),
            AirType::Struct(n) => format!("(TStruct {})", self.id(n)),
            AirType::Param(i) => format!("(TParam {})", i.0),
            AirType::Ptr(i) => format!("(TPtr {})", self.ty(i)),
            AirType::Slice(i) => format!("(TSlice {})", self.ty(i)),
            AirType::Array(i, n) => format!("(TArr {} {})", self.ty(i), n),
            AirType::FnPtr { params, ret, .. } => {
                let mut s = String::from("TNil");
                for p in params.iter().rev() {
                    s = format!("(TCons {} {})", self.ty(p), s);
                }
                format!("(TFn {} {})", s, self.ty(ret))
            }
        }
    }
    fn key1(&mut self, t: &AirType) -> String {
        match t {
            AirType::Ptr(i) => format!("(TPtr {})", self.key1(i)),
            AirType::Slice(i) => format!("(TSlice {})", self.key1(i)),
            AirType::Array(i, n) => format!("(TArr {} {})", self.key1(i), n),
            AirType::FnPtr { params, ret, .. } => {
                let mut s = String::from("TNil");
                for p in params.iter().rev() {
                    s = format!("(TCons {} {})", self.key1(p), s);
                }
                format!("(TFn {} {})", s, self.key1(ret))
            }
            other => self.ty(other),
        }
    }
    fn tys(&mut self, ts: &[AirType]) -> String {
        format!("[{}]", ts.iter().map(|t| self.ty(t)).collect::<Vec<_>>().join(";"))
    }
    fn arg(&mut self, o: &Operand) -> String {
        match o {
            Operand::Copy(l) | Operand::Move(l) => format!("ALocal {}", l.0),
            Operand::Const(c) => {
                let t = match c {
                    AirConst::IntLiteral(_) => AirType::I64,
                    AirConst::Int(_, s) => match s {
                        AirIntSize::I8 => AirType::I8,
                        AirIntSize::I16 => AirType::I16,
                        AirIntSize::I32 => AirType::I32,
                        AirIntSize::I64 => AirType::I64,
                        AirIntSize::U8 => AirType::U8,
                        AirIntSize::U16 => AirType::U16,
                        AirIntSize::U32 => AirType::U32,
                        AirIntSize::U64 => AirType::U64,
                    },
                    AirConst::Float(_, AirFloatSize::F32) => AirType::F32,
                    AirConst::Float(_, AirFloatSize::F64) => AirType::F64,
                    AirConst::Bool(_) => AirType::Bool,
                    AirConst::Str(_) => AirType::Str,
                    AirConst::Null => AirType::Void,
                    AirConst::ZeroInit(t) | AirConst::Undef(t) => t.clone(),
                };
                format!("AConst {}", self.ty(&t))
            }
        }
    }
    /// statements of the model, in block / statement order (the order collect_from_function uses)
    fn body(&mut self, f: &AirFunction, post: Option<&PostNames>) -> (String, String) {
        // returns (model statements, observation of calls/inits)
        let mut stmts = Vec::new();
        let mut obs = Vec::new();
        for b in &f.blocks {
            for s in &b.stmts {
                let call = match &s.kind {
                    AirStmtKind::Assign { rvalue: Rvalue::Call { func: Callee::Named(n), args }, .. } => Some((n, args)),
                    AirStmtKind::CallVoid { func: Callee::Named(n), args } => Some((n, args)),
                    _ => None,
                };
                if let Some((n, args)) = call {
                    let a: Vec<String> = args.iter().map(|x| self.arg(x)).collect();
                    match post {
                        None => stmts.push(format!("MCall (NPlain {}) [{}]", self.id(n), a.join(";"))),
                        Some(pn) => match pn.inst_base.get(n.as_str()) {
                            Some(bk) => obs.push(format!("CInst {}", bk)),
                            None => obs.push(format!("CPlain {}", self.id(n))),
                        },
                    }
                }
                if let AirStmtKind::Assign { rvalue, .. } = &s.kind {
                    match rvalue {
                        Rvalue::StructInit { name, .. } => match post {
                            None => stmts.push(format!("MInit (NPlain {})", self.id(name))),
                            Some(pn) => match pn.renamed.get(name.as_str()) {
                                Some((base, k)) => obs.push(format!("SRenamed {} [{}]", base, k)),
                                None => obs.push(format!("SPlain {}", self.id(name))),
                            },
                        },
                        Rvalue::Cast { from, to, .. } => {
                            if post.is_none() {
                                stmts.push(format!("MCast {} {}", self.ty(from), self.ty(to)));
                            }
                        }
                        _ => {}
                    }
                }
            }
        }
        (format!("[{}]", stmts.join(";")), format!("[{}]", obs.join(";")))
    }
}

struct PostNames {
    /// instance function name -> "base [key]" (interned base name id and type_to_string key term)
    inst_base: HashMap<String, String>,
    /// renamed struct-init name -> (interned base id, key term)
    renamed: HashMap<String, (u32, String)>,
}

fn type_to_string(ty: &AirType) -> String {
    // independent re-statement of the naming scheme, used only to recognise renamed StructInit names
    match ty {
        AirType::I8 => "i8".into(),
        AirType::I16 => "i16".into(),
        AirType::I32 => "i32".into(),
        AirType::I64 => "i64".into(),
        AirType::U8 => "u8".into(),
        AirType::U16 => "u16".into(),
        AirType::U32 => "u32".into(),
        AirType::U64 => "u64".into(),
        AirType::F32 => "f32".into(),
        AirType::F64 => "f64".into(),
        AirType::Bool => "bool".into(),
        AirType::Str => "str".into(),
        AirType::Ptr(i) => format!("ptr_{}", type_to_string(i)),
        AirType::Struct(n) => n.clone(),
        AirType::Array(i, n) => format!("array_{}_{}", type_to_string(i), n),
        AirType::Slice(i) => format!("slice_{}", type_to_string(i)),
        AirType::FnPtr { params, ret, .. } => {
            let ps: Vec<String> = params.iter().map(type_to_string).collect();
            format!("fn_{}_to_{}", ps.join("_"), type_to_string(ret))
        }
        AirType::Param(i) => format!("param_{}", i.0),
        AirType::Void => "void".into(),
    }
}

fn mono_case(pre: &AirProgram, post: &AirProgram) -> (String, String) {
    let mut enc = MonoEnc { names: HashMap::new() };
    // ---- query: the program before monomorphisation
    let mut fns = Vec::new();
    for f in &pre.functions {
        let name = enc.id(&f.name);
        let tps: Vec<u32> = f.type_params.iter().map(|t| t.0).collect();
        let params: Vec<String> = f.params.iter().map(|p| format!("({}, {})", p.id.0, enc.ty(&p.ty))).collect();
        let locals: Vec<String> = f.locals.iter().map(|l| format!("({}, {})", l.id.0, enc.ty(&l.ty))).collect();
        let ret = enc.ty(&f.ret_ty);
        let (body, _) = enc.body(f, None);
        let env = f.params.first().is_some_and(|p| p.name == "__env" && matches!(p.ty, AirType::Ptr(_)));
        fns.push(format!(
            "mkmfn (NPlain {}) {} [{}] {} [{}] {} [] {}",
            name,
            nlist(&tps),
            params.join(";"),
            ret,
            locals.join(";"),
            body,
            env
        ));
    }
    let mut structs = Vec::new();
    for s in &pre.structs {
        let tps: Vec<u32> = s.type_params.iter().map(|t| t.0).collect();
        let fields: Vec<AirType> = s.fields.iter().map(|f| f.ty.clone()).collect();
        let n = enc.id(&s.name);
        structs.push(format!("mkms (NPlain {}) {} {}", n, nlist(&tps), enc.tys(&fields)));
    }
    let query = format!("mkmp [{}] [{}] []", fns.join(";"), structs.join(";"));
    // ---- observation
    let mut pn = PostNames { inst_base: HashMap::new(), renamed: HashMap::new() };
    let mut inst_rows = Vec::new();
    let mut inst_name_term: HashMap<u32, String> = HashMap::new();
    for i in &post.mono_instances {
        let base_name = pre.functions.iter().find(|f| f.id == i.original).map(|f| f.name.clone()).unwrap_or_else(|| "?".into());
        let base = enc.id(&base_name);
        inst_rows.push(format!("({}, {})", base, enc.tys(&i.type_args)));
        if let Some(f) = post.functions.iter().find(|f| f.id == i.result) {
            let k: Vec<String> = i.type_args.iter().map(|t| enc.key1(t)).collect();
            pn.inst_base.insert(f.name.clone(), format!("{} [{}]", base, k.join(";")));
            inst_name_term.insert(f.id.0, format!("NMono {} [{}]", base, k.join(";")));
        }
        // renamed struct-init names this instance can contain
        if let Some(first) = i.type_args.first() {
            let mut struct_names: Vec<String> = Vec::new();
            for f in &pre.functions {
                for b in &f.blocks {
                    for s in &b.stmts {
                        if let AirStmtKind::Assign { rvalue: Rvalue::StructInit { name, .. }, .. } = &s.kind {
                            struct_names.push(name.clone());
                        }
                    }
                }
            }
            for sn in struct_names {
                let k = enc.key1(first);
                let sid = enc.id(&sn);
                pn.renamed.insert(format!("__mono_{}_{}", sn, type_to_string(first)), (sid, k));
            }
        }
    }
    let mut frows = Vec::new();
    for f in &post.functions {
        let name = match inst_name_term.get(&f.id.0) {
            Some(t) => t.clone(),
            None => format!("NPlain {}", enc.id(&f.name)),
        };
        let mut tys: Vec<AirType> = f.params.iter().map(|p| p.ty.clone()).collect();
        tys.push(f.ret_ty.clone());
        tys.extend(f.locals.iter().map(|l| l.ty.clone()));
        let (_, o) = enc.body(f, Some(&pn));
        frows.push(format!("({}, {}, {})", name, enc.tys(&tys), o));
    }
    (query, format!("([{}], [{}])", inst_rows.join(";"), frows.join(";")))
}

// ------------------------------------------------------------------------------------------
// program generator: type-correct by construction (int / bool / string / float / Point values)
#[derive(Clone, Copy, PartialEq, Debug)]
enum Ty {
    Int,
    Bool,
    Str,
    Float,
    Point,
}

#[derive(Clone)]
struct Var {
    name: String,
    ty: Ty,
    mutable: bool,
}

#[derive(Default)]
struct Stats {
    c: BTreeMap<&'static str, u64>,
}
impl Stats {
    fn hit(&mut self, k: &'static str) {
        *self.c.entry(k).or_insert(0) += 1;
    }
}

struct Gen<'a> {
    rng: &'a mut Rng,
    fresh: u32,
    st: &'a mut Stats,
    /// generic helper functions available: (name, arity kind)
    generics: Vec<(String, u8)>,
    /// allow constructs whose lowering is a listed known finding
    budget: i32,
    /// plain functions generated so far: (name, parameter types, result type)
    fns: Vec<(String, Vec<Ty>, Option<Ty>)>,
}

impl<'a> Gen<'a> {
    fn name(&mut self, p: &str) -> String {
        self.fresh += 1;
        format!("{}{}", p, self.fresh)
    }
    fn vars_of(&self, sc: &[Var], t: Ty) -> Vec<Var> {
        sc.iter().filter(|v| v.ty == t).cloned().collect()
    }
    fn lit(&mut self, t: Ty) -> String {
        match t {
            Ty::Int => format!("{}", self.rng.below(20)),
            Ty::Bool => if self.rng.chance(1, 2) { "true".into() } else { "false".into() },
            Ty::Str => format!("\"s{}\"", self.rng.below(5)),
            Ty::Float => format!("{}.5", self.rng.below(9)),
            Ty::Point => format!("Point {{ x: {}, y: {} }}", self.rng.below(9), self.rng.below(9)),
        }
    }
    fn expr(&mut self, t: Ty, d: u32, sc: &[Var]) -> String {
        self.budget -= 1;
        let vs = self.vars_of(sc, t);
        if d == 0 || self.budget < 0 {
            if !vs.is_empty() && self.rng.chance(2, 3) {
                return self.rng.pick(&vs).name.clone();
            }
            return self.lit(t);
        }
        let r = self.rng.below(100);
        // forms shared by all types
        if r < 12 && !vs.is_empty() {
            return self.rng.pick(&vs).name.clone();
        }
        if r < 20 {
            return self.lit(t);
        }
        let callable: Vec<(String, u8)> = self.generics.iter().filter(|(_, k)| *k != 7).cloned().collect();
        if r < 30 && !callable.is_empty() {
            let (g, k) = self.rng.pick(&callable).clone();
            self.st.hit("generic-call");
            let a = self.expr(t, d - 1, sc);
            return match k {
                1 => format!("{}({})", g, a),
                2 => {
                    let ot = *self.rng.pick(&[Ty::Int, Ty::Bool, Ty::Str, Ty::Float]);
                    let b = self.expr(ot, d - 1, sc);
                    format!("{}({}, {})", g, a, b)
                }
                3 => {
                    let n = self.expr(Ty::Int, d - 1, sc);
                    format!("{}({}, {})", g, a, n)
                }
                4 => format!("{}(Array[{}, {}], {})", g, a, self.expr(t, 0, sc), self.expr(t, 0, sc)),
                5 => format!("{}(Vec[{}], {})", g, a, self.expr(t, 0, sc)),
                _ => format!("{}(Array[Array[{}]], {})", g, a, self.expr(t, 0, sc)),
            };
        }
        if r < 38 && t != Ty::Point {
            self.st.hit("if-expr");
            let c = self.expr(Ty::Bool, d - 1, sc);
            let a = self.expr(t, d - 1, sc);
            let b = self.expr(t, d - 1, sc);
            return format!("(if {} {{ {} }} else {{ {} }})", c, a, b);
        }
        match t {
            Ty::Int => {
                let r = self.rng.below(10);
                if r < 5 {
                    let o = *self.rng.pick(&["+", "-", "*"]);
                    format!("({} {} {})", self.expr(Ty::Int, d - 1, sc), o, self.expr(Ty::Int, d - 1, sc))
                } else if r < 7 {
                    format!("add2({}, {})", self.expr(Ty::Int, d - 1, sc), self.expr(Ty::Int, d - 1, sc))
                } else if r < 9 {
                    let ps = self.vars_of(sc, Ty::Point);
                    if ps.is_empty() {
                        format!("({}).x", self.lit(Ty::Point))
                    } else {
                        self.st.hit("field-access");
                        format!("{}.{}", self.rng.pick(&ps).name, self.rng.pick(&["x", "y"]))
                    }
                } else {
                    self.st.hit("lambda-call");
                    let q = self.name("q");
                    let body = self.expr(Ty::Int, d - 1, sc);
                    format!("(fn({}: int) -> int {{ return {} + {} }})({})", q, q, body, self.expr(Ty::Int, d - 1, sc))
                }
            }
            Ty::Bool => {
                let r = self.rng.below(10);
                if r < 3 {
                    let o = *self.rng.pick(&["<", "<=", "==", "!=", ">"]);
                    format!("({} {} {})", self.expr(Ty::Int, d - 1, sc), o, self.expr(Ty::Int, d - 1, sc))
                } else if r < 6 {
                    self.st.hit("and");
                    format!("({} and {})", self.expr(Ty::Bool, d - 1, sc), self.expr(Ty::Bool, d - 1, sc))
                } else if r < 9 {
                    self.st.hit("or");
                    format!("({} or {})", self.expr(Ty::Bool, d - 1, sc), self.expr(Ty::Bool, d - 1, sc))
                } else {
                    format!("(not {})", self.expr(Ty::Bool, d - 1, sc))
                }
            }
            Ty::Str => {
                self.st.hit("interpolation");
                let n = 1 + self.rng.below(3);
                let mut s = String::from("\"");
                for i in 0..n {
                    let pt = *self.rng.pick(&[Ty::Int, Ty::Bool, Ty::Str, Ty::Float]);
                    if self.rng.chance(2, 3) {
                        s.push_str(&format!("p{}=", i));
                    }
                    let e = self.expr_no_quote(pt, d - 1, sc);
                    s.push_str(&format!("{{{}}}", e));
                }
                s.push('"');
                s
            }
            Ty::Float => format!("({} + {})", self.expr(Ty::Float, d - 1, sc), self.expr(Ty::Float, d - 1, sc)),
            Ty::Point => {
                self.st.hit("struct-literal");
                format!("Point {{ x: {}, y: {} }}", self.expr(Ty::Int, d - 1, sc), self.expr(Ty::Int, d - 1, sc))
            }
        }
    }
    /// expression usable inside "{...}" of an interpolated string: no string literals, no braces
    fn expr_no_quote(&mut self, t: Ty, d: u32, sc: &[Var]) -> String {
        let vs = self.vars_of(sc, t);
        if !vs.is_empty() && self.rng.chance(1, 2) {
            return self.rng.pick(&vs).name.clone();
        }
        match t {
            Ty::Int => {
                let is = self.vars_of(sc, Ty::Int);
                if is.is_empty() { format!("{} + 1", self.rng.below(9)) } else { format!("{} + {}", self.rng.pick(&is).name, self.rng.below(9)) }
            }
            Ty::Bool => {
                let bs = self.vars_of(sc, Ty::Bool);
                if bs.len() >= 2 && d > 0 {
                    self.st.hit("and");
                    format!("{} and {}", bs[0].name, bs[1].name)
                } else {
                    "true".into()
                }
            }
            Ty::Float => "1.5".into(),
            _ => {
                let is = self.vars_of(sc, Ty::Int);
                if is.is_empty() { "7".into() } else { self.rng.pick(&is).name.clone() }
            }
        }
    }

    fn ind(n: usize) -> String {
        "  ".repeat(n)
    }

    /// a block body; returns text; `ends` = whether the last statement is a return
    fn block(&mut self, d: u32, ind: usize, sc: &mut Vec<Var>, in_loop: bool, ret: Option<Ty>, max: u64) -> String {
        let mark = sc.len();
        let n = self.rng.below(max + 1);
        let mut out = String::new();
        for _ in 0..n {
            out.push_str(&self.stmt(d, ind, sc, in_loop, ret));
        }
        sc.truncate(mark);
        out
    }

    fn stmt(&mut self, d: u32, ind: usize, sc: &mut Vec<Var>, in_loop: bool, ret: Option<Ty>) -> String {
        let p = Self::ind(ind);
        self.budget -= 2;
        let r = if d == 0 || self.budget < 0 { self.rng.below(40) } else { self.rng.below(100) };
        let tys = [Ty::Int, Ty::Int, Ty::Bool, Ty::Str, Ty::Float, Ty::Point];
        if r < 14 {
            let t = *self.rng.pick(&tys);
            let v = self.name("v");
            let m = self.rng.chance(1, 2);
            let e = self.expr(t, 2, sc);
            sc.push(Var { name: v.clone(), ty: t, mutable: m });
            self.st.hit("let");
            return format!("{}let {}{} = {}\n", p, if m { "mut " } else { "" }, v, e);
        }
        if r < 22 {
            let ms: Vec<Var> = sc.iter().filter(|v| v.mutable).cloned().collect();
            if !ms.is_empty() {
                let v = self.rng.pick(&ms).clone();
                self.st.hit("assign");
                return format!("{}{} = {}\n", p, v.name, self.expr(v.ty, 2, sc));
            }
        }
        if r >= 25 && r < 28 {
            // array element read / write (IndexAssign is a statement without result temporary)
            self.st.hit("index-assign");
            let a = self.name("arr");
            let e1 = self.expr(Ty::Int, 1, sc);
            let e2 = self.expr(Ty::Int, 1, sc);
            return format!("{}let mut {} = Array[{}, 2, 3]\n{}{}[0] = {}\n{}print({}[1])\n", p, a, e1, p, a, e2, p, a);
        }
        if r >= 28 && r < 30 && !self.fns.is_empty() {
            // call of an earlier plain function, as a statement (CallVoid when it returns nothing)
            let (f, ps, rt) = self.rng.pick(&self.fns).clone();
            self.st.hit(if rt.is_none() { "call-void-fn-stmt" } else { "call-fn-stmt" });
            let args: Vec<String> = ps.iter().map(|t| self.expr(*t, 1, sc)).collect();
            return format!("{}{}({})\n", p, f, args.join(", "));
        }
        if r == 30 {
            // call through a function value whose result is not used
            self.st.hit("call-through-value-stmt");
            let q = self.name("q");
            return format!("{}(fn({}: int) -> void {{ print({}) }})({})\n", p, q, q, self.expr(Ty::Int, 1, sc));
        }
        let g1: Vec<String> = self.generics.iter().filter(|(_, k)| *k == 1).map(|(g, _)| g.clone()).collect();
        let g5: Vec<String> = self.generics.iter().filter(|(_, k)| *k == 5).map(|(g, _)| g.clone()).collect();
        if r == 31 && !g1.is_empty() && !g5.is_empty() && self.rng.chance(1, 2) {
            // the result of a generic call as the Vec<T> argument of another generic call
            self.st.hit("generic-result-to-compound-param");
            let w = self.name("w");
            return format!("{}let {} = {}({}(Vec[1, 2]), 3)\n", p, w, self.rng.pick(&g5), self.rng.pick(&g1));
        }
        if r == 31 {
            self.st.hit("cast");
            let v = self.name("v");
            let e = self.expr(Ty::Int, 1, sc);
            sc.push(Var { name: v.clone(), ty: Ty::Float, mutable: false });
            return format!("{}let {} = ({} as float)\n", p, v, e);
        }
        let g7: Vec<String> = self.generics.iter().filter(|(_, k)| *k == 7).map(|(g, _)| g.clone()).collect();
        if r >= 22 && r < 25 && !g7.is_empty() {
            self.st.hit("generic-call-compound-result");
            let t = *self.rng.pick(&[Ty::Int, Ty::Bool, Ty::Str, Ty::Float]);
            let w = self.name("w");
            return format!("{}let {} = {}({})\n", p, w, self.rng.pick(&g7), self.expr(t, 1, sc));
        }
        if r < 32 {
            self.st.hit("call-stmt");
            let t = *self.rng.pick(&[Ty::Int, Ty::Bool, Ty::Str]);
            return format!("{}print({})\n", p, self.expr(t, 2, sc));
        }
        if r < 36 {
            // bare short-circuit / if expression statement
            self.st.hit("expr-stmt");
            return format!("{}{}\n", p, self.expr(Ty::Bool, 2, sc));
        }
        if r < 40 {
            if in_loop {
                self.st.hit("break-continue");
                let c = self.expr(Ty::Bool, 1, sc);
                let k = if self.rng.chance(1, 2) { "break" } else { "continue" };
                return if self.rng.chance(3, 4) { format!("{}if {} {{ {} }}\n", p, c, k) } else { format!("{}{}\n", p, k) };
            }
            if ret.is_none() && self.rng.chance(1, 2) {
                self.st.hit("bare-return");
                let c = self.expr(Ty::Bool, 1, sc);
                return format!("{}if {} {{\n{}  return\n{}}}\n", p, c, p, p);
            }
            if let Some(t) = ret {
                if self.rng.chance(1, 2) {
                    self.st.hit("early-return");
                    let c = self.expr(Ty::Bool, 1, sc);
                    return format!("{}if {} {{ return {} }}\n", p, c, self.expr(t, 1, sc));
                }
            }
            return format!("{}print(\"t\")\n", p);
        }
        // compound statements (d > 0)
        if r < 52 {
            self.st.hit("if");
            let c = self.expr(Ty::Bool, 2, sc);
            let b = self.block(d - 1, ind + 1, sc, in_loop, ret, 3);
            return format!("{}if {} {{\n{}{}}}\n", p, c, b, p);
        }
        if r < 64 {
            self.st.hit("if-else");
            let c = self.expr(Ty::Bool, 2, sc);
            let a = self.block(d - 1, ind + 1, sc, in_loop, ret, 3);
            if self.rng.chance(1, 3) {
                let c2 = self.expr(Ty::Bool, 1, sc);
                let b = self.block(d - 1, ind + 1, sc, in_loop, ret, 2);
                let e = self.block(d - 1, ind + 1, sc, in_loop, ret, 2);
                return format!("{}if {} {{\n{}{}}} else if {} {{\n{}{}}} else {{\n{}{}}}\n", p, c, a, p, c2, b, p, e, p);
            }
            let b = self.block(d - 1, ind + 1, sc, in_loop, ret, 3);
            return format!("{}if {} {{\n{}{}}} else {{\n{}{}}}\n", p, c, a, p, b, p);
        }
        if r < 72 {
            self.st.hit("while");
            let c = self.expr(Ty::Bool, 2, sc);
            let b = self.block(d - 1, ind + 1, sc, true, ret, 3);
            return format!("{}while {} {{\n{}{}}}\n", p, c, b, p);
        }
        if r < 80 {
            self.st.hit("for");
            let i = self.name("i");
            let lo = self.expr(Ty::Int, 1, sc);
            let hi = self.expr(Ty::Int, 1, sc);
            let dots = if self.rng.chance(1, 3) { "..=" } else { ".." };
            let step = if self.rng.chance(1, 3) { format!(" step {}", self.expr(Ty::Int, 1, sc)) } else { String::new() };
            sc.push(Var { name: i.clone(), ty: Ty::Int, mutable: false });
            let b = self.block(d - 1, ind + 1, sc, true, ret, 3);
            sc.pop();
            return format!("{}for {} in {}{}{}{} {{\n{}{}}}\n", p, i, lo, dots, hi, step, b, p);
        }
        if r < 86 {
            self.st.hit("for-each");
            let c = self.name("c");
            let (it, ety) = if self.rng.chance(1, 2) {
                (self.expr(Ty::Str, 1, sc), Ty::Str)
            } else {
                (format!("Array[{}, {}]", self.expr(Ty::Int, 1, sc), self.expr(Ty::Int, 1, sc)), Ty::Int)
            };
            sc.push(Var { name: c.clone(), ty: ety, mutable: false });
            let b = self.block(d - 1, ind + 1, sc, true, ret, 3);
            sc.pop();
            return format!("{}for {} in {} {{\n{}{}}}\n", p, c, it, b, p);
        }
        if r < 91 {
            // nested function, then a call to it
            self.st.hit("nested-fn");
            let f = self.name("nf");
            let a = self.name("a");
            let mut inner = vec![Var { name: a.clone(), ty: Ty::Int, mutable: false }];
            if self.rng.chance(1, 2) {
                // the nested function may use the enclosing function's ints: a named closure
                self.st.hit("nested-fn-capturing");
                for v in self.vars_of(sc, Ty::Int) {
                    inner.push(Var { name: v.name.clone(), ty: Ty::Int, mutable: false });
                }
            }
            let body = self.block(d - 1, ind + 1, &mut inner, false, Some(Ty::Int), 3);
            let e = self.expr(Ty::Int, 1, &inner);
            let tail = if self.rng.chance(4, 5) { format!("{}return {}\n", Self::ind(ind + 1), e) } else { String::new() };
            let arg = self.expr(Ty::Int, 1, sc);
            return format!("{}fn {}({}: int) -> int {{\n{}{}{}}}\n{}print({}({}))\n", p, f, a, body, tail, p, p, f, arg);
        }
        if r < 97 {
            // closure bound to a variable (captures an int if there is one), then called
            self.st.hit("closure");
            let f = self.name("cl");
            let a = self.name("a");
            let mut inner: Vec<Var> = self.vars_of(sc, Ty::Int);
            for v in inner.iter_mut() {
                v.mutable = false;
            }
            inner.push(Var { name: a.clone(), ty: Ty::Int, mutable: false });
            let body = self.block(d - 1, ind + 1, &mut inner, false, Some(Ty::Int), 2);
            let e = self.expr(Ty::Int, 1, &inner);
            let tail = if self.rng.chance(4, 5) { format!("{}return {}\n", Self::ind(ind + 1), e) } else { String::new() };
            let arg = self.expr(Ty::Int, 1, sc);
            let mut extra = String::new();
            let g1: Vec<String> = self.generics.iter().filter(|(_, k)| *k == 1 || *k == 7).map(|(g, _)| g.clone()).collect();
            if !g1.is_empty() && self.rng.chance(1, 3) {
                // a function value as the type argument of a generic call
                self.st.hit("closure-to-generic");
                let w = self.name("w");
                extra = format!("{}let {} = {}({})\n", p, w, self.rng.pick(&g1), f);
            }
            return format!("{}let {} = fn({}: int) -> int {{\n{}{}{}}}\n{}print({}({}))\n{}", p, f, a, body, tail, p, p, f, arg, extra);
        }
        if self.rng.chance(1, 3) {
            self.st.hit("struct-in-function");
            let sn = self.name("S");
            let v = self.name("v");
            let e = self.expr(Ty::Int, 1, sc);
            return format!("{}struct {} {{ a: int, b: Point }}\n{}let {} = {} {{ a: {}, b: Point {{ x: 1, y: 2 }} }}\n{}print({}.a)\n", p, sn, p, v, sn, e, p, v);
        }
        self.st.hit("bare-block");
        let b = self.block(d - 1, ind + 1, sc, in_loop, ret, 3);
        format!("{}{{\n{}{}}}\n", p, b, p)
    }

    fn ty_name(t: Ty) -> &'static str {
        match t {
            Ty::Int => "int",
            Ty::Bool => "bool",
            Ty::Str => "string",
            Ty::Float => "float",
            Ty::Point => "Point",
        }
    }

    fn program(&mut self) -> String {
        let mut s = String::new();
        s.push_str("struct Point { x: int, y: int }\nstruct Line { p: Point, q: Point }\n");
        let with_generic_struct = self.rng.chance(1, 4);
        if with_generic_struct {
            s.push_str("struct Box<T> { v: T }\n");
            self.st.hit("generic-struct-decl");
        }
        // name collisions between type parameters and structs: the parameter must win
        if self.rng.chance(1, 4) {
            self.st.hit("struct-named-like-type-param");
            s.push_str(if self.rng.chance(1, 2) { "struct T { a: int }\n" } else { "struct U { a: int, b: int }\n" });
        }
        if self.rng.chance(1, 5) {
            self.st.hit("early-local-struct-named-like-type-param");
            let nm = if self.rng.chance(1, 2) { "T" } else { "U" };
            s.push_str(&format!("fn early{}() -> int {{\n  struct {} {{ a: int }}\n  let e = {} {{ a: 1 }}\n  return e.a\n}}\n", self.fresh, nm, nm));
        }
        let nested_only = self.rng.chance(1, 6);
        if nested_only {
            self.st.hit("only-nested-generic-functions");
        }
        let with_global = self.rng.chance(1, 5);
        if with_global {
            s.push_str("let gk = 5\n");
        }
        s.push_str("fn add2(a: int, b: int) -> int { return a + b }\n");
        if !nested_only && self.rng.chance(1, 12) {
            // type parameters spelled like builtin types
            self.st.hit("type-param-named-like-builtin");
            let g = self.name("gb");
            s.push_str(&format!("fn {}<Int>(x: Int) -> Int {{\n  return x\n}}\nfn use{}() -> int {{\n  return {}(3)\n}}\n", g, g, g));
        }
        if self.rng.chance(1, 12) {
            self.st.hit("unknown-struct-literal");
            s.push_str(&format!("fn unk{}() -> int {{\n  let u = Nowhere {{ a: 1 }}\n  return 1\n}}\n", self.fresh));
        }
        // some programs have no top-level generic function at all: their only generic functions are
        // declared inside function bodies (directly, in a block, two deep, in a lambda)
        // generic helpers
        let ng = if nested_only { 0 } else { self.rng.below(5) };
        for _ in 0..ng {
            let g = self.name("g");
            let kind = 1 + self.rng.below(7) as u8;
            let (sig, mut sc) = match kind {
                1 => (format!("fn {}<T>(x: T) -> T", g), vec![]),
                2 => (format!("fn {}<T, U>(x: T, y: U) -> T", g), vec![]),
                3 => (format!("fn {}<T>(x: T, n: int) -> T", g), vec![Var { name: "n".into(), ty: Ty::Int, mutable: false }]),
                // type parameter inside compound types: params, locals, result
                4 => (format!("fn {}<T>(xs: Array<T>, x: T) -> T", g), vec![]),
                5 => (format!("fn {}<T>(xs: Vec<T>, x: T) -> T", g), vec![]),
                6 => (format!("fn {}<T>(xss: Array<Array<T> >, x: T) -> T", g), vec![]),
                _ => (format!("fn {}<T>(x: T) -> Array<T>", g), vec![]),
            };
            if kind >= 4 {
                self.st.hit("generic-over-compound-type");
            }
            self.st.hit("generic-fn");
            // bodies of generic functions never mention other generics unless asked for below
            let saved = std::mem::take(&mut self.generics);
            self.budget = 40;
            let mut body = self.block(2, 1, &mut sc, false, None, 3);
            let flavour = if !saved.is_empty() && self.rng.chance(1, 3) { 0 } else { self.rng.below(10) };
            if flavour == 0 && !saved.is_empty() {
                // generic calling an earlier generic: chains of instantiations
                let (h, k) = self.rng.pick(&saved).clone();
                self.st.hit("generic-calls-generic");
                body.push_str(&match k {
                    1 | 7 => format!("  let w = {}(x)\n", h),
                    2 => format!("  let w = {}(x, 1)\n", h),
                    3 => format!("  let w = {}(x, 2)\n", h),
                    4 => format!("  let w = {}(Array[x], x)\n", h),
                    5 => format!("  let w = {}(Vec[x, x], x)\n", h),
                    _ => format!("  let w = {}(Array[Array[x]], x)\n", h),
                });
            } else if flavour == 1 {
                self.st.hit("struct-literal-in-generic");
                body.push_str("  let pt = Point { x: 1, y: 2 }\n");
            } else if flavour == 2 && with_generic_struct {
                self.st.hit("generic-struct-literal");
                body.push_str("  let bx = Box { v: x }\n");
            }
            if with_global && self.rng.chance(1, 3) {
                // reading a top-level let makes the generic function a closure (environment parameter)
                self.st.hit("generic-fn-reading-global");
                body.push_str("  print(gk)\n");
            }
            if kind >= 4 || self.rng.chance(1, 4) {
                self.st.hit("compound-local-in-generic");
                body.push_str(if self.rng.chance(1, 2) { "  let ys = Array[x, x]\n" } else { "  let zs = Vec[x]\n  let yss = Array[Array[x]]\n" });
            }
            if self.rng.chance(1, 12) {
                // a function type mentioning T (the lambda itself is the open finding KF-C17-11)
                self.st.hit("lambda-over-type-param-in-generic");
                body.push_str("  let lf = fn(a: T) -> T { return a }\n");
            }
            self.generics = saved;
            let ret = if kind == 7 { "Array[x, x]" } else { "x" };
            s.push_str(&format!("{} {{\n{}  return {}\n}}\n", sig, body, ret));
            self.generics.push((g, kind));
        }
        // plain functions
        let nf = 1 + self.rng.below(3);
        let mut fnames = Vec::new();
        for _ in 0..nf {
            let f = self.name("f");
            let mut sc = Vec::new();
            let np = self.rng.below(4);
            let mut ps = Vec::new();
            for _ in 0..np {
                let t = *self.rng.pick(&[Ty::Int, Ty::Int, Ty::Bool, Ty::Bool, Ty::Str, Ty::Float, Ty::Point]);
                let n = self.name("p");
                let m = self.rng.chance(1, 4);
                ps.push(format!("{}{}: {}", if m { "mut " } else { "" }, n, Self::ty_name(t)));
                sc.push(Var { name: n, ty: t, mutable: m });
            }
            let ret = if self.rng.chance(2, 3) { Some(*self.rng.pick(&[Ty::Int, Ty::Bool, Ty::Str])) } else { None };
            self.budget = 60 + self.rng.below(120) as i32;
            let depth = 1 + self.rng.below(3) as u32;
            let body = self.block(depth, 1, &mut sc.clone(), false, ret, 5);
            let tail = match ret {
                Some(t) => format!("  return {}\n", self.expr(t, 1, &sc)),
                None => {
                    // a function without a result: end in a plain statement most of the time
                    if self.rng.chance(2, 3) { "  print(\"end\")\n".to_string() } else { String::new() }
                }
            };
            let rt = match ret {
                Some(t) => format!(" -> {}", Self::ty_name(t)),
                None => String::new(),
            };
            s.push_str(&format!("fn {}({}){} {{\n{}{}}}\n", f, ps.join(", "), rt, body, tail));
            self.fns.push((f.clone(), sc.iter().map(|v| v.ty).collect(), ret));
            fnames.push(f);
            self.st.hit("plain-fn");
        }
        if !nested_only && self.rng.chance(1, 2) {
            // typed data flowing into generic calls through (a) an annotated let whose initializer is the
            // (dynamically typed) result of a generic call, (b) a lambda capturing a variable initialised
            // from a call: the types recorded by type inference for the let / the capture decide which
            // instance monomorphisation creates
            self.st.hit("typed-flow-into-generic");
            let k = self.fresh;
            self.fresh += 1;
            let (ety, lit) = *self.rng.pick(&[("string", "\"ada\", \"bob\""), ("float", "1.5, 2.5"), ("bool", "true, false")]);
            let cont = if self.rng.chance(1, 2) { "Vec" } else { "Array" };
            let plain = self.rng.chance(1, 3);
            s.push_str(&format!("fn names{}() -> {}<{}> {{\n  return {}[{}]\n}}\n", k, cont, ety, cont, lit));
            s.push_str(&format!("fn first{}<T>(xs: {}<T>) -> T {{\n  return xs[0]\n}}\n", k, cont));
            s.push_str(&format!("fn keep{}<T>(x: T) -> T {{\n  return x\n}}\n", k));
            let mut b = format!("fn build{}() -> {} {{\n  let all = names{}()\n", k, ety, k);
            if self.rng.chance(2, 3) {
                self.st.hit("annotated-let-over-generic-result");
                b.push_str(&format!("  let kept: {}<{}> = keep{}(all)\n", cont, ety, k));
            } else {
                b.push_str(&format!("  let kept: {}<{}> = names{}()\n", cont, ety, k));
            }
            if plain {
                let one_lit = match ety { "string" => "\"zed\"", "float" => "3.5", _ => "true" };
                b.push_str(&format!("  let one: {} = keep{}({})\n  let again = keep{}(one)\n", ety, k, one_lit, k));
            }
            if self.rng.chance(2, 3) {
                self.st.hit("lambda-capturing-call-initialised-variable");
                b.push_str(&format!("  let pick = fn() -> {} {{\n    return first{}(all)\n  }}\n  print(pick())\n", ety, k));
            }
            if self.rng.chance(1, 3) {
                b.push_str(&format!("  fn inner{}() -> {} {{\n    return first{}(all)\n  }}\n", k, ety, k));
            }
            b.push_str(&format!("  return first{}(kept)\n}}\n", k));
            s.push_str(&b);
        }
        if nested_only {
            let k = self.fresh;
            self.fresh += 1;
            let body = match self.rng.below(4) {
                0 => format!("  fn pick{}<T>(x: T) -> T {{\n    return x\n  }}\n  let s = pick{}(\"a\")\n  return pick{}(7)\n", k, k, k),
                1 => format!("  {{\n    fn pick{}<T>(x: T) -> T {{\n      return x\n    }}\n    print(pick{}(1.5))\n    print(pick{}(true))\n  }}\n  return 1\n", k, k, k),
                2 => format!("  fn mid{}() -> int {{\n    fn pick{}<T, U>(x: T, y: U) -> T {{\n      return x\n    }}\n    let s = pick{}(\"a\", 1)\n    return pick{}(3, \"b\")\n  }}\n  return mid{}()\n", k, k, k, k, k),
                _ => format!("  let l = fn() -> int {{\n    fn pick{}<T>(xs: Vec<T>, x: T) -> T {{\n      return x\n    }}\n    let s = pick{}(Vec[\"a\"], \"b\")\n    return pick{}(Vec[1], 4)\n  }}\n  return l()\n", k, k, k),
            };
            s.push_str(&format!("fn outer{}() -> int {{\n{}}}\n", k, body));
        }
        if self.rng.chance(1, 10) {
            // a struct literal whose name is not a struct but is bound as a function / a variable
            self.st.hit("struct-literal-named-like-binding");
            let k = self.fresh;
            self.fresh += 1;
            if self.rng.chance(1, 2) {
                s.push_str(&format!("fn Pair{}(a: int, b: int) -> int {{\n  return a * 100 + b\n}}\nfn usepair{}() -> int {{\n  let p = Pair{} {{ a: 1, b: 2 }}\n  return 3\n}}\n", k, k, k));
            } else {
                s.push_str(&format!("let Origin{} = 0\nfn useorigin{}() -> int {{\n  let o = Origin{} {{ x: 1 }}\n  return 3\n}}\n", k, k, k));
            }
        }
        if self.rng.chance(1, 8) {
            // a struct declared inside a top-level statement, used by a later function
            self.st.hit("struct-in-toplevel-statement");
            let k = self.fresh;
            self.fresh += 1;
            s.push_str(&format!("if true {{\n  struct Top{} {{ x: int }}\n}}\nfn usetop{}() -> int {{\n  let t = Top{} {{ x: 1 }}\n  return t.x\n}}\n", k, k, k));
        }
        if self.rng.chance(1, 6) {
            // a struct declared in code the optimizer removes (behind a return, in a constant-false branch, in the
            // else of `if true`, in a `while false` body), used by a literal elsewhere: still a declaration
            self.st.hit("struct-declared-in-dead-code");
            let k = self.fresh;
            self.fresh += 1;
            let decl = format!("struct Late{} {{ x: int }}", k);
            let holder = match self.rng.below(5) {
                0 => format!("  return 1\n  {}\n", decl),
                1 => format!("  if false {{\n    {}\n  }}\n  return 1\n", decl),
                2 => format!("  if true {{\n    print(1)\n  }} else {{\n    {}\n  }}\n  return 1\n", decl),
                3 => format!("  while false {{\n    {}\n  }}\n  return 1\n", decl),
                _ => format!("  if false {{\n    {}\n  }}\n  let q = Late{} {{ x: 5 }}\n  return q.x\n", decl, k),
            };
            s.push_str(&format!("fn deadd{}() -> int {{\n{}}}\nfn uselate{}() -> int {{\n  let t = Late{} {{ x: 2 }}\n  return t.x\n}}\n", k, holder, k, k));
        }
        if !nested_only && self.rng.chance(1, 5) {
            // a type parameter spelled in lower case or like a builtin, mentioned only INSIDE a container type,
            // with every spelling of the container names; the callee has a loop so that the inliner leaves it alone
            self.st.hit("odd-type-param-inside-container");
            let k = self.fresh;
            self.fresh += 1;
            let tp = *self.rng.pick(&["t", "u", "elem", "Int", "Float", "String"]);
            let (cont, mk) = *self.rng.pick(&[("vec", "Vec"), ("Vec", "Vec"), ("VEC", "Vec"), ("array", "Array"), ("Array", "Array")]);
            let nested = self.rng.chance(1, 3);
            let (pty, a1, a2) = if nested {
                let (inner, imk) = if mk == "Vec" { ("array", "Array") } else { ("vec", "Vec") };
                (format!("{}<{}<{}> >", cont, inner, tp), format!("{}[{}[1, 2]]", mk, imk), format!("{}[{}[\"a\"]]", mk, imk))
            } else {
                (format!("{}<{}>", cont, tp), format!("{}[1, 2, 3]", mk), format!("{}[\"a\", \"b\"]", mk))
            };
            s.push_str(&format!("fn cnt{}<{}>(xs: {}, limit: int) -> int {{\n  let mut n = 0\n  while n < limit {{\n    n = n + 1\n  }}\n  return n\n}}\nfn usecnt{}() -> int {{\n  let v = {}\n  let w = {}\n  return cnt{}(v, 3) + cnt{}(w, 2)\n}}\n", k, tp, pty, k, a1, a2, k, k));
        }
        if !nested_only && self.rng.chance(1, 12) {
            // a type parameter that occurs in no parameter type cannot be inferred at a call
            self.st.hit("type-param-not-in-parameters");
            let k = self.fresh;
            self.fresh += 1;
            s.push_str(&format!("fn make{}<T>() -> int {{\n  return 1\n}}\nfn usemake{}() -> int {{\n  return make{}()\n}}\n", k, k, k));
        }
        if self.rng.chance(1, 4) {
            // a name shadowed inside a block / loop and used again afterwards (also shadowing a top-level let)
            self.st.hit("shadowing-in-inner-scope");
            let k = self.fresh;
            self.fresh += 1;
            let g = if with_global { "  {\n    let gk = 2\n    print(gk)\n  }\n  print(gk)\n" } else { "" };
            s.push_str(&format!("fn sh{}(c: bool) -> int {{\n  let x = 1\n  if c {{\n    let x = \"s\"\n    print(x)\n  }}\n  for x in 0..2 {{\n    print(x)\n  }}\n{}  return x\n}}\n", k, g));
        }
        if self.rng.chance(1, 3) {
            // a function taking a function value (its type is inferred, not annotated)
            self.st.hit("higher-order-fn");
            let h = self.name("ap");
            s.push_str(&format!("fn {}(f, x: int) -> int {{\n  return f(x)\n}}\nfn use{}() -> int {{\n  let k = fn(a: int) -> int {{ return a + 1 }}\n  return {}(k, 2)\n}}\n", h, h, h));
        }
        if self.rng.chance(1, 4) {
            self.st.hit("explicit-null-result");
            s.push_str(&format!("fn nothing{}(a: int) -> void {{\n  print(a)\n}}\n", self.fresh));
        }
        s.push_str("print(add2(1, 2))\n");
        s
    }
}

// ------------------------------------------------------------------------------------------
// typed signatures -> term of Model/AirTypes.v (tie (d): how type names are lowered)
fn structs_in_expr(e: &TypedExpr, out: &mut Vec<String>) {
    use TypedExprKind as K;
    match &e.kind {
        K::Int(_) | K::Float(_) | K::Bool(_) | K::String(_) | K::Null | K::Identifier(_) => {}
        K::FmtString(parts) => {
            for p in parts {
                if let TypedFmtStringPart::Expr(x) = p {
                    structs_in_expr(x, out);
                }
            }
        }
        K::Binary { left, right, .. } | K::And { left, right } | K::Or { left, right } => {
            structs_in_expr(left, out);
            structs_in_expr(right, out);
        }
        K::Unary { operand, .. } => structs_in_expr(operand, out),
        K::Call { callee, args } => {
            for a in args {
                structs_in_expr(a, out);
            }
            structs_in_expr(callee, out);
        }
        K::Assign { value, .. } => structs_in_expr(value, out),
        K::Grouping(i) | K::Lambda(i) => structs_in_expr(i, out),
        K::If { condition, then_branch, else_branch } => {
            structs_in_expr(condition, out);
            structs_in_expr(then_branch, out);
            structs_in_expr(else_branch, out);
        }
        K::LambdaInner { body, .. } => structs_in_stmts(body, out),
        K::Member { object, .. } => structs_in_expr(object, out),
        K::ArrayLiteral { elements, .. } | K::VecLiteral { elements, .. } => {
            for x in elements {
                structs_in_expr(x, out);
            }
        }
        K::ArraySized { size, .. } => structs_in_expr(size, out),
        K::Index { object, index } => {
            structs_in_expr(object, out);
            structs_in_expr(index, out);
        }
        K::IndexAssign { object, index, value } => {
            structs_in_expr(object, out);
            structs_in_expr(index, out);
            structs_in_expr(value, out);
        }
        K::Range { start, end, .. } => {
            if let Some(x) = start {
                structs_in_expr(x, out);
            }
            if let Some(x) = end {
                structs_in_expr(x, out);
            }
        }
        K::Slice { object, range } => {
            structs_in_expr(object, out);
            structs_in_expr(range, out);
        }
        K::StructLiteral { fields, .. } => {
            for (_, v) in fields {
                structs_in_expr(v, out);
            }
        }
        K::Cast { expr, .. } => structs_in_expr(expr, out),
    }
}

fn structs_in_stmts(stmts: &[TypedStmt], out: &mut Vec<String>) {
    use TypedStmtKind as K;
    for s in stmts {
        match &s.kind {
            K::Expression(e) => structs_in_expr(e, out),
            K::Let { initializer, .. } => structs_in_expr(initializer, out),
            K::Block(b) => structs_in_stmts(b, out),
            K::If { condition, then_branch, else_branch } => {
                structs_in_expr(condition, out);
                structs_in_stmts(std::slice::from_ref(then_branch), out);
                if let Some(e) = else_branch {
                    structs_in_stmts(std::slice::from_ref(e), out);
                }
            }
            K::While { condition, body } => {
                structs_in_expr(condition, out);
                structs_in_stmts(std::slice::from_ref(body), out);
            }
            K::For { start, end, step, body, .. } => {
                structs_in_expr(start, out);
                structs_in_expr(end, out);
                structs_in_stmts(std::slice::from_ref(body), out);
                if let Some(x) = step.as_ref() {
                    structs_in_expr(x, out);
                }
            }
            K::ForEach { iterable, body, .. } => {
                structs_in_expr(iterable, out);
                structs_in_stmts(std::slice::from_ref(body), out);
            }
            K::Return(Some(e)) => structs_in_expr(e, out),
            K::Return(None) | K::Break | K::Continue | K::Needs(_) => {}
            K::Function(f) => structs_in_stmts(&f.body, out),
            K::StructDecl { name, .. } => out.push(name.clone()),
        }
    }
}

fn ity_term(t: &InferType, enc: &mut MonoEnc) -> String {
    match t {
        InferType::I8 => "(IPrim 0)".into(),
        InferType::I16 => "(IPrim 1)".into(),
        InferType::I32 => "(IPrim 2)".into(),
        InferType::I64 => "(IPrim 3)".into(),
        InferType::U8 => "(IPrim 4)".into(),
        InferType::U16 => "(IPrim 5)".into(),
        InferType::U32 => "(IPrim 6)".into(),
        InferType::U64 => "(IPrim 7)".into(),
        InferType::F32 => "(IPrim 8)".into(),
        InferType::F64 => "(IPrim 9)".into(),
        InferType::Bool => "(IPrim 10)".into(),
        InferType::String => "(IPrim 11)".into(),
        InferType::Null | InferType::Tuple(_) | InferType::Range => "IVoid".into(),
        InferType::Function { params, ret } => {
            let mut s = String::from("INil");
            for p in params.iter().rev() {
                s = format!("(ICons {} {})", ity_term(p, enc), s);
            }
            format!("(IFun {} {})", s, ity_term(ret, enc))
        }
        InferType::Array(i) | InferType::Vec(i) => format!("(ISeq {})", ity_term(i, enc)),
        InferType::Struct(n) => format!("(IName {})", enc.id(n)),
        InferType::Var(_) | InferType::Dynamic => "IDyn".into(),
    }
}

/// (items term, observed signatures of the top-level functions) or None when a top-level
/// function cannot be matched to its AirFunction by name
fn types_case(tp: &TypedProgram, pre: &AirProgram) -> Option<(String, String)> {
    let mut enc = MonoEnc { names: HashMap::new() };
    let mut items = Vec::new();
    let mut obs = Vec::new();
    for st in &tp.stmts {
        match &st.kind {
            TypedStmtKind::StructDecl { name, .. } => items.push(format!("TIStruct {}", enc.id(name))),
            TypedStmtKind::Function(f) => {
                let mut found = pre.functions.iter().filter(|a| a.name == f.name);
                let af = found.next()?;
                if found.next().is_some() {
                    return None;
                }
                let tps: Vec<u32> = f.type_params.iter().map(|n| enc.id(n)).collect();
                let ps: Vec<String> = f.params.iter().map(|p| ity_term(&p.ty, &mut enc)).collect();
                let ret = ity_term(&f.return_type, &mut enc);
                let mut bs = Vec::new();
                structs_in_stmts(&f.body, &mut bs);
                let bs: Vec<u32> = bs.iter().map(|n| enc.id(n)).collect();
                items.push(format!("TIFn {} [{}] {} {}", nlist(&tps), ps.join(";"), ret, nlist(&bs)));
                let skip = if f.captures.is_empty() { 0 } else { 1 };
                let mut tys: Vec<AirType> = af.params.iter().skip(skip).map(|p| p.ty.clone()).collect();
                tys.push(af.ret_ty.clone());
                obs.push(enc.tys(&tys));
            }
            _ => {}
        }
    }
    Some((format!("[{}]", items.join(";")), format!("[{}]", obs.join(";"))))
}

fn collect_tp_names(stmts: &[TypedStmt], out: &mut Vec<String>) {
    for s in stmts {
        match &s.kind {
            TypedStmtKind::Function(f) => {
                out.extend(f.type_params.iter().cloned());
                collect_tp_names(&f.body, out);
            }
            TypedStmtKind::StructDecl { type_params, .. } => out.extend(type_params.iter().cloned()),
            TypedStmtKind::Block(b) => collect_tp_names(b, out),
            _ => {}
        }
    }
}

// ------------------------------------------------------------------------------------------
fn run_case(case: &str, code: &str, modes: &[&str], st: &mut Stats) {
    println!("SRC\t{}\t{}", case, esc(code));
    let typed = match guarded(std::panic::AssertUnwindSafe(|| front(code))) {
        Ok(Ok(t)) => t,
        Ok(Err(e)) => {
            st.hit("rejected-by-frontend");
            println!("REJ\t{}\t{}", case, esc(&e));
            return;
        }
        Err(p) => {
            st.hit("frontend-panic");
            println!("REJ\t{}\tpanic: {}", case, esc(&p));
            return;
        }
    };
    st.hit("accepted");
    for mode in modes {
        let tp = if *mode == "sema" {
            typed.clone()
        } else {
            let t2 = typed.clone();
            let level = match *mode {
                "O1" => aelys_opt::OptimizationLevel::Basic,
                "O3" => aelys_opt::OptimizationLevel::Aggressive,
                _ => aelys_opt::OptimizationLevel::Standard,
            };
            match guarded(std::panic::AssertUnwindSafe(move || {
                let mut o = aelys_opt::Optimizer::new(level);
                o.optimize(t2)
            })) {
                Ok(t) => t,
                Err(_) => {
                    st.hit("optimizer-panic-skipped");
                    continue;
                }
            }
        };
        let sk = sk_program(&tp);
        let tp2 = tp.clone();
        let lowered = guarded(std::panic::AssertUnwindSafe(move || aelys_air::lower::lower(&tp2)));
        let pre = match lowered {
            Ok(p) => p,
            Err(m) => {
                println!("PANIC\t{}\t{}\tlower\t{}", case, mode, esc(&m));
                continue;
            }
        };
        // contract tie for the skeleton
        let rows: Vec<String> = pre.functions.iter().map(|f| rows_term(&canon_fn(f).0)).collect();
        println!("SK\t{}\t{}\t{}\t[{}]", case, mode, sk, rows.join(";"));
        // tie (e): how many ids each function lists as parameters, declares, and mentions
        let lrows: Vec<String> = pre.functions.iter().map(|f| {
            let c = validate::local_counts(f);
            format!("[{};{};{};{}]", c[0], c[1], c[2], c[3])
        }).collect();
        println!("LO\t{}\t{}\t{}\t[{}]", case, mode, sk, lrows.join(";"));
        if let Some((q, o)) = types_case(&tp, &pre) {
            println!("TY\t{}\t{}\t{}\t{}", case, mode, q, o);
        }
        // pre-mono index of a function id
        let idx_of = |id: u32| pre.functions.iter().position(|f| f.id.0 == id);
        let mut tp_names: Vec<String> = Vec::new();
        collect_tp_names(&tp.stmts, &mut tp_names);
        let mut declared_structs: Vec<String> = Vec::new();
        structs_in_stmts(&tp.stmts, &mut declared_structs);
        let mut declared_before_opt: Vec<String> = Vec::new();
        structs_in_stmts(&typed.stmts, &mut declared_before_opt);
        let mut toplevel_nested: Vec<String> = Vec::new();
        for st0 in &tp.stmts {
            if !matches!(st0.kind, TypedStmtKind::Function(_) | TypedStmtKind::StructDecl { .. }) {
                structs_in_stmts(std::slice::from_ref(st0), &mut toplevel_nested);
            }
        }
        // type parameters of generic functions that occur in none of their parameter types (source level)
        let mut uninferable: Vec<String> = Vec::new();
        fn mentions_name(t: &InferType, n: &str) -> bool {
            match t {
                InferType::Struct(x) => x == n,
                InferType::Array(i) | InferType::Vec(i) => mentions_name(i, n),
                InferType::Function { params, ret } => params.iter().any(|p| mentions_name(p, n)) || mentions_name(ret, n),
                InferType::Tuple(v) => v.iter().any(|p| mentions_name(p, n)),
                _ => false,
            }
        }
        fn collect_uninferable(stmts: &[TypedStmt], out: &mut Vec<String>) {
            for s in stmts {
                if let TypedStmtKind::Function(f) = &s.kind {
                    if f.type_params.iter().any(|tp| !f.params.iter().any(|p| mentions_name(&p.ty, tp))) {
                        out.push(f.name.clone());
                    }
                    collect_uninferable(&f.body, out);
                }
            }
        }
        collect_uninferable(&tp.stmts, &mut uninferable);
        // what counts for the open finding is what the SOURCE says (the typed program may have lost a mention)
        let uninferable: Vec<String> = SOURCE_UNINFERABLE.with(|c| c.borrow().clone());
        let mut generic_ids: Vec<u32> = pre.functions.iter().filter(|f| !f.type_params.is_empty()).map(|f| f.id.0).collect();
        let mut fs = Vec::new();
        validate::structural(&pre, &tp_names, &generic_ids, &declared_structs, &toplevel_nested, &declared_before_opt, &mut fs);
        for f in &fs {
            let ix = idx_of(f.fn_id).map(|i| i as i64).unwrap_or(-1);
            println!("V\t{}\t{}\tpre\t{}\t{}\t{}\t{}", case, mode, ix, esc(&f.fn_name), f.kind, esc(&f.detail));
        }
        let pre2 = pre.clone();
        // the calls AirLowerStage makes: a layout error ends the stage with a diagnostic
        let post = guarded(std::panic::AssertUnwindSafe(move || {
            let mut p = pre2;
            match aelys_air::layout::try_compute_layouts(&mut p) {
                Ok(()) => Ok(aelys_air::mono::monomorphize(p)),
                Err(e) => Err(e.to_string()),
            }
        }));
        let post = match post {
            Ok(Ok(p)) => p,
            Ok(Err(e)) => {
                st.hit("layout-error-reported");
                println!("LAYOUTERR\t{}\t{}\t{}", case, mode, esc(&e));
                continue;
            }
            Err(m) => {
                println!("PANIC\t{}\t{}\tlayout+mono\t{}", case, mode, esc(&m));
                continue;
            }
        };
        let mut fs = Vec::new();
        generic_ids.extend(post.mono_instances.iter().map(|i| i.result.0));
        validate::structural(&post, &tp_names, &generic_ids, &declared_structs, &toplevel_nested, &declared_before_opt, &mut fs);
        validate::after_mono(&pre, &post, &tp_names, &uninferable, &mut fs);
        for f in &fs {
            // instances inherit the CFG of their generic original
            let src_id = post.mono_instances.iter().find(|i| i.result.0 == f.fn_id).map(|i| i.original.0).unwrap_or(f.fn_id);
            let ix = idx_of(src_id).map(|i| i as i64).unwrap_or(-1);
            println!("V\t{}\t{}\tpost\t{}\t{}\t{}\t{}", case, mode, ix, esc(&f.fn_name), f.kind, esc(&f.detail));
        }
        // the same typed program through the driver's pipeline stage (what `run` / the standard pipeline use):
        // same oracle on its output, and the output must equal the library path's
        {
            use aelys_driver::pipeline::stages::AirLowerStage;
            use aelys_driver::pipeline::{Stage, StageInput, StageOutput};
            let tp3 = tp.clone();
            let staged = guarded(std::panic::AssertUnwindSafe(move || {
                let src = tp3.source.clone();
                let mut stage = AirLowerStage;
                stage.execute(StageInput::TypedAst(tp3, src))
            }));
            match staged {
                Ok(Ok(StageOutput::Air(sp, _, _))) => {
                    let mut fs2 = Vec::new();
                    validate::structural(&sp, &tp_names, &generic_ids, &declared_structs, &toplevel_nested, &declared_before_opt, &mut fs2);
                    validate::after_mono(&pre, &sp, &tp_names, &uninferable, &mut fs2);
                    for f in &fs2 {
                        let src_id = sp.mono_instances.iter().find(|i| i.result.0 == f.fn_id).map(|i| i.original.0).unwrap_or(f.fn_id);
                        let ix = idx_of(src_id).map(|i| i as i64).unwrap_or(-1);
                        println!("V\t{}\t{}\tstage\t{}\t{}\t{}\t{}", case, mode, ix, esc(&f.fn_name), f.kind, esc(&f.detail));
                    }
                    let a = mono_case(&pre, &post).1;
                    let b = mono_case(&pre, &sp).1;
                    let rows_a: Vec<String> = post.functions.iter().map(|f| rows_term(&canon_fn(f).0)).collect();
                    let rows_b: Vec<String> = sp.functions.iter().map(|f| rows_term(&canon_fn(f).0)).collect();
                    if a != b || rows_a != rows_b || post.structs.len() != sp.structs.len() {
                        println!("PD\t{}\t{}\t{}\t{}", case, mode, esc(&a), esc(&b));
                    }
                    st.hit("pipeline-stage-outputs-compared");
                }
                Ok(Ok(_)) => println!("PD\t{}\t{}\tstage returned no AIR\t-", case, mode),
                Ok(Err(e)) => {
                    let msg = format!("{}", e);
                    println!("PD\t{}\t{}\tstage error: {}\t-", case, mode, esc(&msg))
                }
                Err(m) => println!("PANIC\t{}\t{}\tair-lower-stage\t{}", case, mode, esc(&m)),
            }
        }
        let has_generics = pre.functions.iter().any(|f| !f.type_params.is_empty());
        if has_generics {
            st.hit("programs-with-generics");
        }
        let (q, o) = mono_case(&pre, &post);
        println!("MO\t{}\t{}\t{}\t{}", case, mode, q, o);
        println!(
            "INFO\t{}\t{}\tfns={} blocks={} insts={}",
            case,
            mode,
            post.functions.len(),
            post.functions.iter().map(|f| f.blocks.len()).sum::<usize>(),
            post.mono_instances.len()
        );
    }
}

// ------------------------------------------------------------------------------------------
// tie (f): the private helpers of mono.rs (through the verif hook) against the model's functions,
// on random types that include the variants lower() never produces (Ptr, fixed Array)
#[cfg(vbxq_aelys_lang_verif)]
mod typefn {
    use super::*;
    use aelys_air::mono::verif;

    pub fn rand_ty(rng: &mut Rng, d: u32, max_param: u32) -> AirType {
        let leaf = d == 0 || rng.chance(2, 5);
        if leaf {
            return match rng.below(8) {
                0 => AirType::I64,
                1 => AirType::Str,
                2 => AirType::Bool,
                3 => AirType::F64,
                4 => AirType::Struct(if rng.chance(1, 2) { "S".into() } else { "P".into() }),
                5 => AirType::I32,
                _ => AirType::Param(TypeParamId(rng.below(max_param as u64 + 1) as u32)),
            };
        }
        match rng.below(4) {
            0 => AirType::Ptr(Box::new(rand_ty(rng, d - 1, max_param))),
            1 => AirType::Slice(Box::new(rand_ty(rng, d - 1, max_param))),
            2 => AirType::Array(Box::new(rand_ty(rng, d - 1, max_param)), 2 + rng.below(2)),
            _ => {
                let n = rng.below(3);
                AirType::FnPtr {
                    params: (0..n).map(|_| rand_ty(rng, d - 1, max_param)).collect(),
                    ret: Box::new(rand_ty(rng, d - 1, max_param)),
                    conv: CallingConv::Aelys,
                }
            }
        }
    }
    fn closed(rng: &mut Rng, d: u32) -> AirType {
        // a type without parameters: replace them
        let t = rand_ty(rng, d, 0);
        verif::substitute(&t, &[TypeParamId(0)], &[AirType::U8])
    }
    fn mutate(rng: &mut Rng, t: &AirType) -> AirType {
        match t {
            AirType::Ptr(i) if rng.chance(1, 2) => AirType::Slice(i.clone()),
            AirType::Slice(i) if rng.chance(1, 2) => AirType::Array(i.clone(), 2),
            AirType::Array(i, n) if rng.chance(1, 2) => AirType::Array(i.clone(), n + 1),
            AirType::Ptr(i) => AirType::Ptr(Box::new(mutate(rng, i))),
            AirType::Slice(i) => AirType::Slice(Box::new(mutate(rng, i))),
            AirType::Array(i, n) => AirType::Array(Box::new(mutate(rng, i)), *n),
            AirType::FnPtr { params, ret, conv } => {
                let mut ps = params.clone();
                if !ps.is_empty() && rng.chance(1, 2) {
                    let k = rng.below(ps.len() as u64) as usize;
                    ps[k] = mutate(rng, &ps[k]);
                    AirType::FnPtr { params: ps, ret: ret.clone(), conv: *conv }
                } else if rng.chance(1, 3) {
                    ps.push(AirType::Bool);
                    AirType::FnPtr { params: ps, ret: ret.clone(), conv: *conv }
                } else {
                    AirType::FnPtr { params: ps, ret: Box::new(mutate(rng, ret)), conv: *conv }
                }
            }
            AirType::I64 => AirType::I32,
            AirType::Param(i) => AirType::Param(TypeParamId(i.0 + 1)),
            _ => AirType::I64,
        }
    }
    fn blank_fn(params: Vec<AirParam>, type_params: Vec<TypeParamId>) -> AirFunction {
        AirFunction {
            id: FunctionId(0),
            name: "g".into(),
            gc_mode: GcMode::Managed,
            type_params,
            params,
            ret_ty: AirType::I64,
            locals: Vec::new(),
            blocks: Vec::new(),
            is_extern: false,
            calling_conv: CallingConv::Aelys,
            attributes: FunctionAttribs { inline: InlineHint::Default, no_gc: false, no_unwind: false, cold: false },
            span: None,
        }
    }

    pub fn run(rng: &mut Rng, n: u64) {
        let mut enc = MonoEnc { names: HashMap::new() };
        for _ in 0..n {
            // keys: equal strings <-> equal normal forms
            let a = rand_ty(rng, 3, 2);
            let b = if rng.chance(1, 3) { a.clone() } else if rng.chance(1, 2) { mutate(rng, &a) } else { rand_ty(rng, 3, 2) };
            println!("FK\t({}, {})\t{}", enc.ty(&a), enc.ty(&b), verif::type_key(&a) == verif::type_key(&b));
            // substitution
            let np = 1 + rng.below(3) as u32;
            let tps: Vec<TypeParamId> = (0..np).map(TypeParamId).collect();
            let nargs = if rng.chance(1, 6) { np.saturating_sub(1) } else { np };
            let tas: Vec<AirType> = (0..nargs).map(|_| closed(rng, 2)).collect();
            let t = rand_ty(rng, 3, np); // may mention a parameter that is not in scope
            let r = verif::substitute(&t, &tps, &tas);
            let tpl: Vec<u32> = tps.iter().map(|x| x.0).collect();
            println!("FS\t({}, {}, {})\t{}", nlist(&tpl), enc.tys(&tas), enc.ty(&t), enc.ty(&r));
            // inference of type arguments
            let nparams = 1 + rng.below(3);
            let ptys: Vec<AirType> = (0..nparams).map(|_| rand_ty(rng, 2, np - 1)).collect();
            let params: Vec<AirParam> = ptys.iter().enumerate().map(|(i, t)| AirParam { id: LocalId(i as u32), ty: t.clone(), name: format!("p{}", i), span: None }).collect();
            let g = blank_fn(params, tps.clone());
            // arguments: the parameter types with closed types plugged in (so that inference can succeed), sometimes unrelated
            let plug: Vec<AirType> = (0..np).map(|_| closed(rng, 1)).collect();
            let atys: Vec<AirType> = ptys.iter().map(|t| if rng.chance(1, 5) { closed(rng, 2) } else { verif::substitute(t, &tps, &plug) }).collect();
            let args: Vec<Operand> = atys.iter().map(|t| Operand::Const(AirConst::ZeroInit(t.clone()))).collect();
            let caller = blank_fn(Vec::new(), Vec::new());
            let got = verif::infer(&g, &args, &caller);
            let obs = match got {
                Some(v) => format!("Some {}", enc.tys(&v)),
                None => "None".to_string(),
            };
            println!("FI\t({}, {}, {})\t{}", nlist(&tpl), enc.tys(&ptys), enc.tys(&atys), obs);
        }
    }
}

fn main() {
    quiet_panics();
    let seed = arg_u64("--seed", 0);
    let count = arg_u64("--count", 200);
    let modes_s = arg("--modes").unwrap_or_else(|| "sema,O2".into());
    let modes: Vec<&str> = modes_s.split(',').collect();
    let mut st = Stats::default();
    if let Some(dir) = arg("--corpus") {
        let mut files: Vec<_> = std::fs::read_dir(&dir).map(|d| d.filter_map(|e| e.ok()).map(|e| e.path()).collect()).unwrap_or_else(|_| Vec::new());
        files.sort();
        for f in files {
            if f.extension().and_then(|e| e.to_str()) == Some("aelys") {
                let code = std::fs::read_to_string(&f).unwrap_or_default();
                let name = format!("corpus:{}", f.file_name().unwrap().to_string_lossy());
                run_case(&name, &code, &modes, &mut st);
            }
        }
    }
    if let Some(src) = arg("--source-escaped") {
        run_case("replay", &unesc(&src), &modes, &mut st);
    }
    let mut rng = Rng::new(seed.wrapping_mul(0x1000_0001).wrapping_add(17));
    for i in 0..count {
        let code = {
            let mut g = Gen { rng: &mut rng, fresh: 0, st: &mut st, generics: Vec::new(), budget: 100, fns: Vec::new() };
            g.program()
        };
        run_case(&format!("g{}", i), &code, &modes, &mut st);
    }
    #[cfg(vbxq_aelys_lang_verif)]
    {
        let n = arg_u64("--typefn", 0);
        if n > 0 {
            let mut r2 = Rng::new(seed ^ 0x7f4a_7c15);
            typefn::run(&mut r2, n);
        }
    }
    for (k, v) in &st.c {
        println!("STAT\t{}\t{}", k, v);
    }
}
