//! C09 contract tie + direct oracle for manual memory.
//!
//! Seeded random operation histories are driven through
//!   api      ManualHeap's public API (alloc/free/load/store/size/bytes_allocated)
//!   builtin  the native builtins, reached as first-class values (`let bi_alloc = alloc; bi_alloc(3)`)
//!   opcode   direct calls, which the compiler turns into opcodes 28..33 (top level with constant
//!            operands => LoadMemI/StoreMemI, or inside `@no_gc` functions => LoadMem/StoreMem)
//!   bytes    std.bytes through generated programs (see bytes.rs)
//! One REPL input per operation on one VM per history, so that what an error leaves behind is
//! observed by the following steps.
//!
//! Output, one line per history:   <Coq query term>\t<observation vector>
//! plus   !ORACLE\t<signature>\t<detail>   for every step on which the implementation's own answers
//! contradict the property as worded (reference = a map of arrays kept here, no Coq model involved),
//! and    #DIST\t<key>\t<count>          input-distribution counters.
use aelys_runtime::vm::manual_heap::ManualHeapError;
use aelys_runtime::{ManualHeap, Value};
use hxlib::*;
use std::collections::{BTreeMap, BTreeSet};

#[path = "hx_mheap/bytes.rs"]
mod bytes;

// ----------------------------------------------------------------------------- operations
#[derive(Clone, Copy, Debug, PartialEq)]
pub enum A { I(i128), Null, Flt }

#[derive(Clone, Debug)]
pub struct Op { pub k: u8, pub a: A, pub b: A, pub v: u64, pub vsrc: String, pub via_fn: bool }
pub const ALLOC: u8 = 0;
pub const FREE: u8 = 1;
pub const LOAD: u8 = 2;
pub const STORE: u8 = 3;
pub const SIZE: u8 = 4;

/// result codes shared with Model/ManualHeapObs.v
pub const OK_HANDLE: i64 = 0;
pub const OK_UNIT: i64 = 1;
pub const OK_VAL: i64 = 2;
pub const OK_SIZE: i64 = 3;
pub const E_INVALID_SIZE: i64 = 10;
pub const E_INVALID_HANDLE: i64 = 11;
pub const E_DOUBLE_FREE: i64 = 12;
pub const E_USE_AFTER_FREE: i64 = 13;
pub const E_OOB: i64 = 14;
pub const E_NEG: i64 = 15;
pub const E_TYPE: i64 = 16;
pub const E_OOM: i64 = 17;
pub const E_OTHER: i64 = 50;
pub const E_COMPILE: i64 = 60;
pub const PANIC: i64 = 99;

#[derive(Clone, Copy, Debug, PartialEq)]
pub struct Res { pub code: i64, pub val: i128 }
fn is_ok(c: i64) -> bool { c < 10 }

fn mh_err(e: &ManualHeapError) -> i64 {
    match e {
        ManualHeapError::InvalidSize => E_INVALID_SIZE,
        ManualHeapError::InvalidHandle => E_INVALID_HANDLE,
        ManualHeapError::DoubleFree { .. } => E_DOUBLE_FREE,
        ManualHeapError::UseAfterFree { .. } => E_USE_AFTER_FREE,
        ManualHeapError::OutOfBounds { .. } => E_OOB,
    }
}

// ----------------------------------------------------------------------------- surfaces
trait Surface {
    fn exec(&mut self, op: &Op) -> Res;
    fn heap(&self) -> &ManualHeap;
    /// canonical form of a stored word: a pointer to a live string "pay<k>" becomes the placeholder PH(k)
    fn canon(&self, bits: u64) -> u64 { bits }
    /// between two operations (the direct-call surface forces collections here)
    fn after_step(&mut self, _rng: &mut Rng, _dist: &mut Dist) {}
}

/// placeholder word standing for "a freshly allocated heap string with content pay<k>" in the model,
/// the reference and the observations (the real word is a pointer nobody can predict)
pub const PH_BASE: u64 = 1 << 60;
pub fn ph(k: u64) -> u64 { PH_BASE + k }
pub fn ph_k(w: u64) -> Option<u64> { if w >= PH_BASE && w < PH_BASE + 100_000_000 { Some(w - PH_BASE) } else { None } }

struct Api { h: ManualHeap }
impl Surface for Api {
    fn exec(&mut self, op: &Op) -> Res {
        let u = |a: A| -> usize { match a { A::I(n) => n as u64 as usize, _ => 0 } };
        let h = &mut self.h;
        let opc = op.clone();
        let r = guarded(std::panic::AssertUnwindSafe(move || match opc.k {
            ALLOC => match h.alloc(u(opc.a), 1) { Ok(x) => Res { code: OK_HANDLE, val: x as i128 }, Err(e) => Res { code: mh_err(&e), val: 0 } },
            FREE => match h.free(u(opc.a), 2) { Ok(()) => Res { code: OK_UNIT, val: 0 }, Err(e) => Res { code: mh_err(&e), val: 0 } },
            LOAD => match h.load(u(opc.a), u(opc.b)) { Ok(v) => Res { code: OK_VAL, val: v.raw_bits() as i128 }, Err(e) => Res { code: mh_err(&e), val: 0 } },
            STORE => match h.store(u(opc.a), u(opc.b), Value::from_raw(opc.v)) { Ok(()) => Res { code: OK_UNIT, val: 0 }, Err(e) => Res { code: mh_err(&e), val: 0 } },
            _ => match h.size(u(opc.a)) { Ok(n) => Res { code: OK_SIZE, val: n as i128 }, Err(e) => Res { code: mh_err(&e), val: 0 } },
        }));
        r.unwrap_or(Res { code: PANIC, val: 0 })
    }
    fn heap(&self) -> &ManualHeap { &self.h }
}

#[cfg(vbxq_aelys_lang_verif)]
pub mod vmrun {
    use super::*;
    use aelys_common::error::{AelysError, RuntimeErrorKind};
    use aelys_runtime::{VM, VmConfig};

    pub fn new_vm(max_heap: u64) -> VM {
        let cfg = VmConfig::new(max_heap).expect("config");
        aelys_driver::new_vm_with_config(cfg, Vec::new()).expect("vm")
    }

    pub fn rt_kind(k: &RuntimeErrorKind) -> i64 {
        match k {
            RuntimeErrorKind::InvalidAllocationSize { .. } => E_INVALID_SIZE,
            RuntimeErrorKind::InvalidMemoryHandle => E_INVALID_HANDLE,
            RuntimeErrorKind::DoubleFree => E_DOUBLE_FREE,
            RuntimeErrorKind::UseAfterFree => E_USE_AFTER_FREE,
            RuntimeErrorKind::MemoryOutOfBounds { .. } => E_OOB,
            RuntimeErrorKind::NegativeMemoryIndex { .. } => E_NEG,
            RuntimeErrorKind::TypeError { .. } => E_TYPE,
            RuntimeErrorKind::OutOfMemory { .. } => E_OOM,
            _ => E_OTHER,
        }
    }

    /// a VM that may use std.fs / std.net (needed to call fs.close / net.close on byte-buffer handles)
    pub fn new_vm_trusted(max_heap: u64) -> VM {
        let mut cfg = VmConfig::new(max_heap).expect("config");
        cfg.capabilities.set_all(true);
        aelys_driver::new_vm_with_config(cfg, Vec::new()).expect("vm")
    }

    /// one REPL input; returns (code, raw bits of the value, detail message of an error)
    pub fn input(vm: &mut VM, src: &str, opt: u32) -> (i64, u64, String) {
        aelys_runtime::verif::sink_install();
        let r = guarded(std::panic::AssertUnwindSafe(|| {
            aelys_driver::run_with_vm_and_opt(vm, src, "<verif>", hxlib::runner::opt_level(opt))
        }));
        let _ = aelys_runtime::verif::sink_take();
        match r {
            Ok(Ok(v)) => (OK_VAL, v.raw_bits(), String::new()),
            Ok(Err(AelysError::Compile(e))) => (E_COMPILE, 0, format!("{}", e)),
            Ok(Err(AelysError::Runtime(e))) => (rt_kind(&e.kind), 0, e.kind.message()),
            Err(p) => (PANIC, 0, p),
        }
    }

    pub fn arg_src(a: A) -> String {
        match a { A::I(n) => format!("{}", n), A::Null => "null".into(), A::Flt => "1.5".into() }
    }

    pub struct VmSurface { pub vm: VM, pub builtin: bool, pub opt: u32, pub direct: bool, pub other: u64, pub gc: bool }
    impl VmSurface {
        pub fn new(builtin: bool, opt: u32, max_heap: u64) -> Self {
            let mut vm = new_vm(max_heap);
            let prelude = if builtin {
                "let bi_alloc = alloc\nlet bi_free = free\nlet bi_load = load\nlet bi_store = store\n0"
            } else {
                "@no_gc\nfn ng_alloc(n) { return alloc(n) }\n@no_gc\nfn ng_free(h) { free(h)\n return null }\n\
                 @no_gc\nfn ng_load(h, o) { return load(h, o) }\n@no_gc\nfn ng_store(h, o, v) { store(h, o, v)\n return null }\n\
                 @no_gc\nfn ng_load_unused(h, o) { let t = load(h, o)\n return 0 }\n0"
            };
            let (c, _, d) = input(&mut vm, prelude, opt);
            if c != OK_VAL { panic!("prelude failed: {} {}", c, d); }
            VmSurface { vm, builtin, opt, direct: false, other: 0, gc: false }
        }
        /// function-level tie: the native builtins called directly with Values (no compiler involved)
        pub fn new_direct(max_heap: u64) -> Self {
            VmSurface { vm: new_vm(max_heap), builtin: true, opt: 0, direct: true, other: 0, gc: false }
        }
        fn val(&mut self, a: A) -> Value {
            match a {
                A::I(n) => Value::int(n as i64),
                A::Null => Value::null(),
                // "some other kind": floats, bools, a pointer-tagged word, a nested-fn marker
                A::Flt => { self.other += 1; match self.other % 5 { 0 => Value::float(1.5), 1 => Value::bool(true), 2 => Value::float(f64::NAN), 3 => Value::bool(false), _ => Value::float(-0.0) } }
            }
        }
        /// collect at every safepoint (REPL surfaces) / between operations (direct surface)
        pub fn force_gc(&mut self, on: bool) {
            self.gc = on;
            if !self.direct { aelys_runtime::verif::gc_mode_set(if on { 2 } else { 0 }, 0); }
        }
        fn canon_bits(&self, bits: u64) -> u64 {
            let v = Value::from_raw(bits);
            if v.as_ptr().is_some() {
                let t = self.vm.value_to_string(v);
                if let Some(k) = t.strip_prefix("pay").and_then(|x| x.parse::<u64>().ok()) { return ph(k); }
            }
            bits
        }
        fn exec_direct(&mut self, op: &Op) -> Res {
            let (a, b) = (self.val(op.a), self.val(op.b));
            let v = match ph_k(op.v) {
                Some(k) if op.k == STORE => match self.vm.alloc_string(&format!("pay{}", k)) { Ok(r) => Value::ptr(r.index()), Err(_) => Value::null() },
                _ => Value::from_raw(op.v),
            };
            let vm = &mut self.vm;
            let k = op.k;
            let r = guarded(std::panic::AssertUnwindSafe(move || match k {
                ALLOC => aelys_runtime::builtin_alloc(vm, &[a]),
                FREE => aelys_runtime::builtin_free(vm, &[a]),
                LOAD => aelys_runtime::builtin_load(vm, &[a, b]),
                _ => aelys_runtime::builtin_store(vm, &[a, b, v]),
            }));
            match r {
                Err(_) => Res { code: PANIC, val: 0 },
                Ok(Err(e)) => Res { code: rt_kind(&e.kind), val: 0 },
                Ok(Ok(v)) => match op.k {
                    ALLOC => match v.as_int() { Some(h) => Res { code: OK_HANDLE, val: h as i128 }, None => Res { code: E_OTHER, val: v.raw_bits() as i128 } },
                    LOAD => Res { code: OK_VAL, val: self.canon_bits(v.raw_bits()) as i128 },
                    _ => if v.is_null() { Res { code: OK_UNIT, val: 0 } } else { Res { code: E_OTHER, val: v.raw_bits() as i128 } },
                },
            }
        }
    }
    impl Surface for VmSurface {
        fn exec(&mut self, op: &Op) -> Res {
            if self.direct { return self.exec_direct(op); }
            let pre = if self.builtin { "bi_" } else if op.via_fn { "ng_" } else { "" };
            let src = match op.k {
                ALLOC => format!("{}alloc({})", pre, arg_src(op.a)),
                FREE => format!("{}free({})", pre, arg_src(op.a)),
                LOAD => format!("{}load({}, {})", pre, arg_src(op.a), arg_src(op.b)),
                _ => format!("{}store({}, {}, {})", pre, arg_src(op.a), arg_src(op.b), op.vsrc),
            };
            // a load whose result is not used must still perform its checks (an optimiser that treats
            // `load` as pure would delete it together with its bounds / freed-handle errors): run the load
            // once with its value thrown away, then again normally; both must agree on error / no error
            if !self.builtin && op.k == LOAD && (self.other + op.v) % 2 == 0 {
                let probe = if op.via_fn { format!("ng_load_unused({}, {})", arg_src(op.a), arg_src(op.b)) }
                            else { format!("let unused_{} = load({}, {})\n0", self.other, arg_src(op.a), arg_src(op.b)) };
                let (pc, _, _) = input(&mut self.vm, &probe, self.opt);
                let (c2, _, _) = input(&mut self.vm, &src, self.opt);
                if (pc == OK_VAL) != (c2 == OK_VAL) {
                    println!("!ORACLE\tmheap-oracle:opcode:load:unused-result-skips-the-checks\t`{}` (opt {}) {} while `{}` {}\tprobe: {}",
                             probe.replace('\n', " ; "), self.opt, if pc == OK_VAL { "succeeds" } else { "fails" }, src, if c2 == OK_VAL { "succeeds" } else { "fails" }, probe.replace('\n', " ; "));
                    return Res { code: E_OTHER, val: pc as i128 };
                }
            }
            self.other += 1;
            let (c, bits, d) = input(&mut self.vm, &src, self.opt);
            if c == E_COMPILE || c == E_OTHER { println!("!HARNESS\tinput `{}` (opt {}) -> class {}: {}", src, self.opt, c, d.replace('\n', " ").replace('\t', " ")); }
            if c != OK_VAL { return Res { code: c, val: 0 }; }
            let v = Value::from_raw(bits);
            match op.k {
                ALLOC => match v.as_int() { Some(h) => Res { code: OK_HANDLE, val: h as i128 }, None => Res { code: E_OTHER, val: bits as i128 } },
                LOAD => Res { code: OK_VAL, val: self.canon_bits(bits) as i128 },
                _ => if v.is_null() { Res { code: OK_UNIT, val: 0 } } else { Res { code: E_OTHER, val: bits as i128 } },
            }
        }
        fn heap(&self) -> &ManualHeap { self.vm.manual_heap() }
        fn canon(&self, bits: u64) -> u64 { self.canon_bits(bits) }
        fn after_step(&mut self, rng: &mut Rng, dist: &mut Dist) {
            if self.direct && self.gc && rng.chance(1, 3) { dist.hit("gc:collect-between-operations"); self.vm.collect(); }
        }
    }
}

// ----------------------------------------------------------------------------- reference (direct oracle)
/// The property's own reading: a map of fixed-size arrays of the live buffers.
#[derive(Default)]
struct RefMap { live: BTreeMap<u64, Vec<u64>>, dead: BTreeSet<u64> }

const NULL_BITS: u64 = 0x7FFB_0000_0000_0000;

/// what the property demands of this step: Some(expected ok result) or None = "must be an error"
fn ref_expect(r: &RefMap, op: &Op) -> Option<Option<Res>> {
    let nn = |a: A| -> Option<u64> { match a { A::I(n) if n >= 0 && n <= u64::MAX as i128 => Some(n as u64), _ => None } };
    match op.k {
        ALLOC => match op.a { A::I(n) if n > 0 && n < (1 << 20) => Some(None), _ => None }, // Ok with some fresh handle
        FREE => match nn(op.a) { Some(h) if r.live.contains_key(&h) => Some(Some(Res { code: OK_UNIT, val: 0 })), _ => None },
        LOAD => match (nn(op.a), nn(op.b)) {
            (Some(h), Some(o)) => match r.live.get(&h) { Some(d) if (o as usize) < d.len() && o < (1 << 32) => Some(Some(Res { code: OK_VAL, val: d[o as usize] as i128 })), _ => None },
            _ => None },
        STORE => match (nn(op.a), nn(op.b)) {
            (Some(h), Some(o)) => match r.live.get(&h) { Some(d) if o < (1 << 32) && (o as usize) < d.len() => Some(Some(Res { code: OK_UNIT, val: 0 })), _ => None },
            _ => None },
        _ => match nn(op.a) { Some(h) => r.live.get(&h).map(|d| Some(Res { code: OK_SIZE, val: d.len() as i128 })), None => None },
    }
}

fn ref_apply(r: &mut RefMap, op: &Op, got: &Res) {
    match op.k {
        ALLOC => { if let A::I(n) = op.a { let h = got.val as u64; r.dead.remove(&h); r.live.insert(h, vec![NULL_BITS; n as usize]); } }
        FREE => { if let A::I(h) = op.a { r.live.remove(&(h as u64)); r.dead.insert(h as u64); } }
        STORE => { if let (A::I(h), A::I(o)) = (op.a, op.b) { r.live.get_mut(&(h as u64)).unwrap()[o as usize] = op.v; } }
        _ => {}
    }
}

fn op_name(k: u8) -> &'static str { ["alloc", "free", "load", "store", "size"][k as usize] }
fn arg_class(a: A) -> &'static str { match a { A::I(n) if n < 0 => "negative", A::I(_) => "int", A::Null => "null", A::Flt => "non-int" } }

/// Checks one step of the implementation against the reference; returns the oracle findings.
fn oracle_step(surface: &str, r: &mut RefMap, op: &Op, got: &Res, sf: &dyn Surface) -> Vec<(String, String)> {
    oracle_step_biased(surface, r, op, got, sf, None)
}

/// `forged`: Some(charge the harness wrote through the hook, live total at that moment) -- the
/// accounting check then is "charge moved by exactly what the live total moved by"
fn oracle_step_biased(surface: &str, r: &mut RefMap, op: &Op, got: &Res, sf: &dyn Surface, forged: Option<(u64, u64)>) -> Vec<(String, String)> {
    let heap = sf.heap();
    let mut out = Vec::new();
    let want = ref_expect(r, op);
    match want {
        None => {
            if is_ok(got.code) {
                // free(null) through the builtin is documented as a no-op ("like C"): not an access
                if !(op.k == FREE && op.a == A::Null) {
                    let why = match op.k {
                        ALLOC => format!("size-{}", arg_class(op.a)),
                        LOAD | STORE => if arg_class(op.a) != "int" { format!("handle-{}", arg_class(op.a)) }
                                        else if arg_class(op.b) != "int" { format!("offset-{}", arg_class(op.b)) }
                                        else if let A::I(h) = op.a { if r.live.contains_key(&(h as u64)) { "out-of-range".into() } else if r.dead.contains(&(h as u64)) { "stale-handle".into() } else { "never-issued".into() } } else { "?".into() },
                        _ => if arg_class(op.a) != "int" { format!("handle-{}", arg_class(op.a)) }
                             else if let A::I(h) = op.a { if r.dead.contains(&(h as u64)) { "stale-handle".into() } else { "never-issued".into() } } else { "?".into() },
                    };
                    out.push((format!("mheap-oracle:{}:{}:{}:not-reported", surface, op_name(op.k), why),
                              format!("{:?} answered {:?} but is an access outside every live buffer", op, got)));
                }
            } else if got.code >= E_OTHER {
                out.push((format!("mheap-oracle:{}:{}:unexpected-failure-class-{}", surface, op_name(op.k), got.code), format!("{:?} -> {:?}", op, got)));
            }
        }
        Some(exp) => {
            if !is_ok(got.code) {
                out.push((format!("mheap-oracle:{}:{}:valid-access-rejected", surface, op_name(op.k)), format!("{:?} -> {:?}", op, got)));
            } else {
                match exp {
                    Some(e) if e != *got && op.k == LOAD && ph_k(e.val as u64).is_some() => {
                        out.push((format!("mheap-oracle:{}:gc:stored-heap-object-lost", surface), format!("{:?} -> {:?}: the slot was given the string \"pay{}\" and what comes back no longer is that string (collected while only manual memory referred to it)", op, got, ph_k(e.val as u64).unwrap())));
                    }
                    Some(e) => if e != *got { out.push((format!("mheap-oracle:{}:{}:wrong-result", surface, op_name(op.k)), format!("{:?} -> {:?}, expected {:?}", op, got, e))); },
                    None => {
                        if got.code != OK_HANDLE || got.val < 0 || r.live.contains_key(&(got.val as u64)) {
                            out.push((format!("mheap-oracle:{}:alloc:handle-not-fresh", surface), format!("{:?} -> {:?} while live = {:?}", op, got, r.live.keys().collect::<Vec<_>>())));
                        }
                    }
                }
                if is_ok(got.code) && !(op.k == ALLOC && got.code != OK_HANDLE) { ref_apply(r, op, got); }
            }
        }
    }
    // whole-state comparison after every step: every live buffer is exactly the reference array,
    // every dead handle is rejected, the charge is 8 bytes per live slot.
    for (h, d) in &r.live {
        match heap.size(*h as usize) {
            Ok(n) if n == d.len() => {}
            x => out.push((format!("mheap-oracle:{}:state:size-differs-after-{}", surface, op_name(op.k)), format!("after {:?}: size({}) = {:?}, reference {}", op, h, x.map_err(|e| mh_err(&e)), d.len()))),
        }
        for (i, w) in d.iter().enumerate() {
            match heap.load(*h as usize, i) {
                Ok(v) if sf.canon(v.raw_bits()) == *w => {}
                Ok(v) if ph_k(*w).is_some() => { out.push((format!("mheap-oracle:{}:gc:stored-heap-object-lost", surface),
                    format!("after {:?}: slot ({},{}) was given the string \"pay{}\"; it now holds {:#x} which no longer is that string (collected while only manual memory referred to it)", op, h, i, ph_k(*w).unwrap(), v.raw_bits()))); break; }
                x => { out.push((format!("mheap-oracle:{}:state:buffer-changed-after-{}", surface, op_name(op.k)), format!("after {:?}: load({},{}) = {:?}, reference {:#x}", op, h, i, x.map(|v| v.raw_bits()).map_err(|e| mh_err(&e)), w))); break; }
            }
        }
        if heap.load(*h as usize, d.len()).is_ok() {
            out.push((format!("mheap-oracle:{}:state:read-past-end", surface), format!("load({}, {}) succeeds", h, d.len())));
        }
    }
    for h in &r.dead {
        if heap.load(*h as usize, 0).is_ok() || heap.size(*h as usize).is_ok() {
            out.push((format!("mheap-oracle:{}:state:stale-handle-usable-after-{}", surface, op_name(op.k)), format!("after {:?}: handle {} freed and not re-issued but load/size succeed", op, h)));
        }
    }
    let total: u64 = r.live.values().map(|d| 8 * d.len() as u64).sum();
    let total = match forged { Some((b, t0)) => b.wrapping_add(total).wrapping_sub(t0), None => total };
    if heap.bytes_allocated() as u64 != total {
        out.push((format!("mheap-oracle:{}:accounting:after-{}-{}", surface, op_name(op.k), if is_ok(got.code) { "ok" } else { "error" }),
                  format!("after {:?} -> {:?}: bytes_allocated() = {}, live buffers total {} bytes", op, got, heap.bytes_allocated(), total)));
    }
    out
}

// ----------------------------------------------------------------------------- generator
pub struct Dist(pub BTreeMap<String, u64>);
impl Dist { pub fn hit(&mut self, k: &str) { *self.0.entry(k.to_string()).or_insert(0) += 1; } }

fn gen_value(rng: &mut Rng, vm: bool) -> (u64, String) {
    match rng.below(10) {
        0 => (NULL_BITS, "null".into()),
        1 => (Value::bool(true).raw_bits(), "true".into()),
        2 => (Value::float(2.5).raw_bits(), "2.5".into()),
        3 if !vm => { let w = rng.next_u64(); (w, String::new()) }
        3 | 5 | 6 => { let k = rng.below(1_000_000); (ph(k), format!("\"pay\" + __tostring({})", k)) }   // a fresh heap object whose only reference will be the slot
        4 => { let n = rng.range_i64(-(1 << 47), (1 << 47) - 1); (Value::int(n).raw_bits(), format!("{}", n)) }
        _ => { let n = rng.range_i64(-5, 1000); (Value::int(n).raw_bits(), format!("{}", n)) }
    }
}

/// `k` plus high bits that vanish when the operand is truncated to 8, 16 or 32 bits (or that a
/// careless cast / mask would drop): 2^8+k, 2^16+k, 2^32+k, 2^33+k, 3*2^32+k, 2^40+k, 2^46+k,
/// and for the raw API 2^47+k, 2^63+k.  All of them are legal operand values (Aelys ints are 48-bit,
/// usize is 64-bit) and none of them may be confused with `k`.
pub fn alias_of(rng: &mut Rng, k: i128, vm: bool) -> i128 {
    let hi: &[i128] = if vm { &[1 << 8, 1 << 16, 1 << 32, 1 << 33, 3 << 32, 1 << 40, 1 << 46, (1 << 47) - (1 << 32)] }
                      else { &[1 << 8, 1 << 16, 1 << 32, 1 << 33, 3 << 32, 1 << 40, 1 << 47, 1 << 63, (1u128 << 64) as i128 - (1 << 32)] };
    k + *rng.pick(hi)
}

/// next operation given what the reference knows (handles come from the implementation's answers)
fn gen_op(rng: &mut Rng, r: &RefMap, surf: &str, huge_alloc: &[i128], dist: &mut Dist) -> Op {
    let vm = surf != "api";
    let live: Vec<u64> = r.live.keys().cloned().collect();
    let dead: Vec<u64> = r.dead.iter().cloned().collect();
    let next_fresh = live.iter().chain(dead.iter()).max().map(|m| m + 1).unwrap_or(0);
    let via_fn = rng.chance(1, 2);
    let mk = |k, a, b, v: (u64, String)| Op { k, a, b, v: v.0, vsrc: v.1, via_fn };
    let valid = rng.chance(4, 5);
    if valid || (live.is_empty() && dead.is_empty() && rng.chance(1, 2)) {
        dist.hit("valid");
        let want_alloc = live.is_empty() || (live.len() < 6 && rng.chance(1, 4));
        if want_alloc { dist.hit("valid:alloc"); return mk(ALLOC, A::I(rng.range_i64(1, 8) as i128), A::Null, (0, String::new())); }
        let h = *rng.pick(&live);
        let len = r.live[&h].len() as u64;
        return match rng.below(if vm { 9 } else { 10 }) {
            0 => { dist.hit("valid:free"); mk(FREE, A::I(h as i128), A::Null, (0, String::new())) }
            1..=4 => { dist.hit("valid:store"); mk(STORE, A::I(h as i128), A::I(rng.below(len) as i128), gen_value(rng, vm)) }
            5..=8 => { dist.hit("valid:load"); mk(LOAD, A::I(h as i128), A::I(rng.below(len) as i128), (0, String::new())) }
            _ => { dist.hit("valid:size"); mk(SIZE, A::I(h as i128), A::Null, (0, String::new())) }
        };
    }
    dist.hit("malformed");
    // the handle of a malformed access
    let bad_handle = |rng: &mut Rng, dist: &mut Dist| -> A {
        if !live.is_empty() && rng.chance(1, 4) {
            dist.hit("malformed:handle-alias-of-live");
            return A::I({ let k0 = *rng.pick(&live) as i128; alias_of(rng, k0, vm) });
        }
        if !dead.is_empty() && rng.chance(1, 4) { dist.hit("malformed:stale-handle"); return A::I(*rng.pick(&dead) as i128); }
        match rng.below(if vm { 6 } else { 4 }) {
            0 | 1 if !dead.is_empty() => { dist.hit("malformed:stale-handle"); A::I(*rng.pick(&dead) as i128) }
            0 | 1 | 2 => { dist.hit("malformed:never-issued"); A::I((next_fresh + rng.below(3)) as i128) }
            3 => { dist.hit("malformed:huge-handle"); A::I(if vm { *rng.pick(&[1i128 << 31, 1 << 32, (1 << 47) - 1]) } else { *rng.pick(&[1i128 << 32, 1 << 63, u64::MAX as i128, (1 << 61) + 1]) }) }
            4 => { dist.hit("malformed:negative-handle"); A::I(-(rng.range_i64(1, 3) as i128)) }
            _ => { dist.hit("malformed:non-int-handle"); if rng.chance(1, 2) { A::Null } else { A::Flt } }
        }
    };
    let k = rng.below(if vm { 8 } else { 9 });
    match k {
        0 => { dist.hit("malformed:alloc-zero"); mk(ALLOC, A::I(0), A::Null, (0, String::new())) }
        1 => { if vm && rng.chance(1, 2) { dist.hit("malformed:alloc-size-alias-of-small"); let k = rng.range_i64(0, 8) as i128; mk(ALLOC, A::I({ let k0 = k; alias_of(rng, k0, true) }.max(1 << 22)), A::Null, (0, String::new())) }
               else { dist.hit("malformed:alloc-huge"); mk(ALLOC, A::I(*rng.pick(huge_alloc)), A::Null, (0, String::new())) } }
        2 if vm => { if rng.chance(2, 3) { dist.hit("malformed:alloc-negative"); mk(ALLOC, A::I(-(rng.range_i64(1, 9) as i128)), A::Null, (0, String::new())) }
                     else { dist.hit("malformed:alloc-non-int"); mk(ALLOC, if rng.chance(1, 2) { A::Null } else { A::Flt }, A::Null, (0, String::new())) } }
        2 | 3 => { let h = bad_handle(rng, dist); dist.hit("malformed:free"); mk(FREE, h, A::Null, (0, String::new())) }
        4 | 5 | 6 | 7 => {
            // bad handle, or good handle with a bad offset
            let store = k >= 6;
            if live.is_empty() || rng.chance(1, 2) {
                let h = bad_handle(rng, dist);
                let o = A::I(rng.below(3) as i128);
                if store { mk(STORE, h, o, gen_value(rng, vm)) } else { mk(LOAD, h, o, (0, String::new())) }
            } else {
                let h = *rng.pick(&live);
                let len = r.live[&h].len() as i128;
                let o = if rng.chance(1, 3) { dist.hit("malformed:offset-alias-of-valid"); A::I({ let k0 = rng.below(len as u64) as i128; alias_of(rng, k0, vm) }) } else { match rng.below(if vm { 5 } else { 4 }) {
                    0 => { dist.hit("malformed:offset-eq-len"); A::I(len) }
                    1 => { dist.hit("malformed:offset-past-len"); A::I(len + 1 + rng.below(300) as i128) }
                    2 => { dist.hit("malformed:offset-huge"); A::I(if vm { (1 << 47) - 1 } else { *rng.pick(&[u64::MAX as i128, 1 << 63, 1 << 32]) }) }
                    3 if vm => { dist.hit("malformed:offset-negative"); A::I(-(rng.range_i64(1, 2) as i128)) }
                    3 => { dist.hit("malformed:offset-past-len"); A::I(len + 7) }
                    _ => { dist.hit("malformed:offset-non-int"); if rng.chance(1, 2) { A::Null } else { A::Flt } }
                } };
                if store { mk(STORE, A::I(h as i128), o, gen_value(rng, vm)) } else { mk(LOAD, A::I(h as i128), o, (0, String::new())) }
            }
        }
        _ => { let h = bad_handle(rng, dist); dist.hit("malformed:size"); mk(SIZE, h, A::Null, (0, String::new())) }
    }
}

// ----------------------------------------------------------------------------- Coq rendering
fn coq_arg(a: A) -> String {
    match a { A::I(n) => format!("(AInt {})", zc(n)), A::Null => "ANull".into(), A::Flt => "AOther".into() }
}
fn coq_n(a: A) -> String { match a { A::I(n) => format!("{}", n), _ => "0".into() } }

fn coq_op(op: &Op, vm: bool) -> String {
    if vm {
        match op.k {
            ALLOC => format!("VAlloc {}", coq_arg(op.a)),
            FREE => format!("VFree {}", coq_arg(op.a)),
            LOAD => format!("VLoad {} {}", coq_arg(op.a), coq_arg(op.b)),
            _ => format!("VStore {} {} {}", coq_arg(op.a), coq_arg(op.b), op.v),
        }
    } else {
        match op.k {
            ALLOC => format!("MAlloc {}", coq_n(op.a)),
            FREE => format!("MFree {}", coq_n(op.a)),
            LOAD => format!("MLoad {} {}", coq_n(op.a), coq_n(op.b)),
            STORE => format!("MStore {} {} {}", coq_n(op.a), coq_n(op.b), op.v),
            _ => format!("MSize {}", coq_n(op.a)),
        }
    }
}

fn run_history(surf: &str, s: &mut dyn Surface, rng: &mut Rng, len: usize, huge: &[i128], dist: &mut Dist,
               fixed: Option<&[Op]>) -> (Vec<Op>, Vec<i128>, Vec<(usize, String, String)>) {
    let mut r = RefMap::default();
    let mut ops = Vec::new();
    let mut obs = Vec::new();
    let mut findings = Vec::new();
    let n = fixed.map(|f| f.len()).unwrap_or(len);
    for i in 0..n {
        let op = match fixed { Some(f) => f[i].clone(), None => gen_op(rng, &r, surf, huge, dist) };
        if flag("--trace") { eprintln!("#STEP\t{}\t{}\t{}", surf, i, replay_text(std::slice::from_ref(&op))); }
        let got = s.exec(&op);
        for (sig, d) in oracle_step(surf, &mut r, &op, &got, &*s) { findings.push((i, sig, d)); }
        s.after_step(rng, dist);
        dist.hit(&format!("outcome:{}:{}", op_name(op.k), match got.code { OK_HANDLE | OK_UNIT | OK_VAL | OK_SIZE => "ok", E_INVALID_SIZE => "InvalidSize", E_INVALID_HANDLE => "InvalidHandle",
            E_DOUBLE_FREE => "DoubleFree", E_USE_AFTER_FREE => "UseAfterFree", E_OOB => "OutOfBounds", E_NEG => "NegativeIndex", E_TYPE => "TypeError", E_OOM => "OutOfMemory", _ => "other" }));
        if op.k != ALLOC && !(surf == "api") { dist.hit(if op.via_fn { "form:inside-@no_gc-function" } else { "form:top-level" }); }
        obs.push(got.code as i128);
        obs.push(got.val);
        obs.push(s.heap().bytes_allocated() as i128);
        ops.push(op);
    }
    (ops, obs, findings)
}

fn parse_ops(text: &str) -> Vec<Op> {
    // replay format, one op per `;`:  k a b v   with a,b = integer | null | flt ; v = raw bits / source literal
    text.split(';').filter(|t| !t.trim().is_empty()).map(|t| {
        let f: Vec<&str> = t.split_whitespace().collect();
        let pa = |s: &str| match s { "null" => A::Null, "flt" => A::Flt, n => A::I(n.parse().expect("int")) };
        let k = match f[0] { "alloc" => ALLOC, "free" => FREE, "load" => LOAD, "store" => STORE, _ => SIZE };
        let a = pa(f.get(1).copied().unwrap_or("0"));
        let b = pa(f.get(2).copied().unwrap_or("0"));
        let (v, vsrc) = match f.get(3) {
            Some(&"null") => (NULL_BITS, "null".to_string()),
            Some(&"true") => (Value::bool(true).raw_bits(), "true".to_string()),
            Some(x) if x.starts_with("pay:") => { let k: u64 = x[4..].parse().expect("pay:k"); (ph(k), format!("\"pay\" + __tostring({})", k)) }
            Some(x) if x.starts_with('#') => (x[1..].parse().expect("raw bits"), String::new()),
            Some(x) if x.contains('.') => (Value::float(x.parse().expect("float")).raw_bits(), x.to_string()),
            Some(x) => { let n: i64 = x.parse().expect("value int"); (Value::int(n).raw_bits(), x.to_string()) }
            None => (0, String::new()) };
        Op { k, a, b, v, vsrc, via_fn: f.get(4).map(|x| *x == "fn").unwrap_or(false) }
    }).collect()
}

pub fn replay_text(ops: &[Op]) -> String {
    ops.iter().map(|o| {
        let pa = |a: A| match a { A::I(n) => n.to_string(), A::Null => "null".into(), A::Flt => "flt".into() };
        format!("{} {} {} {} {}", op_name(o.k), pa(o.a), pa(o.b), if let Some(k) = ph_k(o.v) { format!("pay:{}", k) } else if o.vsrc.is_empty() { format!("#{}", o.v) } else { o.vsrc.clone() }, if o.via_fn { "fn" } else { "top" })
    }).collect::<Vec<_>>().join("; ")
}

/// Charge-overflow scenarios on the raw API: a short valid history, then the charge is overwritten
/// (hook) with a value a few bytes below usize::MAX, then allocations that do not fit (must be
/// errors that change nothing), probes of every handle, and allocations that still fit (which show
/// whether the failed ones consumed a free-list entry).
#[cfg(vbxq_aelys_lang_verif)]
fn forged_main(seed: u64, hist: u64, dist: &mut Dist) {
    let huge: Vec<i128> = vec![1i128 << 61];
    for hidx in 0..hist {
        let mut rng = Rng::new(seed.wrapping_mul(1_000_003).wrapping_add(hidx).wrapping_add(5 << 40));
        let mut s = Api { h: ManualHeap::new() };
        let mut r = RefMap::default();
        let mut pre: Vec<Op> = Vec::new();
        let mut findings: Vec<(usize, String, String)> = Vec::new();
        let n_pre = 2 + rng.below(20) as usize;
        for _ in 0..n_pre {
            // valid operations only, frees favoured so that the free list is not empty
            let live: Vec<u64> = r.live.keys().cloned().collect();
            let op = if live.len() >= 2 && rng.chance(1, 3) { Op { k: FREE, a: A::I(*rng.pick(&live) as i128), b: A::Null, v: 0, vsrc: String::new(), via_fn: false } }
                     else { let mut d2 = Dist(BTreeMap::new()); let mut o = gen_op(&mut rng, &r, "api", &huge, &mut d2); if o.k == SIZE || !matches!(ref_expect(&r, &o), Some(_)) { o = Op { k: ALLOC, a: A::I(rng.range_i64(1, 8) as i128), b: A::Null, v: 0, vsrc: String::new(), via_fn: false }; } o };
            let got = s.exec(&op);
            for (sig, d) in oracle_step("forged", &mut r, &op, &got, &s) { findings.push((pre.len(), sig, d)); }
            pre.push(op);
        }
        let room = rng.below(64);                                // bytes left before usize::MAX
        let b = u64::MAX - room;
        s.h.verif_set_bytes_allocated(b as usize);
        let t0: u64 = r.live.values().map(|d| 8 * d.len() as u64).sum();
        let mut post: Vec<Op> = Vec::new();
        let mut obs: Vec<i128> = Vec::new();
        let n_post = 3 + rng.below(12) as usize;
        for i in 0..n_post {
            let live: Vec<u64> = r.live.keys().cloned().collect();
            let dead: Vec<u64> = r.dead.iter().cloned().collect();
            let mk = |k, a: i128, bb: i128, v: u64| Op { k, a: A::I(a), b: A::I(bb), v, vsrc: String::new(), via_fn: false };
            let used: u64 = r.live.values().map(|d| 8 * d.len() as u64).sum::<u64>().wrapping_sub(t0);
            let left = room.wrapping_sub(used);                  // what still fits
            let op = match rng.below(6) {
                0 | 1 => { dist.hit("forged:alloc-not-fitting"); mk(ALLOC, (left / 8 + 1 + rng.below(3)) as i128, 0, 0) }
                2 if left >= 8 => { dist.hit("forged:alloc-fitting"); mk(ALLOC, (1 + rng.below(left / 8)) as i128, 0, 0) }
                3 if !dead.is_empty() => { dist.hit("forged:probe-stale"); mk(LOAD, *rng.pick(&dead) as i128, 0, 0) }
                4 if !live.is_empty() => { dist.hit("forged:free"); mk(FREE, *rng.pick(&live) as i128, 0, 0) }
                _ if !live.is_empty() => { let h = *rng.pick(&live); dist.hit("forged:store"); mk(STORE, h as i128, rng.below(r.live[&h].len() as u64) as i128, Value::int(i as i64).raw_bits()) }
                _ => { dist.hit("forged:alloc-not-fitting"); mk(ALLOC, (left / 8 + 1) as i128, 0, 0) }
            };
            let got = s.exec(&op);
            // the property's expectation for an allocation that cannot be charged is "error"
            let fits = match (op.k, op.a) { (ALLOC, A::I(n)) => (n as u64).checked_mul(8).map(|x| x <= left).unwrap_or(false), _ => true };
            if op.k == ALLOC && !fits {
                if is_ok(got.code) { findings.push((pre.len() + i, "mheap-oracle:forged:alloc:charge-overflow-not-reported".into(), format!("{:?} -> {:?} with {} bytes of charge left", op, got, left))); }
                // state must be unchanged: run the whole-state part of the oracle with a no-op
                let probe = Op { k: SIZE, a: A::I(-1), b: A::Null, v: 0, vsrc: String::new(), via_fn: false };
                for (sig, d) in oracle_step_biased("forged", &mut r, &probe, &Res { code: E_INVALID_HANDLE, val: 0 }, &s, Some((b, t0))) {
                    findings.push((pre.len() + i, sig.replace("after-size", "after-alloc-error"), format!("after failed {:?}: {}", op, d)));
                }
            } else {
                for (sig, d) in oracle_step_biased("forged", &mut r, &op, &got, &s, Some((b, t0))) { findings.push((pre.len() + i, sig, d)); }
            }
            obs.push(got.code as i128); obs.push(got.val); obs.push(s.heap().bytes_allocated() as i128);
            post.push(op);
        }
        println!("QApiForged [{}] {} [{}]\t{}\tforged {} after: {} then: {}",
                 pre.iter().map(|x| coq_op(x, false)).collect::<Vec<_>>().join("; "), b,
                 post.iter().map(|x| coq_op(x, false)).collect::<Vec<_>>().join("; "),
                 obs.iter().map(|x| x.to_string()).collect::<Vec<_>>().join(" "), b, replay_text(&pre), replay_text(&post));
        let first = findings.iter().map(|f| f.0).min();
        let mut seen = BTreeSet::new();
        for (i, sig, d) in findings {
            if Some(i) != first || !seen.insert(sig.clone()) { continue; }
            println!("!ORACLE\t{}\t{}\tstep {} of: {} ; set charge {} ; {}", sig, d.replace('\t', " "), i, replay_text(&pre), b, replay_text(&post));
        }
    }
}

#[cfg(vbxq_aelys_lang_verif)]
fn main() {
    if !flag("--loud") { quiet_panics(); }
    let seed = arg_u64("--seed", 0);
    let hist = arg_u64("--hist", 100);
    let maxlen = arg_u64("--maxlen", 200);
    let surf = arg("--surface").unwrap_or("api".into());
    let max_heap: u64 = 16 << 20;
    let replay = arg("--replay-ops");
    let mut dist = Dist(BTreeMap::new());
    if surf == "crossres" { bytes::crossres(&mut dist); bytes::fsread(&mut dist); }
    else if surf == "byteslimits" { bytes::limits(arg_u64("--max-alloc", 256 << 20) as i64, &mut dist); }
    else if surf == "bytes" { bytes::main(seed, hist, maxlen, replay, &mut dist); }
    else {
        let huge_api: Vec<i128> = vec![1i128 << 61, (1 << 61) + 5, 1 << 63, u64::MAX as i128];
        let huge_vm: Vec<i128> = vec![(max_heap as i128) / 8 + 1, 3_000_000, 1 << 40, (1 << 47) - 1];
        let fixed = replay.as_ref().map(|t| parse_ops(t));
        let n_hist = if fixed.is_some() { 1 } else { hist };
        if surf == "forged" { forged_main(seed, hist, &mut dist); for (k, v) in &dist.0 { println!("#DIST\t{}\t{}", k, v); } return; }
        for hidx in 0..n_hist {
            let mut rng = Rng::new(seed.wrapping_mul(1_000_003).wrapping_add(hidx).wrapping_add(match surf.as_str() { "api" => 0, "builtin" => 1 << 40, "natfn" => 6 << 40, _ => 2 << 40 }));
            // lengths 1..maxlen, biased so that short and long histories both occur
            let len = match rng.below(4) { 0 => 1 + rng.below(8), 1 => 1 + rng.below(40), _ => 1 + rng.below(maxlen) } as usize;
            // -O2 and above delete the unused top-level `let bi_alloc = alloc` of the prelude
            let opt = if surf == "builtin" { rng.below(2) as u32 } else { rng.below(4) as u32 };
            let (ops, obs, findings, q) = match surf.as_str() {
                "api" => { let mut s = Api { h: ManualHeap::new() };
                    let (o, b, f) = run_history("api", &mut s, &mut rng, len, &huge_api, &mut dist, fixed.as_deref());
                    let q = format!("QApi [{}]", o.iter().map(|x| coq_op(x, false)).collect::<Vec<_>>().join("; ")); (o, b, f, q) }
                "natfn" => { let mut s = vmrun::VmSurface::new_direct(max_heap);
                    if hidx % 2 == 0 || fixed.is_some() { s.force_gc(true); dist.hit("gc:forced-collection-history"); }
                    let (o, b, f) = run_history("natfn", &mut s, &mut rng, len, &huge_vm, &mut dist, fixed.as_deref());
                    let q = format!("QVm SBuiltin {} [{}]", max_heap, o.iter().map(|x| coq_op(x, true)).collect::<Vec<_>>().join("; ")); (o, b, f, q) }
                "builtin" | "opcode" => { let mut s = vmrun::VmSurface::new(surf == "builtin", opt, max_heap);
                    if hidx % 2 == 0 || fixed.is_some() { s.force_gc(true); dist.hit("gc:forced-collection-history"); } else { s.force_gc(false); }
                    let (o, b, f) = run_history(&surf, &mut s, &mut rng, len, &huge_vm, &mut dist, fixed.as_deref());
                    let q = format!("QVm {} {} [{}]", if surf == "builtin" { "SBuiltin" } else { "SOpcode" }, max_heap, o.iter().map(|x| coq_op(x, true)).collect::<Vec<_>>().join("; ")); (o, b, f, q) }
                _ => panic!("unknown surface"),
            };
            println!("{}\t{}\t{}", q, obs.iter().map(|x| x.to_string()).collect::<Vec<_>>().join(" "), replay_text(&ops));
            // only the first step that contradicts the reference: later steps of the same history inherit the damage
            let first = findings.iter().map(|f| f.0).min();
            let mut seen = BTreeSet::new();
            for (i, sig, d) in findings {
                if Some(i) != first || !seen.insert(sig.clone()) { continue; }
                println!("!ORACLE\t{}\t{}\tstep {} of: {}", sig, d.replace('\t', " "), i, replay_text(&ops[..=i]));
            }
            dist.hit(&format!("history-length:{}", match ops.len() { 0..=8 => "1-8", 9..=40 => "9-40", 41..=100 => "41-100", _ => "101+" }));
        }
    }
    for (k, v) in &dist.0 { println!("#DIST\t{}\t{}", k, v); }
    bytes::FIXTURE.with(|f| { if !f.borrow().is_empty() { let _ = std::fs::remove_dir_all(&*f.borrow()); } });
}
#[cfg(not(vbxq_aelys_lang_verif))]
fn main() { eprintln!("built without hooks"); std::process::exit(2); }
