//! C16 tie: caching is invisible / compiling is deterministic.
//!
//!   --mode hist   seeded histories of compile/execute requests over pools of generated
//!                 sources, each run against ONE Pipeline (cached), ONE Pipeline whose cache
//!                 is cleared before every request (same stages / same VM, no cache) and a
//!                 fresh Pipeline per request.  One `R` line per request with the three
//!                 canonical results (direct oracle: they must be equal).
//!   --mode proto  the cache *protocol* of Pipeline::exec / compile_internal driven with
//!                 synthetic instrumented stages; prints `<Coq query>\t<observation>` lines
//!                 for the contract tie with Model/PipelineCache.v.
//!   --mode det    compile every generated source to .avbc bytes in N fresh child
//!                 processes (fresh HashMap RandomState each) at -O0/-O2 and compare.
//!   --mode child  (internal) compile one file the way `aelys-cli compile` does and print
//!                 the bytes in hex.
#![allow(clippy::all)]
use aelys_driver::pipeline::stages::{AirLowerStage, DebugStripStage};
use aelys_driver::pipeline::{
    CompilerStage, LexerStage, OptimizationStage, ParserStage, Pipeline, PipelineError, Stage,
    StageInput, StageOutput, TypeInferenceStage, VMStage, compilation_pipeline_with_opt,
    standard_pipeline_with_opt,
};
use aelys_runtime::Value;
use aelys_syntax::Source;
use hxlib::runner::{esc, opt_level, unesc};
use hxlib::*;
use std::cell::RefCell;
use std::rc::Rc;

// ------------------------------------------------------------------------------------------
// canonical rendering

fn fnv(bytes: &[u8]) -> u64 {
    let mut h: u64 = 0xcbf29ce484222325;
    for &b in bytes {
        h ^= b as u64;
        h = h.wrapping_mul(0x100000001b3);
    }
    h
}

fn render_value(v: Value) -> String {
    if let Some(i) = v.as_int() {
        format!("int:{}", i)
    } else if let Some(b) = v.as_bool() {
        format!("bool:{}", b)
    } else if v.is_null() {
        "null".to_string()
    } else if let Some(f) = v.as_float() {
        format!("float:{:016x}", f.to_bits())
    } else if v.is_ptr() {
        "object".to_string()
    } else {
        "other".to_string()
    }
}

/// error class: stage + the leading words of the message up to the first quote/colon/digit
fn render_err(e: &PipelineError) -> (String, String) {
    match e {
        PipelineError::StageError { stage, message } => {
            // the rendered diagnostic is multi-line with colours/positions; take the first
            // alphabetic run of the first non-empty line as the kind
            let line = message.lines().find(|l| !l.trim().is_empty()).unwrap_or("");
            let line = line.trim().strip_prefix("error:").unwrap_or(line).trim();
            let mut kind = String::new();
            for c in line.chars() {
                if c.is_ascii_alphabetic() || c == ' ' || c == '_' {
                    kind.push(c);
                } else if !kind.trim().is_empty() {
                    break;
                }
            }
            let kind: String = kind.trim().replace(' ', "_").chars().take(48).collect();
            // which source the diagnostic is reported against (`  --> <name>:<line>:<col>`): the name only
            let at = message.lines().find_map(|l| l.trim_start().strip_prefix("--> ")).map(|l| {
                let mut parts: Vec<&str> = l.rsplitn(3, ':').collect();
                parts.reverse();
                if parts.len() == 3 { parts[0].to_string() } else { l.to_string() }
            }).unwrap_or_default();
            (format!("err:{}:{}@{}", stage, kind, esc(&at)), message.clone())
        }
        PipelineError::TypeMismatch { expected, got } => (format!("err:type-mismatch:{}:{}", expected.replace(' ', "_"), got), String::new()),
        PipelineError::MissingInput { stage } => (format!("err:missing-input:{}", stage), String::new()),
    }
}

// ------------------------------------------------------------------------------------------
// pipelines under test

#[derive(Clone, Copy, PartialEq, Eq, Debug)]
enum PKind {
    Standard,    // standard_pipeline_with_opt
    Compilation, // compilation_pipeline_with_opt (compile requests only)
    Stdlib,      // the public stages composed by hand with a VM that knows the auto-registered stdlib
}
impl PKind {
    fn name(self) -> &'static str {
        match self { PKind::Standard => "standard", PKind::Compilation => "compilation", PKind::Stdlib => "stdlib" }
    }
    fn parse(s: &str) -> PKind {
        match s { "standard" => PKind::Standard, "compilation" => PKind::Compilation, _ => PKind::Stdlib }
    }
}

/// Wrapper that makes a stage non-cacheable (used only to *classify* a divergence: if the
/// divergence disappears when the two stages whose output is `Compiled` are not cached, the
/// cause is the cached copy of a compiled unit, not the cache protocol or another stage).
struct NoCache(Box<dyn Stage>);
impl Stage for NoCache {
    fn name(&self) -> &str { self.0.name() }
    fn cacheable(&self) -> bool { false }
    fn execute(&mut self, input: StageInput) -> Result<StageOutput, PipelineError> { self.0.execute(input) }
}

/// `real` = the library's own constructors where they exist; otherwise the same stage list as
/// driver/src/pipeline/standard.rs composed from the public stages, with the compiler and
/// debug_strip stages wrapped in NoCache.
fn make_pipeline(k: PKind, opt: u32, real: bool) -> Pipeline {
    if real {
        match k {
            PKind::Standard => return standard_pipeline_with_opt(opt_level(opt)),
            PKind::Compilation => return compilation_pipeline_with_opt(opt_level(opt)),
            PKind::Stdlib => {}
        }
    }
    let wrap = |s: Box<dyn Stage>| -> Box<dyn Stage> { if real { s } else { Box::new(NoCache(s)) } };
    let mut p = Pipeline::new();
    p.add_stage(Box::new(LexerStage));
    p.add_stage(Box::new(ParserStage));
    if k == PKind::Stdlib {
        let vm = aelys_driver::new_vm().expect("vm");
        let aliases = vm.repl_module_aliases().clone();
        let mut known = vm.repl_known_globals().clone();
        for b in ["alloc", "free", "load", "store", "type"] { known.insert(b.to_string()); }
        let natives = vm.repl_known_native_globals().clone();
        let origins = vm.repl_symbol_origins().clone();
        p.add_stage(Box::new(TypeInferenceStage::with_imports(aliases.clone(), known.clone())));
        p.add_stage(Box::new(OptimizationStage::new(opt_level(opt))));
        p.add_stage(Box::new(AirLowerStage));
        p.add_stage(wrap(Box::new(CompilerStage::with_modules(aliases, known, natives, origins))));
        p.add_stage(wrap(Box::new(DebugStripStage::new(opt_level(opt)))));
        // the stage makes its own VM per run (VM::new auto-registers the same stdlib); a VM handed in with
        // VMStage::with_vm is a session owned by the caller and is not what C16 compares with fresh pipelines
        drop(vm);
        p.add_stage(Box::new(VMStage::new()));
    } else {
        p.add_stage(Box::new(TypeInferenceStage::new()));
        p.add_stage(Box::new(OptimizationStage::new(opt_level(opt))));
        p.add_stage(Box::new(AirLowerStage));
        p.add_stage(wrap(Box::new(CompilerStage::new())));
        p.add_stage(wrap(Box::new(DebugStripStage::new(opt_level(opt)))));
        if k == PKind::Standard { p.add_stage(Box::new(VMStage::new())); }
    }
    p
}

#[derive(Clone, Copy, PartialEq, Eq, Debug)]
enum Req { Exec(usize), Compile(usize), CompileAst(usize), CompileAstOther(usize) }

/// (canonical result, captured output, detail, heap objects of a compile result)
struct Obs { class: String, output: String, detail: String, heap_objs: i64, unit: Option<CodeSnap> }

#[cfg(vbxq_aelys_lang_verif)]
fn do_request(p: &mut Pipeline, r: Req, pool: &[String], names: &[String]) -> Obs {
    let nm = |i: usize| names[i].clone();
    use aelys_runtime::verif;
    verif::sink_install();
    verif::budget_set(3_000_000);
    let res = guarded(std::panic::AssertUnwindSafe(|| match r {
        Req::Exec(i) => match p.execute_str(&nm(i), &pool[i]) {
            Ok(v) => (render_value(v), String::new(), -1, None),
            Err(e) => { let (c, d) = render_err(&e); (c, d, -1, None) }
        },
        Req::Compile(_) | Req::CompileAst(_) | Req::CompileAstOther(_) => match (|| {
            let (i, ast_of) = match r { Req::Compile(i) => (i, None), Req::CompileAst(i) => (i, Some(i)), Req::CompileAstOther(i) => (i, Some((i + 1) % pool.len())), Req::Exec(i) => (i, None) };
            match ast_of {
                None => p.compile_str(&nm(i), &pool[i]),
                Some(j) => {
                    // the caller parses a text himself and hands the AST in, together with source i
                    let parsed = Source::new(&nm(j), &pool[j]);
                    let toks = aelys_frontend::lexer::Lexer::with_source(parsed.clone()).scan()
                        .map_err(|e| PipelineError::StageError { stage: "caller-lexer".into(), message: e.to_string() })?;
                    let stmts = aelys_frontend::parser::Parser::new(toks, parsed).parse()
                        .map_err(|e| PipelineError::StageError { stage: "caller-parser".into(), message: e.to_string() })?;
                    p.compile_ast(stmts, Source::new(&nm(i), &pool[i]))
                }
            }
        })() {
            Ok((f, h)) => {
                let objs = h.object_count() as i64;
                let ser = guarded(std::panic::AssertUnwindSafe(|| aelys_bytecode::asm::serialize(&f, &h)));
                // keep a structural copy for classification before the unit is consumed
                let keep = (f.clone(), aelys_bytecode::Heap::new());
                let snap = snapshot_code(&f);
                // behaviour of the returned unit in a fresh VM (what a caller of compile() does with it)
                let run = guarded(std::panic::AssertUnwindSafe(move || -> Result<String, String> {
                    let (mut f, mut h) = (f, h);
                    let mut vm = aelys_driver::new_vm().map_err(|e| format!("vm:{}", e))?;
                    let remap = vm.merge_heap(&mut h).map_err(|e| format!("merge:{}", e))?;
                    f.remap_constants(&remap);
                    let fr = vm.alloc_function(f).map_err(|e| format!("alloc:{}", e))?;
                    match vm.execute(fr) {
                        Ok(v) => Ok(render_value(v)),
                        Err(e) => Ok(format!("err:{}", hxlib::runner::kind_name(&e.kind))),
                    }
                }));
                let run = match run { Ok(Ok(s)) => s, Ok(Err(e)) => format!("err:{}", e.split(':').next().unwrap_or("")), Err(_) => "panic".to_string() };
                let _ = keep;
                match ser {
                    Ok(bytes) => (format!("compiled:{}:{:016x}:run={}", bytes.len(), fnv(&bytes), run), if flag("--dump") { hex(&bytes) } else { String::new() }, objs, Some(snap)),
                    Err(m) => (format!("compiled:serialize-panic:run={}", run), m, objs, Some(snap)),
                }
            }
            Err(e) => { let (c, d) = render_err(&e); (c, d, -1, None) }
        },
    }));
    let output = verif::sink_take();
    verif::budget_set(u64::MAX);
    match res {
        Ok((class, detail, heap_objs, unit)) => Obs { class, output, detail, heap_objs, unit },
        Err(m) => Obs { class: "panic".into(), output, detail: m, heap_objs: -1, unit: None },
    }
}

// ------------------------------------------------------------------------------------------
// source generator (no stdlib names unless `print` is true)

struct Gen<'a> { rng: &'a mut Rng, n: usize, print: bool, nostr: bool }

const WORDS: [&str; 10] = ["ab", "z", "abc", "", "q r", "xy", "K", "end", "héé", "0"];

impl<'a> Gen<'a> {
    fn fresh(&mut self, p: &str) -> String { self.n += 1; format!("{}{}", p, self.n) }
    fn word(&mut self) -> String { format!("{}{}", self.rng.pick(&WORDS), self.rng.below(3)) }
    fn int(&mut self) -> i64 { if self.rng.chance(1, 6) { self.rng.range_i64(-100000, 100000) } else { self.rng.range_i64(-9, 20) } }

    /// a program: (text, syntactic feature list)
    fn program(&mut self) -> (String, Vec<&'static str>) {
        let mut s = String::new();
        let mut feats = Vec::new();
        let mut ints: Vec<String> = Vec::new();    // int-valued expressions usable at the end
        let mut strs: Vec<String> = Vec::new();    // string-valued expressions
        let nblocks = 1 + self.rng.below(5);
        for _ in 0..nblocks {
            let pickb = if self.nostr { *self.rng.pick(&[0u64, 3, 5, 6, 7, 9, 10, 11]) } else { self.rng.below(13) };
            match pickb {
                0 => { let g = self.fresh("g"); let v = self.int(); s += &format!("let {} = {}\n", g, v); ints.push(g); feats.push("global-int"); }
                1 => { let g = self.fresh("s"); let w = self.word(); s += &format!("let {} = \"{}\"\n", g, w); strs.push(g); feats.push("global-str"); }
                2 => { // recursive string builder (the shape of the known finding)
                    let f = self.fresh("f"); let a = self.word(); let b = self.word();
                    s += &format!("fn {f}(k) {{ if k > 0 {{ return \"{a}\" + {f}(k - 1) }} return \"{b}\" }}\n");
                    let k = self.rng.below(4);
                    strs.push(format!("{}({})", f, k)); feats.push("rec-str");
                }
                3 => { let f = self.fresh("h"); let c = self.int(); let d = 1 + self.rng.below(7);
                    s += &format!("fn {f}(a, b) {{ return a * {d} + b - ({c}) }}\n");
                    let x = self.int(); let y = self.int();
                    ints.push(format!("{}({}, {})", f, x, y)); feats.push("fn-int"); }
                4 => { // nested function owning a string constant
                    let f = self.fresh("mk"); let w = self.word(); let w2 = self.word();
                    s += &format!("fn {f}() {{\n  fn inner(x) {{ return \"{w}\" + x }}\n  return inner(\"{w2}\")\n}}\n");
                    strs.push(format!("{}()", f)); feats.push("nested-str"); }
                5 => { // loop accumulating
                    let a = self.fresh("acc"); let i = self.fresh("i"); let n = self.rng.below(9); let m = self.int();
                    s += &format!("let mut {a} = 0\nlet mut {i} = 0\nwhile {i} < {n} {{ {a} = {a} + {i} * ({m}); {i} = {i} + 1 }}\n");
                    ints.push(a); feats.push("while"); }
                6 => { // closure capturing a local
                    let f = self.fresh("cl"); let c = self.int();
                    s += &format!("fn {f}(n) {{\n  let base = {c}\n  let add = fn(x) {{ return x + base + n }}\n  return add(1)\n}}\n");
                    let x = self.int(); ints.push(format!("{}({})", f, x)); feats.push("closure"); }
                7 => { // typed recursion
                    let f = self.fresh("fib");
                    s += &format!("fn {f}(n: int) -> int {{ if n <= 1 {{ return n }} return {f}(n - 1) + {f}(n - 2) }}\n");
                    let k = self.rng.below(12); ints.push(format!("{}({})", f, k)); feats.push("typed-rec"); }
                8 => { // for loop with string growth
                    let a = self.fresh("t"); let w = self.word(); let n = self.rng.below(4);
                    s += &format!("let mut {a} = \"\"\nfor j in 0..{n} {{ {a} = {a} + \"{w}\" }}\n");
                    strs.push(a); feats.push("for-str"); }
                9 => { // mutable global updated by a function (global state in the VM)
                    let g = self.fresh("cnt"); let f = self.fresh("bump"); let c = self.int();
                    s += &format!("let mut {g} = {c}\nfn {f}() {{ {g} = {g} + 1\n return {g} }}\n{f}()\n");
                    ints.push(format!("{}()", f)); feats.push("global-mut"); }
                11 => { // a global that is read, inside a function, before this source defines it: a fresh VM has nothing there
                    let g = self.fresh("late"); let f = self.fresh("peek"); let r = self.fresh("seen"); let v = self.int();
                    let ok = self.fresh("orm");
                    s += &format!("fn {f}() {{ return {g} }}\nlet {r} = {f}()\nlet {g} = {v}\nfn {ok}(v) {{ if v == null {{ return -1 }} return v }}\n");
                    ints.push(format!("{ok}({r})")); feats.push("late-global"); }
                _ => { // several calls of several functions (call-site cache slots)
                    let f = self.fresh("p"); let g = self.fresh("q"); let a = self.int(); let b = self.int();
                    s += &format!("fn {f}() {{ return {a} }}\nfn {g}() {{ return {b} }}\n");
                    ints.push(format!("{f}() + {g}() * 2 + {f}()")); feats.push("calls"); }
            }
            if self.print && self.rng.chance(1, 2) {
                if !strs.is_empty() && self.rng.chance(1, 2) { let e = self.rng.pick(&strs).clone(); s += &format!("println({})\n", e); }
                else if !ints.is_empty() { let e = self.rng.pick(&ints).clone(); s += &format!("println({})\n", e); }
                else if self.nostr { let v = self.int(); s += &format!("println({})\n", v); }
                else { let w = self.word(); s += &format!("println(\"{}\")\n", w); }
                feats.push("print");
            }
        }
        // final expression
        let last = match self.rng.below(8) {
            0 | 1 if !ints.is_empty() => { let a = self.rng.pick(&ints).clone(); let b = self.int(); format!("{} + ({})", a, b) }
            2 | 3 if !strs.is_empty() => { let a = self.rng.pick(&strs).clone(); let w = self.word(); feats.push("final-streq"); format!("{} + \"!\" == \"{}!\"", a, w) }
            4 if !strs.is_empty() => { feats.push("final-obj"); self.rng.pick(&strs).clone() }
            5 => { let a = self.int(); format!("{}.5 * 2.0", a.abs()) }
            6 if !ints.is_empty() && !strs.is_empty() => { let a = self.rng.pick(&ints).clone(); let t = self.rng.pick(&strs).clone(); feats.push("final-streq"); format!("if {} > 0 {{ {} == \"\" }} else {{ {} + \"a\" == \"a\" }}", a, t, t) }
            _ => { if ints.is_empty() { format!("{}", self.int()) } else { self.rng.pick(&ints).clone() } }
        };
        s += &last; s += "\n";
        (s, feats)
    }

    /// malformed / failing stream: errors in every stage
    fn broken(&mut self) -> (String, Vec<&'static str>) {
        let (mut s, mut f) = self.program();
        let v = self.rng.below(7);
        match if self.nostr && v == 4 { 3 } else { v } {
            0 => { s += "let u = \"unterminated\n"; f.push("bad-lex"); }
            1 => { s += "fn broken( {\n"; f.push("bad-parse"); }
            2 => { s += "undefined_name_zz + 1\n"; f.push("bad-name"); }
            3 => { let d = self.int(); s += &format!("let zz = 0\n{} / zz\n", d); f.push("div0"); }
            4 => {
                // half of them without any top-level let/fn: a program with no globals that fails at run time
                if self.rng.chance(1, 2) { s = "(\"a\" + \"b\") - 1\n".to_string(); f.push("no-globals-runtime-error"); }
                else { s += "let tt = \"a\"\ntt - 1\n"; }
                f.push("bad-type"); }
            5 => { s = s.replace("return", "retrun"); f.push("typo"); }
            _ => { let n = s.len(); let cut = self.rng.below(n as u64 + 1) as usize; let mut c = cut; while !s.is_char_boundary(c) { c -= 1; } s.truncate(c); f.push("truncated"); }
        }
        (s, f)
    }
}

// ------------------------------------------------------------------------------------------
// histories

struct Hist { names: Vec<String>, kind: PKind, opt: u32, pool: Vec<String>, feats: Vec<Vec<&'static str>>, reqs: Vec<Req>, origin: String }

fn hist_string(reqs: &[Req]) -> String {
    reqs.iter().map(|r| match r { Req::Exec(i) => format!("E{}", i), Req::Compile(i) => format!("C{}", i), Req::CompileAst(i) => format!("A{}", i), Req::CompileAstOther(i) => format!("X{}", i) }).collect::<Vec<_>>().join(" ")
}
fn parse_hist(s: &str) -> Vec<Req> {
    s.split_whitespace().filter_map(|t| {
        let i: usize = t[1..].parse().ok()?;
        match &t[..1] { "E" => Some(Req::Exec(i)), "C" => Some(Req::Compile(i)), "A" => Some(Req::CompileAst(i)), "X" => Some(Req::CompileAstOther(i)), _ => None }
    }).collect()
}

fn gen_hist(rng: &mut Rng) -> Hist {
    let kind = match rng.below(10) { 0..=4 => PKind::Standard, 5..=7 => PKind::Stdlib, _ => PKind::Compilation };
    // 40% of the histories are drawn outside both known classes: no heap constants, and one
    // request kind only (never a compile after an execute of the same source)
    let outside = rng.chance(2, 5);
    let only_compile = rng.chance(1, 3);
    // compile-only histories stay outside the shared-bytecode class only when the unit has no
    // CallGlobalNative sites (their cache words are not reset by the serializer): no stdlib
    let kind = if outside && only_compile && kind == PKind::Stdlib { PKind::Compilation } else { kind };
    let opt = *rng.pick(&[0u32, 0, 1, 2, 2, 3]);
    let npool = 1 + rng.below(4) as usize;
    let mut pool = Vec::new();
    let mut feats = Vec::new();
    let mut n = 0usize;
    // half of the pools restart the name counter for every source: different sources then define
    // functions and globals of the same names with different bodies (state keyed by name must not leak)
    let shared_names = rng.chance(1, 2);
    for _ in 0..npool {
        if shared_names { n = 0; }
        let mut g = Gen { rng, n, print: kind == PKind::Stdlib, nostr: outside };
        let (s, f) = if g.rng.chance(1, 6) { g.broken() } else { g.program() };
        n = g.n;
        pool.push(s);
        feats.push(f);
    }
    let len = 2 + rng.below(7) as usize;
    let mut reqs = Vec::new();
    for _ in 0..len {
        let i = rng.below(npool as u64) as usize;
        let compile = match kind { PKind::Compilation => true, _ => if outside { only_compile } else { rng.chance(1, 4) } };
        reqs.push(if compile { match rng.below(6) { 0 => Req::CompileAst(i), 1 if npool > 1 => Req::CompileAstOther(i), _ => Req::Compile(i) } } else { Req::Exec(i) });
    }
    let names: Vec<String> = if rng.chance(1, 2) { pool.iter().map(|_| "main".to_string()).collect() } else { (0..pool.len()).map(|i| format!("src{}", i)).collect() };
    Hist { names, kind, opt, pool, feats, reqs, origin: if outside { "generated-outside-known".into() } else { "generated".into() } }
}

/// corpus format: `#pipeline <kind> <opt>` / `#history E0 E0 C1` / `#source` + text (repeated)
fn read_corpus(path: &str) -> Option<Hist> {
    let text = std::fs::read_to_string(path).ok()?;
    let mut kind = PKind::Standard;
    let mut opt = 0;
    let mut reqs = Vec::new();
    let mut pool: Vec<String> = Vec::new();
    let mut in_src = false;
    let mut same_name = false;
    let mut given: Vec<(usize, String)> = Vec::new();
    for line in text.lines() {
        if line.trim() == "#names same" { same_name = true; in_src = false; continue; }
        if let Some(r) = line.strip_prefix("#srcname ") {
            let mut it = r.splitn(2, ' ');
            if let (Some(i), Some(n)) = (it.next().and_then(|x| x.parse::<usize>().ok()), it.next()) { given.push((i, n.to_string())); }
            in_src = false; continue;
        }
        if let Some(r) = line.strip_prefix("#srcnamehex ") {
            let mut it = r.splitn(2, ' ');
            if let (Some(i), Some(hx)) = (it.next().and_then(|x| x.parse::<usize>().ok()), it.next()) {
                let bytes: Vec<u8> = (0..hx.trim().len() / 2).filter_map(|k| u8::from_str_radix(&hx.trim()[2 * k..2 * k + 2], 16).ok()).collect();
                given.push((i, String::from_utf8_lossy(&bytes).to_string()));
            }
            in_src = false; continue;
        }
        if let Some(r) = line.strip_prefix("#sourcehex") {
            // exact bytes (CR, trailing blanks, missing final newline survive the corpus file)
            let bytes: Vec<u8> = (0..r.trim().len() / 2).filter_map(|k| u8::from_str_radix(&r.trim()[2 * k..2 * k + 2], 16).ok()).collect();
            pool.push(String::from_utf8_lossy(&bytes).to_string());
            in_src = false; continue;
        }
        if let Some(r) = line.strip_prefix("#pipeline ") {
            let mut it = r.split_whitespace();
            kind = PKind::parse(it.next().unwrap_or("standard"));
            opt = it.next().and_then(|s| s.parse().ok()).unwrap_or(0);
            in_src = false;
        } else if let Some(r) = line.strip_prefix("#history ") {
            reqs = parse_hist(r);
            in_src = false;
        } else if line.trim() == "#source" {
            pool.push(String::new());
            in_src = true;
        } else if in_src {
            let s = pool.last_mut().unwrap();
            s.push_str(line);
            s.push('\n');
        }
    }
    if pool.is_empty() || reqs.iter().any(|r| match r { Req::Exec(i) | Req::Compile(i) | Req::CompileAst(i) | Req::CompileAstOther(i) => *i >= pool.len() }) { return None; }
    let feats = pool.iter().map(|_| vec!["corpus"]).collect();
    let mut names: Vec<String> = (0..pool.len()).map(|i| if same_name { "main".to_string() } else { format!("src{}", i) }).collect();
    for (i, n) in given { if i < names.len() { names[i] = n; } }
    Some(Hist { names, kind, opt, pool, feats, reqs, origin: path.to_string() })
}

/// Everything of a compiled function except the heap, copied out before the unit is run
/// (the bytecode buffer is shared between clones, so the words are copied).
struct CodeSnap { words: Vec<u32>, fields: String, nested: Vec<CodeSnap>, heap_objs: usize }

fn snapshot_code(f: &aelys_bytecode::Function) -> CodeSnap {
    let words: Vec<u32> = f.bytecode.iter().copied().collect();
    let fields = format!("{:?}|{}|{}|{}|{:?}|{:?}|{:?}|{:?}", f.name, f.arity, f.num_registers, f.call_site_count, f.lines,
                         f.global_layout.names(), f.upvalue_descriptors, f.constants.iter().map(|c| c.raw_bits()).collect::<Vec<_>>());
    CodeSnap { words, fields, nested: f.nested_functions.iter().map(snapshot_code).collect(), heap_objs: 0 }
}

/// (code words that differ, of those how many are inline-cache state: the two cache words
/// after CallGlobal(77)/CallGlobalMono(78)/CallGlobalNative(104) or the 77<->78 rewrite of
/// the opcode byte, any other field differs).  Instruction boundaries are taken from `b`.
fn diff_code(a: &CodeSnap, b: &CodeSnap) -> (usize, usize, bool) {
    let (mut words, mut patched, mut other) = (0usize, 0usize, false);
    if a.words.len() != b.words.len() { other = true; } else {
        let n = b.words.len();
        let mut i = 0;
        while i < n {
            let op = (b.words[i] >> 24) as u8;
            let call = op == 77 || op == 78 || op == 104;
            if a.words[i] != b.words[i] {
                words += 1;
                let opa = (a.words[i] >> 24) as u8;
                if call && (a.words[i] & 0x00FF_FFFF) == (b.words[i] & 0x00FF_FFFF) && (opa == 77 || opa == 78) && op != 104 { patched += 1; }
            }
            if call {
                for j in [i + 1, i + 2] { if j < n && a.words[j] != b.words[j] { words += 1; patched += 1; } }
                i += 3;
            } else { i += 1; }
        }
    }
    if a.fields != b.fields || a.nested.len() != b.nested.len() { other = true; }
    for (x, y) in a.nested.iter().zip(b.nested.iter()) {
        let (w, p, o) = diff_code(x, y);
        words += w; patched += p; other |= o;
    }
    (words, patched, other)
}

#[cfg(vbxq_aelys_lang_verif)]
fn run_hist(hid: usize, h: &Hist) {
    println!("H\t{}\t{}\t{}\t{}\t{}\t{}\t{}", hid, h.kind.name(), h.opt, hist_string(&h.reqs), h.pool.len(), esc(&h.origin), 0);
    for (i, s) in h.pool.iter().enumerate() {
        println!("S\t{}\t{}\t{}\t{}\t{}", hid, i, h.feats[i].join(","), esc(s), esc(&h.names[i]));
    }
    let mut cached = make_pipeline(h.kind, h.opt, true);
    let mut nocache = make_pipeline(h.kind, h.opt, true);
    let mut nocomp = make_pipeline(h.kind, h.opt, false);
    for (ri, &r) in h.reqs.iter().enumerate() {
        let a = do_request(&mut cached, r, &h.pool, &h.names);
        nocache.clear_cache();
        let b = do_request(&mut nocache, r, &h.pool, &h.names);
        let d = do_request(&mut nocomp, r, &h.pool, &h.names);
        let mut fresh = make_pipeline(h.kind, h.opt, true);
        let c = do_request(&mut fresh, r, &h.pool, &h.names);
        // heap constants owned by the compiled unit of this source (measured on a fresh compile)
        let si = match r { Req::Exec(i) | Req::Compile(i) | Req::CompileAst(i) | Req::CompileAstOther(i) => i };
        let mut cp = make_pipeline(h.kind, h.opt, true);
        let objs = match guarded(std::panic::AssertUnwindSafe(|| cp.compile_str(&h.names[si], &h.pool[si]).map(|(_, hp)| hp.object_count() as i64))) {
            Ok(Ok(n)) => n,
            _ => -1,
        };
        let same_src = |q: &Req| match q { Req::Exec(i) | Req::Compile(i) | Req::CompileAst(i) | Req::CompileAstOther(i) => *i == si };
        let prior = h.reqs[..ri].iter().filter(|q| same_src(q)).count();
        let prior_exec = h.reqs[..ri].iter().filter(|q| matches!(q, Req::Exec(i) if *i == si)).count();
        // for compile results: where do the cached unit and the fresh unit differ
        let cdiff = match (&a.unit, &c.unit) {
            (Some(sa), Some(sc)) => {
                let (w, p, o) = diff_code(sa, sc);
                format!("words={};patched={};fields={};heap={}/{}", w, p, o as u8, a.heap_objs.max(0), c.heap_objs.max(0))
            }
            _ => "-".to_string(),
        };
        println!("R\t{}\t{}\t{}\t{}\t{}\t{}\t{}\t{}\t{}\t{}\t{}\t{}\t{}\t{}\t{}\t{}\t{}\t{}", hid, ri,
                 match r { Req::Exec(_) => "E", Req::Compile(_) => "C", Req::CompileAst(_) => "A", Req::CompileAstOther(_) => "X" }, si,
                 a.class, b.class, d.class, c.class, esc(&a.output), esc(&b.output), esc(&d.output), esc(&c.output),
                 objs, prior, prior_exec, cdiff,
                 esc(&a.detail.chars().take(if flag("--dump") { 100000 } else { 300 }).collect::<String>()),
                 esc(&c.detail.chars().take(if flag("--dump") { 100000 } else { 300 }).collect::<String>()));
    }
}


// ------------------------------------------------------------------------------------------
// families of near-identical sources under the SAME name (cache-key injectivity)

/// variants of one program that differ only in line endings, trailing blanks, a final newline,
/// blank lines and the content of a multi-line string literal; plus the base text under another name
fn gen_family(rng: &mut Rng) -> (Vec<String>, Vec<String>, Vec<Vec<&'static str>>) {
    let w = |rng: &mut Rng| format!("{}{}", rng.pick(&["ab", "k", "xy z", "q", "end", "0"]), rng.below(10));
    let (l1, l2, l3, lx) = (w(rng), w(rng), w(rng), format!("{}!", w(rng)));
    let pre = rng.range_i64(-50, 50);
    // literal contents of the variants (what the string must be when the variant is compiled on its own)
    let contents: Vec<String> = vec![
        format!("{}\\n{}\\n{}", l1, l2, l3),          // 1 base
        format!("{}\\r\\n{}\\r\\n{}", l1, l2, l3),    // 2 CRLF
        format!("{}  \\n{}\\n{}", l1, l2, l3),         // 3 trailing blanks
        format!("{}\\n\\n{}\\n{}", l1, l2, l3),       // 4 blank line inside
        format!("{}\\n{}\\n{}", l1, lx, l3),          // 5 other content
        format!("{}\\n{}\\t\\n{}", l1, l2, l3),       // 6 trailing tab
        format!("{}\\n{}\\n{}", l3, l2, l1),          // 7 lines swapped (long-prefix member)
    ];
    let chain: String = contents.iter().enumerate().map(|(i, c)| format!("if s == \"{}\" {{ code = {} }}\n", c, i + 1)).collect();
    let text = |lit: &str, stmt_tail: &str, between: &str| -> String {
        format!("let pre = {pre}{stmt_tail}\n{between}let s = \"{lit}\"\nfn g(k) {{ return k + pre }}\nlet mut code = 0\n{chain}{between}code * 100 + g(1)\n")
    };
    let lit = |a: &str, b: &str, c: &str| format!("{}\n{}\n{}", a, b, c);     // real newlines inside the literal
    let base = text(&lit(&l1, &l2, &l3), "", "");
    let mut pool = vec![
        base.clone(),
        base.replace('\n', "\r\n"),
        text(&format!("{}  \n{}\n{}", l1, l2, l3), "   ", ""),
        base.trim_end_matches('\n').to_string(),
        text(&lit(&l1, &l2, &l3), "", "\n\n") + "\n\n",
        text(&format!("{}\n\n{}\n{}", l1, l2, l3), "", ""),
        text(&lit(&l1, &lx, &l3), "", ""),
        text(&format!("{}\n{}\t\n{}", l1, l2, l3), "", ""),
        base.clone(),
    ];
    // long sources that agree on a long prefix (a key that looks only at the beginning, or at the length, of the text)
    let pad_lines = *rng.pick(&[120usize, 700, 2500]);
    let pad: String = (0..pad_lines).map(|i| format!("// padding line {:05} ........................\n", i)).collect();
    pool.push(format!("{}{}", pad, base));
    pool.push(format!("{}{}", pad, text(&lit(&l1, &lx, &l3), "", "")));
    pool.push(format!("{}{}", pad, text(&lit(&l3, &l2, &l1), "", "")));      // same length as the first long one
    let mut names: Vec<String> = pool.iter().map(|_| "fam.aelys".to_string()).collect();
    let last = 8;
    names[last] = "other.aelys".to_string();
    let feats: Vec<Vec<&'static str>> = vec![vec!["family-base"], vec!["family-crlf"], vec!["family-trailing-blanks"], vec!["family-no-final-newline"],
        vec!["family-blank-lines-outside"], vec!["family-blank-line-in-literal"], vec!["family-other-literal"], vec!["family-trailing-tab"], vec!["family-same-content-other-name"],
        vec!["family-long-prefix-a"], vec!["family-long-prefix-b"], vec!["family-long-prefix-same-length"]];
    // a broken member now and then (error results must not leak across keys either)
    if rng.chance(1, 4) { pool[6] = pool[6].replace("fn g(k)", "fn g(k"); }
    (pool, names, feats)
}

/// sources whose NAME / CONTENT boundary shifts: (name p ++ T[..k], content T[k..]) for several k -- the
/// concatenation name ++ content is the same for all of them, the programs (and their values) differ;
/// includes the corners k = 0 (nothing moved into the name) and k = |T| (empty content)
fn gen_boundary_family(rng: &mut Rng) -> (Vec<String>, Vec<String>, Vec<Vec<&'static str>>) {
    let (a, b, c, d) = (1 + rng.below(9), rng.below(10), 1 + rng.below(9), 10 + rng.below(80));
    let t = format!("{}{} - {} + {}", a, b, c, d);                  // "12 - 3 + 45"
    let p = format!("chunk{}", rng.below(3));
    // cut points after which the rest is still a program: before/after each digit of the first number, before the
    // first operator (rest starts with a unary minus), after "ab - ", after "ab - c + ", and the two corners
    let cuts: Vec<usize> = vec![0, 1, 2, 5, 5 + 1 + 3, t.len()];
    let mut pool = Vec::new();
    let mut names = Vec::new();
    let mut feats: Vec<Vec<&'static str>> = Vec::new();
    for &k in &cuts {
        let k = k.min(t.len());
        names.push(format!("{}{}", p, &t[..k]));
        pool.push(t[k..].to_string());
        feats.push(vec![if k == 0 { "boundary-nothing-moved" } else if k == t.len() { "boundary-empty-content" } else { "boundary-shifted" }]);
    }
    // a two-line program cut at the line break, and the same text under the plain name
    let two = format!("let v = {}\nv * {}", d, c);
    let cut = two.find('\n').unwrap() + 1;
    names.push(format!("{}{}", p, &two[..cut])); pool.push(two[cut..].to_string().replace("v *", "1 *")); feats.push(vec!["boundary-line-cut"]);
    names.push(p.clone()); pool.push(format!("{}{}", &two[..cut], two[cut..].replace("v *", "1 *"))); feats.push(vec!["boundary-line-whole"]);
    (pool, names, feats)
}

#[cfg(vbxq_aelys_lang_verif)]
fn run_boundary_families(rng: &mut Rng, n: usize, hid: &mut usize) {
    for fid in 0..n {
        let (pool, names, feats) = gen_boundary_family(rng);
        let kind = match rng.below(4) { 0 => PKind::Compilation, 1 => PKind::Stdlib, _ => PKind::Standard };
        let opt = *rng.pick(&[0u32, 1, 2, 3]);
        let k = pool.len();
        let mk = |reqs: Vec<Req>, origin: &str| Hist { names: names.clone(), kind, opt, pool: pool.clone(), feats: feats.clone(), reqs, origin: origin.to_string() };
        for i in 0..k { for j in 0..k { if i != j {
            // both request kinds for every ordered pair (execute only where the pipeline has a VM)
            run_hist(*hid, &mk(vec![Req::Compile(i), Req::Compile(j)], "boundary-pair")); *hid += 1;
            if kind != PKind::Compilation { run_hist(*hid, &mk(vec![Req::Exec(i), Req::Exec(j)], "boundary-pair")); *hid += 1; }
        }}}
        for _ in 0..3 {
            let mut order: Vec<usize> = (0..k).collect();
            for a in (1..k).rev() { let b = rng.below(a as u64 + 1) as usize; order.swap(a, b); }
            let reqs = order.iter().map(|&i| if kind == PKind::Compilation || rng.chance(1, 3) { Req::Compile(i) } else { Req::Exec(i) }).collect();
            run_hist(*hid, &mk(reqs, "boundary-order")); *hid += 1;
        }
        for i in 0..k { for j in 0..k { if i != j && (names[i] != names[j] || pool[i] != pool[j]) {
            let log = Rc::new(RefCell::new(Vec::new()));
            let mut p = Pipeline::new();
            p.add_stage(Box::new(SynStage { spec: SynSpec { name: "lexer", cacheable: true, counter: false, acts: vec![Act::Tokens] }, idx: 0, runs: 0, log: log.clone() }));
            p.add_stage(Box::new(SynStage { spec: SynSpec { name: "vm", cacheable: false, counter: false, acts: vec![Act::Value] }, idx: 1, runs: 0, log: log.clone() }));
            let _ = p.execute_str(&names[i], &pool[i]);
            log.borrow_mut().clear();
            let _ = p.execute_str(&names[j], &pool[j]);
            let ran_probe = log.borrow().iter().any(|(s, _)| *s == 0);
            println!("K\t{}\t{}\t{}\t{}\t{}\t{}", 1000 + fid, i, j, (!ran_probe) as u8, feats[i][0], feats[j][0]);
        }}}
    }
}

#[cfg(vbxq_aelys_lang_verif)]
fn run_families(rng: &mut Rng, n: usize, hid: &mut usize) {
    for fid in 0..n {
        let (pool, names, feats) = gen_family(rng);
        let kind = match rng.below(4) { 0 => PKind::Compilation, 1 => PKind::Stdlib, _ => PKind::Standard };
        let opt = *rng.pick(&[0u32, 1, 2, 3]);
        let k = pool.len();
        let mk = |reqs: Vec<Req>, origin: &str| Hist { names: names.clone(), kind, opt, pool: pool.clone(), feats: feats.clone(), reqs, origin: origin.to_string() };
        // every ordered pair against one pipeline
        for i in 0..k { for j in 0..k { if i != j {
            let reqs = if kind == PKind::Compilation || (i + j + fid) % 5 == 0 { vec![Req::Compile(i), Req::Compile(j)] } else { vec![Req::Exec(i), Req::Exec(j)] };
            run_hist(*hid, &mk(reqs, "family-pair")); *hid += 1;
        }}}
        // a few complete orders
        for _ in 0..3 {
            let mut order: Vec<usize> = (0..k).collect();
            for a in (1..k).rev() { let b = rng.below(a as u64 + 1) as usize; order.swap(a, b); }
            let reqs = order.iter().map(|&i| if kind == PKind::Compilation || rng.chance(1, 4) { Req::Compile(i) } else { Req::Exec(i) }).collect();
            run_hist(*hid, &mk(reqs, "family-order")); *hid += 1;
        }
        // cache-key injectivity probe through the public API: a cacheable probe stage must run again
        // for every request whose (name, content) differs from the one before
        for i in 0..k { for j in 0..k { if i != j && (names[i] != names[j] || pool[i] != pool[j]) {
            let log = Rc::new(RefCell::new(Vec::new()));
            let mut p = Pipeline::new();
            p.add_stage(Box::new(SynStage { spec: SynSpec { name: "lexer", cacheable: true, counter: false, acts: vec![Act::Tokens] }, idx: 0, runs: 0, log: log.clone() }));
            p.add_stage(Box::new(SynStage { spec: SynSpec { name: "vm", cacheable: false, counter: false, acts: vec![Act::Value] }, idx: 1, runs: 0, log: log.clone() }));
            let _ = p.execute_str(&names[i], &pool[i]);
            log.borrow_mut().clear();
            let _ = p.execute_str(&names[j], &pool[j]);
            let ran_probe = log.borrow().iter().any(|(s, _)| *s == 0);
            println!("K\t{}\t{}\t{}\t{}\t{}\t{}", fid, i, j, (!ran_probe) as u8, feats[i][0], feats[j][0]);
        }}}
    }
}

// ------------------------------------------------------------------------------------------
// determinism across processes

/// Same calls, in the same order, as cli/src/cli/commands/compile.rs::compile_to_avbc_with_output
/// for a source file (the CLI crate itself is not a dependency of the harness).
fn compile_like_cli(path: &std::path::Path, opt: u32) -> Result<Vec<u8>, String> {
    use aelys_backend::Compiler;
    use aelys_driver::modules::load_modules_with_loader;
    use aelys_frontend::lexer::Lexer;
    use aelys_frontend::parser::Parser;
    use aelys_modules::manifest::Manifest;
    use aelys_opt::Optimizer;
    use aelys_runtime::{VM, VmConfig};
    use aelys_syntax::StmtKind;
    let opt_level = opt_level(opt);
    let content = std::fs::read_to_string(path).map_err(|e| format!("read: {}", e))?;
    let name = path.display().to_string();
    let src = Source::new(&name, &content);
    let tokens = Lexer::with_source(src.clone()).scan().map_err(|e| e.to_string())?;
    let stmts = Parser::new(tokens, src.clone()).parse().map_err(|e| e.to_string())?;
    let mut vm = VM::with_config_and_args(src.clone(), VmConfig::default(), Vec::new()).map_err(|e| e.to_string())?;
    if let Ok(abs) = path.canonicalize() { vm.set_script_path(abs.display().to_string()); } else { vm.set_script_path(path.display().to_string()); }
    let (mut imports, loader) = load_modules_with_loader(&stmts, path, src.clone(), &mut vm).map_err(|e| e.to_string())?;
    imports.include_auto_registered(&vm);
    let main_stmts: Vec<_> = stmts.into_iter().filter(|s| !matches!(s.kind, StmtKind::Needs(_))).collect();
    let mut all_known = imports.known_globals.clone();
    for b in ["alloc", "free", "load", "store", "type"] { all_known.insert(b.to_string()); }
    let typed = aelys_sema::TypeInference::infer_program_with_imports(main_stmts, src.clone(), imports.module_aliases.clone(), all_known)
        .map_err(|errs| errs.first().map(|e| e.to_string()).unwrap_or_else(|| "Unknown type error".into()))?;
    let mut optimizer = Optimizer::new(opt_level);
    let typed = optimizer.optimize(typed);
    let (mut function, heap, _g) = Compiler::with_modules(None, src.clone(), imports.module_aliases, imports.known_globals,
        imports.known_native_globals, imports.symbol_origins).compile_typed(&typed).map_err(|e| e.to_string())?;
    if opt_level != aelys_opt::OptimizationLevel::None { function.strip_debug_info(); }
    let manifest_bytes = loader.manifest().map(Manifest::to_bytes);
    Ok(if manifest_bytes.is_some() {
        aelys_bytecode::asm::serialize_with_manifest(&function, &heap, manifest_bytes.as_deref(), None)
    } else {
        aelys_bytecode::asm::serialize(&function, &heap)
    })
}

fn hex(b: &[u8]) -> String { b.iter().map(|x| format!("{:02x}", x)).collect() }

/// canonical form of a compile failure: the error code (`error[E0201]`) or the leading words;
/// the rendered message is not part of the comparison (its "did you mean" hints list
/// candidates in HashMap order, and the property is about the bytecode file)
fn err_kind(msg: &str) -> String {
    let line = msg.lines().find(|l| !l.trim().is_empty()).unwrap_or("").trim();
    if let Some(i) = line.find(']') { return line[..=i].to_string(); }
    line.chars().take_while(|c| c.is_ascii_alphabetic() || *c == ' ').take(32).collect::<String>().trim().to_string()
}

/// sources for the determinism run: the pipeline generator plus programs that import std
/// modules in every form and user modules (so that the import tables, which are HashMaps,
/// feed the compiler).
fn det_source(rng: &mut Rng, dir: &std::path::Path, idx: usize) -> (std::path::PathBuf, Vec<&'static str>) {
    let mut g = Gen { rng, n: 0, print: false, nostr: false };
    let (body, mut feats) = if g.rng.chance(1, 8) { g.broken() } else { g.program() };
    let mut head = String::new();
    let mut tail = String::new();
    let rng = g.rng;
    let nimp = rng.below(5);
    let mods = ["math", "string", "convert", "io", "time", "sys"];
    let mut used: Vec<&str> = Vec::new();
    for _ in 0..nimp {
        let m = *rng.pick(&mods);
        if used.contains(&m) { continue; }
        used.push(m);
        match rng.below(3) {
            0 => { head += &format!("needs std.{}\n", m); feats.push("needs-module");
                   tail += match m { "math" => "let dm1 = math.abs(-3)\n", "string" => "let ds1 = string.to_upper(\"ab\")\n", "convert" => "let dc1 = convert.to_string(12)\n",
                                     "io" => "io.print(\"x\")\n", "time" => "let dt1 = time.timer()\n", _ => "let dy1 = sys.platform()\n" }; }
            1 => { head += &format!("needs std.{} as m{}\n", m, m); feats.push("needs-alias");
                   tail += &match m { "math" => "let dm2 = mmath.max(1, 2)\n".to_string(), "string" => "let ds2 = mstring.trim(\" a \")\n".to_string(), "convert" => "let dc2 = mconvert.to_int(\"3\")\n".to_string(),
                                     "io" => "mio.print(\"y\")\n".to_string(), "time" => "let dt2 = mtime.timer()\n".to_string(), _ => "let dy2 = msys.arch()\n".to_string() }; }
            _ => { feats.push("needs-selected");
                   let (names, use_) = match m { "math" => ("abs, max, min", "let dm3 = max(abs(-2), min(1, 5))\n"), "string" => ("to_upper, trim", "let ds3 = trim(to_upper(\" b \"))\n"),
                                                 "convert" => ("to_string, to_int", "let dc3 = to_int(to_string(7))\n"), "io" => ("print", "print(\"z\")\n"),
                                                 "time" => ("timer, elapsed_ms", "let dt3 = timer()\n"), _ => ("platform, arch", "let dy3 = platform() + arch()\n") };
                   head += &format!("needs {} from std.{}\n", names, m); tail += use_; }
        }
    }
    // user modules next to the script: several, each exporting several names
    let nuser = rng.below(4);
    for u in 0..nuser {
        let mname = format!("um{}_{}", idx, u);
        let mut mt = String::new();
        let nf = 1 + rng.below(5);
        for k in 0..nf {
            mt += &format!("pub fn {}_f{}(x) {{ return x + {} }}\npub let {}_c{} = \"{}{}\"\n", mname, k, rng.below(50), mname, k, rng.pick(&WORDS), k);
        }
        std::fs::write(dir.join(format!("{}.aelys", mname)), mt).unwrap();
        feats.push("user-module");
        if rng.chance(1, 2) {
            head += &format!("needs {}\n", mname);
            tail += &format!("let du{} = {}.{}_f0(1)\nlet dv{} = {}.{}_c0\n", u, mname, mname, u, mname, mname);
        } else {
            head += &format!("needs {} as a{}\n", mname, u);
            tail += &format!("let du{} = a{}.{}_f0(2)\n", u, u, mname);
        }
    }
    // functions and lambdas that name globals the parent compiler has not indexed yet: the child
    // compiler hands out the indices and its table is merged into the parent's (HashMap walk)
    if rng.chance(1, 2) {
        let k = 2 + rng.below(4);
        let calls: Vec<String> = (0..k).map(|j| format!("fwd{}_{}()", idx, j)).collect();
        tail += &format!("fn fwuser{}() {{ return {} }}\n", idx, calls.join(" + "));
        if rng.chance(1, 2) { tail += &format!("let fwlam{} = fn(x) {{ return x + {} }}\n", idx, calls.join(" + ")); feats.push("lambda-forward-globals"); }
        for j in 0..k { tail += &format!("fn fwd{}_{}() {{ return {} }}\n", idx, j, rng.below(90)); }
        feats.push("forward-globals");
    }
    // block-bodied lambdas that are the FIRST to name several globals (user functions declared later, std natives),
    // the enclosing code using some of them afterwards; also nested in another lambda and inside a function
    if rng.chance(2, 3) {
        let k = 2 + rng.below(4);
        let shape = rng.below(3);
        let mut body = String::new();
        for j in 0..k { body += &format!("    let v{} = lb{}_{}({})\n", j, idx, j, j); }
        let std_math = !used.contains(&"math") && rng.chance(1, 2);
        if std_math { head += "needs std.math\n"; body += "    let vm = math.sqrt(16.0) + math.floor(2.5)\n    let vs = string.len(\"hello\")\n"; }
        body += "    return v0 + x\n";
        match shape {
            0 => tail += &format!("let blam{} = fn(x) {{\n{}}}\n", idx, body),
            1 => tail += &format!("let blam{} = fn(x) {{\n    let inner = fn(y) {{\n{}    }}\n    return inner(x)\n}}\n", idx, body.replace("+ x", "+ y").replace("    ", "        ")),
            _ => tail += &format!("fn bhost{}(x) {{\n    let inner = fn(y) {{\n{}    }}\n    return inner(x)\n}}\n", idx, body.replace("+ x", "+ y").replace("    ", "        ")),
        }
        // afterwards the enclosing code uses some of the same globals (in another order)
        for j in (0..k).rev() { if rng.chance(2, 3) { tail += &format!("let after{}_{} = lb{}_{}(7)\n", idx, j, idx, j); } }
        if std_math { tail += "let afterm = math.floor(7.9)\nlet afters = string.len(\"ab\")\n"; }
        for j in 0..k { tail += &format!("fn lb{}_{}(a) {{ return a + {} }}\n", idx, j, rng.below(50)); }
        feats.push("block-lambda-new-globals");
        if shape > 0 { feats.push("nested-block-lambda"); }
    }
    // a nested function owning several interned strings (Heap::merge walks the intern table)
    if rng.chance(1, 2) {
        let k = 2 + rng.below(4);
        let parts: Vec<String> = (0..k).map(|j| format!("\"ns{}_{}{}\"", idx, j, rng.pick(&WORDS))).collect();
        tail += &format!("fn nstr{}() {{\n  fn inner(x) {{ return {} + x }}\n  return inner(\"q{}\")\n}}\n", idx, parts.join(" + "), idx);
        feats.push("nested-interned-strings");
    }
    // small functions in call cycles, each declared before its caller where possible (inliner analysis)
    if rng.chance(1, 3) {
        tail += &format!("fn mrd{i}(n) {{ return mrc{i}(n) + 1 }}\nfn mra{i}(n) {{ return mrb{i}(n) }}\nfn mrb{i}(n) {{ return mrc{i}(n) + mrd{i}(n) }}\nfn mrc{i}(n) {{ return mra{i}(n) }}\n", i = idx);
        feats.push("mutual-recursion");
    }
    // many globals (layout order) and many functions
    if rng.chance(1, 2) {
        let n = 3 + rng.below(30);
        for k in 0..n { tail += &format!("let zz{} = {}\n", k, rng.below(1000)); }
        tail += &format!("fn zsum() {{ return zz0 + zz{} + zz{} }}\n", rng.below(n), rng.below(n));
        feats.push("many-globals");
    }
    let mut text = head;
    // the generated body ends in an expression; imports first, then extra lets, then the body
    text += &tail;
    text += &body;
    let p = dir.join(format!("d{}.aelys", idx));
    std::fs::write(&p, text).unwrap();
    (p, feats)
}

fn child_main() {
    quiet_panics();
    let file = arg("--file").expect("--file");
    let opt = arg_u64("--opt", 0) as u32;
    let r = guarded(std::panic::AssertUnwindSafe(|| compile_like_cli(std::path::Path::new(&file), opt)));
    match r {
        Ok(Ok(b)) => println!("OK {}", hex(&b)),
        Ok(Err(e)) => println!("ERR {}", hex(err_kind(&e).as_bytes())),
        Err(p) => println!("PANIC {}", hex(p.as_bytes())),
    }
}

fn det_main() {
    let seed = arg_u64("--seed", 0);
    let n = arg_u64("--n", 40) as usize;
    let procs = arg_u64("--procs", 8) as usize;
    let dir = std::path::PathBuf::from(arg("--dir").expect("--dir"));
    std::fs::create_dir_all(&dir).unwrap();
    let exe = std::env::current_exe().unwrap();
    let mut rng = Rng::new(seed ^ 0xD7);
    let mut files: Vec<(std::path::PathBuf, Vec<&'static str>)> = Vec::new();
    if let Some(extra) = arg("--files") {
        for f in extra.split(',').filter(|s| !s.is_empty()) { files.push((std::path::PathBuf::from(f), vec!["corpus"])); }
    }
    for i in 0..n { files.push(det_source(&mut rng, &dir, i)); }
    // all children of one (file, opt) run concurrently, NCPU at a time overall
    for (fi, (path, feats)) in files.iter().enumerate() {
        for opt in [0u32, 2] {
            let children: Vec<_> = (0..procs).map(|_| {
                std::process::Command::new(&exe).args(["--mode", "child", "--file", path.to_str().unwrap(), "--opt", &opt.to_string()])
                    .stdout(std::process::Stdio::piped()).stderr(std::process::Stdio::null()).spawn().expect("spawn")
            }).collect();
            let outs: Vec<String> = children.into_iter().map(|c| {
                let o = c.wait_with_output().expect("wait");
                let s = String::from_utf8_lossy(&o.stdout).trim().to_string();
                if s.is_empty() { format!("CRASH {:?}", o.status.code()) } else { s }
            }).collect();
            // in-process, twice (same RandomState seeds differ per HashMap instance anyway)
            let a = guarded(std::panic::AssertUnwindSafe(|| compile_like_cli(path, opt)));
            let inproc = match a { Ok(Ok(b)) => format!("OK {}", hex(&b)), Ok(Err(e)) => format!("ERR {}", hex(err_kind(&e).as_bytes())), Err(p) => format!("PANIC {}", hex(p.as_bytes())) };
            let mut all = outs.clone();
            all.push(inproc);
            let first = &all[0];
            let distinct: std::collections::BTreeSet<&String> = all.iter().collect();
            let status = first.split(' ').next().unwrap_or("?").to_string();
            let mut diff_at: i64 = -1;
            let mut other = String::new();
            if distinct.len() > 1 {
                let o = all.iter().find(|x| *x != first).unwrap();
                let (fa, fb) = (first.as_bytes(), o.as_bytes());
                let mut k = 0;
                while k < fa.len() && k < fb.len() && fa[k] == fb[k] { k += 1; }
                diff_at = (k as i64 - 3).max(0) / 2;
                other = o.chars().take(4000).collect();
            }
            let len = (first.len().saturating_sub(status.len() + 1)) / 2;
            let shown: String = first.chars().take(4000).collect();
            println!("D\t{}\t{}\t{}\t{}\t{}\t{}\t{}\t{:016x}\t{}\t{}\t{}", fi, opt, status, distinct.len(), all.len(), len, diff_at,
                     fnv(first.as_bytes()), feats.join(","), esc(&path.display().to_string()),
                     if distinct.len() > 1 { format!("{}|{}", shown, other) } else { String::new() });
        }
    }
}

// ------------------------------------------------------------------------------------------
// protocol tie with synthetic stages

#[derive(Clone, Copy, Debug, PartialEq, Eq)]
enum Act { Fail, Tokens, Ast, Compiled(u8), Value }

#[derive(Clone, Debug)]
struct SynSpec { name: &'static str, cacheable: bool, counter: bool, acts: Vec<Act> }

struct SynStage { spec: SynSpec, idx: usize, runs: u64, log: Rc<RefCell<Vec<(usize, usize)>>> }

/// abstract payload carried by a stage input (what the Coq model calls `payload`)
fn payload_of(i: &StageInput) -> (u64, u64, usize) {
    // (payload, heap objects, source id)
    let sid = |s: &std::sync::Arc<Source>| s.content.trim().parse::<usize>().unwrap_or(0);
    match i {
        StageInput::Source(s) => (0, 0, sid(s)),
        StageInput::Tokens(t, s) => (t.len() as u64, 0, sid(s)),
        StageInput::Ast(_, s) => (0, 0, sid(s)),
        StageInput::TypedAst(_, s) => (0, 0, sid(s)),
        StageInput::Air(_, _, s) => (0, 0, sid(s)),
        StageInput::Compiled(f, h, s) => (f.arity as u64, h.object_count() as u64, sid(s)),
    }
}

impl Stage for SynStage {
    fn name(&self) -> &str { self.spec.name }
    fn cacheable(&self) -> bool { self.spec.cacheable }
    fn execute(&mut self, input: StageInput) -> Result<StageOutput, PipelineError> {
        let (p, h, sid) = payload_of(&input);
        self.log.borrow_mut().push((self.idx, sid));
        let c = if self.spec.counter { self.runs } else { 0 };
        self.runs += 1;
        let src = match &input {
            StageInput::Source(s) | StageInput::Tokens(_, s) | StageInput::Ast(_, s) | StageInput::TypedAst(_, s)
            | StageInput::Air(_, _, s) | StageInput::Compiled(_, _, s) => s.clone(),
        };
        // new payload: a small function of everything the stage can see
        let np = (p * 3 + h * 5 + self.idx as u64 + 1 + c) % 97;
        match self.spec.acts[sid % self.spec.acts.len()] {
            Act::Fail => Err(PipelineError::StageError { stage: self.spec.name.to_string(), message: "synthetic".into() }),
            Act::Tokens => {
                let t = aelys_syntax::Token::new(aelys_syntax::TokenKind::Eof, aelys_syntax::Span::dummy());
                Ok(StageOutput::Tokens(vec![t; np as usize], src))
            }
            Act::Ast => Ok(StageOutput::Ast(Vec::new(), src)),
            Act::Compiled(k) => {
                let mut heap = aelys_bytecode::Heap::new();
                for j in 0..k { heap.alloc_string(&format!("k{}", j)); }
                let f = aelys_bytecode::Function::new(None, np as u8);
                Ok(StageOutput::Compiled(Box::new(f), heap, src))
            }
            Act::Value => Ok(StageOutput::Value(Value::int((np + 100 * h) as i64))),
        }
    }
}

const SYN_NAMES: [&str; 6] = ["lexer", "parser", "compiler", "vm", "opt", "strip"];

fn act_coq(a: Act) -> String {
    match a { Act::Fail => "AFail".into(), Act::Tokens => "ATokens".into(), Act::Ast => "AAst".into(), Act::Compiled(k) => format!("(ACompiled {})", k), Act::Value => "AValue".into() }
}

fn proto_main() {
    let seed = arg_u64("--seed", 0);
    let n = arg_u64("--n", 300);
    let mut rng = Rng::new(seed ^ 0x9C);
    for case in 0..n {
        // stage list: mostly pipeline-shaped (… -> Compiled -> Value), sometimes arbitrary
        let nst = 1 + rng.below(5) as usize;
        let nsrc = 1 + rng.below(3) as usize;
        let shaped = rng.chance(2, 3);
        let mut specs = Vec::new();
        for i in 0..nst {
            let name = if shaped && !rng.chance(1, 8) {
                if i + 1 == nst { "vm" } else { SYN_NAMES[[0usize, 1, 2, 4, 5][i % 5]] }
            } else { *rng.pick(&SYN_NAMES) };
            let acts: Vec<Act> = (0..nsrc).map(|_| {
                if shaped && !rng.chance(1, 6) {
                    if i + 1 == nst { Act::Value } else if i + 2 == nst { Act::Compiled(rng.below(4) as u8) } else { *rng.pick(&[Act::Tokens, Act::Ast, Act::Compiled(1)]) }
                } else {
                    match rng.below(6) { 0 => Act::Fail, 1 => Act::Tokens, 2 => Act::Ast, 3 => Act::Compiled(rng.below(4) as u8), 4 => Act::Compiled(0), _ => Act::Value }
                }
            }).collect();
            let cacheable = if name == "vm" && shaped { rng.chance(1, 10) } else { !rng.chance(1, 5) };
            let counter = if shaped { name == "vm" } else { rng.chance(1, 3) };
            specs.push(SynSpec { name, cacheable, counter, acts });
        }
        let len = 1 + rng.below(7) as usize;
        let reqs: Vec<Req> = (0..len).map(|_| { let i = rng.below(nsrc as u64) as usize; if rng.chance(1, 3) { Req::Compile(i) } else { Req::Exec(i) } }).collect();
        // run against the real Pipeline
        let log = Rc::new(RefCell::new(Vec::new()));
        let mut p = Pipeline::new();
        for (i, s) in specs.iter().enumerate() {
            p.add_stage(Box::new(SynStage { spec: s.clone(), idx: i, runs: 0, log: log.clone() }));
        }
        let mut obs: Vec<String> = Vec::new();
        for r in &reqs {
            log.borrow_mut().clear();
            // all sources share one name; content = the source id
            let res: (i64, i64, i64) = match r {
                Req::Exec(i) => match p.execute_str("syn", &format!("{}", i)) {
                    Ok(v) => (0, v.as_int().unwrap_or(-1), 0),
                    Err(PipelineError::StageError { .. }) => (2, 0, 0),
                    Err(PipelineError::TypeMismatch { .. }) => (3, 0, 0),
                    Err(PipelineError::MissingInput { .. }) => (4, 0, 0),
                },
                Req::Compile(i) | Req::CompileAst(i) | Req::CompileAstOther(i) => match p.compile_str("syn", &format!("{}", i)) {
                    Ok((f, h)) => (1, f.arity as i64, h.object_count() as i64),
                    Err(PipelineError::StageError { .. }) => (2, 0, 0),
                    Err(PipelineError::TypeMismatch { .. }) => (3, 0, 0),
                    Err(PipelineError::MissingInput { .. }) => (4, 0, 0),
                },
            };
            let ran: Vec<String> = log.borrow().iter().map(|(i, _)| i.to_string()).collect();
            obs.push(format!("({}%Z, {}%Z, {}%Z, [{}])", res.0, res.1, res.2, ran.iter().map(|x| format!("{}%N", x)).collect::<Vec<_>>().join("; ")));
        }
        let stages: Vec<String> = specs.iter().map(|s| format!("mk_syn \"{}\" {} {} [{}]", s.name, s.cacheable, s.counter,
            s.acts.iter().map(|a| act_coq(*a)).collect::<Vec<_>>().join("; "))).collect();
        let hist: Vec<String> = reqs.iter().map(|r| match r { Req::Exec(i) => format!("RExec {}", i), Req::Compile(i) | Req::CompileAst(i) | Req::CompileAstOther(i) => format!("RCompile {}", i) }).collect();
        println!("([{}], [{}])\t[{}]\t{}", stages.join("; "), hist.join("; "), obs.join("; "), case);
    }
}

// ------------------------------------------------------------------------------------------
// global layout contract: top-level declarations in source order -> layout names
fn layout_main() {
    let seed = arg_u64("--seed", 0);
    let n = arg_u64("--n", 200);
    let mut rng = Rng::new(seed ^ 0x1A);
    let names = ["a", "b", "f", "g", "x", "y", "k2", "total", "zz", "m_1", "q", "w"];
    for _ in 0..n {
        let nd = rng.below(10) as usize;
        let mut decls: Vec<(String, bool)> = Vec::new();
        let mut text = String::new();
        for _ in 0..nd {
            let nm = rng.pick(&names).to_string();
            let is_fn = rng.chance(1, 3);
            // a name is declared once as fn or any number of times as let (shadowing at top level)
            if decls.iter().any(|(d, f)| *d == nm && (*f || is_fn)) { continue; }
            if is_fn { text += &format!("fn {}() {{ return {} }}\n", nm, rng.below(100)); }
            else { text += &format!("let {} = {}\n", nm, rng.below(100)); }
            decls.push((nm, is_fn));
        }
        // use some of them (uses do not change the layout of declared names)
        let mut last = String::from("0");
        for (d, f) in &decls { if rng.chance(1, 2) { last += &format!(" + {}{}", d, if *f { "()" } else { "" }); } }
        text += &last; text += "\n";
        let mut p = compilation_pipeline_with_opt(opt_level(0));
        let r = guarded(std::panic::AssertUnwindSafe(|| p.compile_str("layout", &text)));
        let q = format!("[{}]", decls.iter().map(|(d, _)| format!("\"{}\"", d)).collect::<Vec<_>>().join("; "));
        match r {
            Ok(Ok((f, _))) => {
                let obs = format!("[{}]", f.global_layout.names().iter().map(|d| format!("\"{}\"", d)).collect::<Vec<_>>().join("; "));
                println!("{}\t{}\t{}", q, obs, esc(&text));
            }
            Ok(Err(e)) => println!("X\t{}\t{}", esc(&text), esc(&render_err(&e).0)),
            Err(m) => println!("X\t{}\tpanic {}", esc(&text), esc(&m)),
        }
    }
}

// ------------------------------------------------------------------------------------------
#[cfg(vbxq_aelys_lang_verif)]
fn hist_main() {
    quiet_panics();
    let seed = arg_u64("--seed", 0);
    let n = arg_u64("--n", 100) as usize;
    let files: Vec<String> = arg("--files").map(|s| s.split(',').filter(|x| !x.is_empty()).map(String::from).collect()).unwrap_or_default();
    let handle = std::thread::Builder::new().stack_size(256 << 20).spawn(move || {
        let mut hid = 0;
        for f in &files {
            match read_corpus(f) {
                Some(h) => { run_hist(hid, &h); hid += 1; }
                None => println!("X\tcannot read corpus file {}", f),
            }
        }
        let mut rng = Rng::new(seed ^ 0x16);
        for _ in 0..n {
            let h = gen_hist(&mut rng);
            run_hist(hid, &h);
            hid += 1;
        }
        let mut frng = Rng::new(seed ^ 0xFA);
        run_families(&mut frng, arg_u64("--families", 0) as usize, &mut hid);
        let mut brng = Rng::new(seed ^ 0xB0);
        run_boundary_families(&mut brng, arg_u64("--families", 0) as usize, &mut hid);
    }).unwrap();
    handle.join().unwrap();
}

#[cfg(vbxq_aelys_lang_verif)]
fn main() {
    let _ = unesc("");
    match arg("--mode").as_deref() {
        Some("hist") => hist_main(),
        Some("proto") => { quiet_panics(); proto_main() }
        Some("det") => { quiet_panics(); det_main() }
        Some("child") => child_main(),
        Some("layout") => { quiet_panics(); layout_main() }
        _ => { eprintln!("--mode hist|proto|det|child"); std::process::exit(2); }
    }
}
#[cfg(not(vbxq_aelys_lang_verif))]
fn main() { eprintln!("built without hooks"); std::process::exit(2); }
