//! C19 tie: module trees through the real loader.
//!
//! Generates directory trees of Aelys modules (chains, diamonds, cycles of length 1-6, nested
//! directories with repeated file names, mod.aelys directories, all import forms, pub / non-pub
//! functions and lets), materialises each under /verif/.cache/mod-<pid>-<n>/, runs the entry with
//! aelys_driver::run_file_full (output captured through the verif sink) and prints one line per
//! tree:
//!   <Coq query : mq> \t <Coq observation : mobs> \t <tree text> \t <raw observation text>
//! Every module prints "I:<file>" when its top level runs; a probe run appends
//!   io.println("P") ; io.println(<spelling>)
//! to ONE file and records the values ("V:<file>:<name>") that spelling produced.
//!
//!   --gen N --seed S [--probes K] [--maxfiles M] [--deep D] [--sessions S] [--threads T]
//!                                     structured families + N random trees (entry compiled at O(index mod 4))
//!                                     + N/6 REPL sessions; trees may contain symlinks and an aelys.toml with
//!                                     explicit module paths
//!   --file F                          trees / sessions in the text format (corpus), separated by lines "===="
//! A REPL session (lines starting `Build_sq`) runs its inputs one after the other with
//! aelys_driver::run_with_vm_and_opt on ONE VM from the tree's root directory (serially: the working
//! directory is process-wide); all other cases run on worker threads (the verif hooks are thread-local).
#![allow(clippy::all)]
use hxlib::*;
use std::collections::BTreeSet;
use std::fmt::Write as _;
use std::path::{Path, PathBuf};

type Id = u32;
const MODSEG: Id = 0;
const STD: Id = 1;
const ENTRY: Id = 9;
const BOGUS: Id = 99;
const MISSING: Id = 98;

#[derive(Clone, Debug, PartialEq)]
enum Form {
    Module,
    Alias(Id),
    Symbols(Vec<Id>),
    Wildcard,
}
#[derive(Clone, Debug, PartialEq)]
struct Import {
    path: Vec<Id>,
    form: Form,
}
#[derive(Clone, Debug, PartialEq)]
struct Def {
    name: Id,
    is_pub: bool,
}
#[derive(Clone, Debug, Default, PartialEq)]
struct Module {
    imports: Vec<Import>,
    defs: Vec<Def>,
    /// 0 fine, 1 the body does not compile (an undefined name), 2 the top level raises right after its tag
    fault: u8,
}
#[derive(Clone, Debug, PartialEq, Eq, PartialOrd, Ord)]
enum Sp {
    Bare(Id),
    Qual(Id, Id),
}
#[derive(Clone, Debug)]
struct Case {
    label: String,
    files: Vec<(Vec<Id>, Module)>,
    /// symlinks: path of the link (a file's path without extension, or a directory's path) -> the real path
    links: Vec<(Vec<Id>, Vec<Id>)>,
    /// aelys.toml next to the entry: [module."<dotted>"] path = "<explicit>"
    hints: Vec<(Vec<Id>, Vec<PSeg>)>,
    entry: Vec<Id>,
    probes: Vec<(Vec<Id>, Sp)>,
    /// optimisation level the entry is compiled at (modules are always compiled at Standard)
    opt: u32,
    /// REPL session: when non-empty the case is a sequence of inputs run on one VM from the tree's
    /// root directory (there is no entry file); sprobes = (input index, spelling)
    inputs: Vec<Module>,
    sprobes: Vec<(usize, Sp)>,
}
#[derive(Clone, Debug, PartialEq)]
enum PSeg {
    Seg(Id),
    Up,
    Cur,
}
fn explicit_text(ex: &[PSeg]) -> String {
    let mut parts: Vec<String> = ex
        .iter()
        .map(|p| match p {
            PSeg::Seg(x) => nm(*x),
            PSeg::Up => "..".to_string(),
            PSeg::Cur => ".".to_string(),
        })
        .collect();
    if let Some(PSeg::Seg(_)) = ex.last() {
        let l = parts.len() - 1;
        parts[l] = format!("{}.aelys", parts[l]);
    }
    parts.join("/")
}
fn parse_explicit(s: &str) -> Option<Vec<PSeg>> {
    s.split('/')
        .map(|c| match c {
            ".." => Some(PSeg::Up),
            "." => Some(PSeg::Cur),
            x => unnm(x.strip_suffix(".aelys").unwrap_or(x)).map(PSeg::Seg),
        })
        .collect()
}

const STD_MODS: [&str; 4] = ["math", "string", "time", "convert"];

fn nm(i: Id) -> String {
    match i {
        MODSEG => "mod".to_string(),
        STD => "std".to_string(),
        k => format!("n{}", k),
    }
}
fn unnm(s: &str) -> Option<Id> {
    match s {
        "mod" => Some(MODSEG),
        "std" => Some(STD),
        _ => s.strip_prefix('n')?.parse().ok(),
    }
}
fn fid(p: &[Id]) -> String {
    p.iter().map(|&i| nm(i)).collect::<Vec<_>>().join("/")
}
fn unfid(s: &str) -> Option<Vec<Id>> {
    s.split('/').map(unnm).collect()
}
/// dotted path as written in source
fn dotted(p: &[Id]) -> String {
    if p.first() == Some(&STD) && p.len() == 2 {
        return format!("std.{}", STD_MODS[(p[1] % 4) as usize]);
    }
    p.iter().map(|&i| nm(i)).collect::<Vec<_>>().join(".")
}
fn is_fn(name: Id) -> bool {
    name % 2 == 0
}

// ------------------------------------------------------------------------------------------ source text
fn spell(sp: &Sp) -> String {
    match sp {
        Sp::Bare(n) => if is_fn(*n) { format!("{}()", nm(*n)) } else { nm(*n) },
        Sp::Qual(q, n) => if is_fn(*n) { format!("{}.{}()", nm(*q), nm(*n)) } else { format!("{}.{}", nm(*q), nm(*n)) },
    }
}

fn source_of(idx: usize, path: &[Id], m: &Module, probe: Option<&Sp>, extra: &str) -> String {
    let mut s = String::new();
    s.push_str("needs std.io\n");
    for i in &m.imports {
        match &i.form {
            Form::Module => writeln!(s, "needs {}", dotted(&i.path)).unwrap(),
            Form::Alias(a) => writeln!(s, "needs {} as {}", dotted(&i.path), nm(*a)).unwrap(),
            Form::Symbols(l) => writeln!(
                s,
                "needs {} from {}",
                l.iter().map(|&x| nm(x)).collect::<Vec<_>>().join(", "),
                dotted(&i.path)
            )
            .unwrap(),
            Form::Wildcard => writeln!(s, "needs {}.*", dotted(&i.path)).unwrap(),
        }
    }
    writeln!(s, "io.println(\"I:{}\")", fid(path)).unwrap();
    if m.fault == 1 {
        // used, so that no optimisation level drops it before name resolution
        s.push_str("io.println(nosuchname_xyz)\n");
    } else if m.fault == 2 {
        writeln!(s, "fn zz_boom{}(x) {{ return 1 / x }}\nio.println(zz_boom{}(0))", idx, idx).unwrap();
    }
    if m.defs.iter().any(|d| (READ_ZS0..READ_LET0).contains(&d.name)) {
        // a private top-level variable with the SAME name in every module, read back through the module's own function
        writeln!(s, "let mut zs = \"S:{}\"", fid(path)).unwrap();
    }
    for d in &m.defs {
        let v = format!("V:{}:{}", fid(path), nm(d.name));
        let p = if d.is_pub { "pub " } else { "" };
        if d.name >= READ_LET0 {
            let own = own_let(m).map(nm).unwrap_or_else(|| "null".to_string());
            writeln!(s, "{}fn {}() {{ return {} }}", p, nm(d.name), own).unwrap();
        } else if d.name >= READ_ZS0 {
            writeln!(s, "{}fn {}() {{ return zs }}", p, nm(d.name)).unwrap();
        } else if d.name >= STATE0 {
            if is_fn(d.name) {
                writeln!(s, "{}fn {}() {{\n    {} = {} + 1\n    return {}\n}}", p, nm(d.name), nm(d.name + 1), nm(d.name + 1), nm(d.name + 1)).unwrap();
            } else {
                writeln!(s, "{}let mut {} = 0", p, nm(d.name)).unwrap();
            }
        } else if is_fn(d.name) {
            writeln!(s, "{}fn {}() {{ return \"{}\" }}", p, nm(d.name), v).unwrap();
        } else {
            writeln!(s, "{}let {} = \"{}\"", p, nm(d.name), v).unwrap();
            if !d.is_pub {
                // keeps the binding a real global (an unused private let is optimised away)
                writeln!(s, "fn kp{}_{}() {{ return {} }}", idx, nm(d.name), nm(d.name)).unwrap();
            }
        }
    }
    s.push_str(extra);
    if let Some(sp) = probe {
        s.push_str("io.println(\"P\")\n");
        writeln!(s, "io.println({})", spell(sp)).unwrap();
    }
    s
}

/// read-back of a module's own top-level variables ("importers observe the values it produced"): definitions named
/// 500 + 2i are pub functions returning the module's private `zs` (every module has one of that name), 600 + 2i pub
/// functions returning the module's first own `let` of the model.  Ordinary pub definitions for the model.
const READ_ZS0: Id = 500;
const READ_LET0: Id = 600;
fn own_let(m: &Module) -> Option<Id> {
    m.defs.iter().map(|d| d.name).find(|&n| n < STATE0 && !is_fn(n))
}
/// the entry calls, at its end, the read-back functions of every module it imports under a qualifier by its own path
fn entry_extra(c: &Case) -> String {
    let mut s = String::new();
    let entry = match c.files.iter().find(|(p, _)| *p == c.entry) {
        Some((_, m)) => m,
        None => return s,
    };
    for i in &entry.imports {
        let q = match &i.form {
            Form::Module => *i.path.last().unwrap(),
            Form::Alias(a) => *a,
            _ => continue,
        };
        if let Some((_, m)) = c.files.iter().find(|(p, m)| *p == i.path && m.fault == 0) {
            for d in m.defs.iter().filter(|d| d.name >= READ_ZS0 && d.is_pub) {
                writeln!(s, "io.println(\"G:{}:{}\")\nio.println({}.{}())", fid(&i.path), nm(d.name), nm(q), nm(d.name)).unwrap();
            }
        }
    }
    s
}
fn has_readback(c: &Case) -> bool {
    c.files.iter().any(|(_, m)| m.defs.iter().any(|d| (READ_ZS0..READ_LET0).contains(&d.name)))
}

/// mutable pub state (sessions): definitions named 400 + 2i (a function) and 401 + 2i (the counter it advances) are
/// ordinary pub definitions of the model; their bodies are a counter instead of a constant
const STATE0: Id = 400;
fn state_fn(m: &Module) -> Option<Id> {
    m.defs.iter().map(|d| d.name).find(|&n| (STATE0..READ_ZS0).contains(&n) && is_fn(n))
}

fn file_on_disk(root: &Path, path: &[Id]) -> PathBuf {
    let mut p = root.to_path_buf();
    for (k, seg) in path.iter().enumerate() {
        if k + 1 == path.len() {
            p.push(format!("{}.aelys", nm(*seg)));
        } else {
            p.push(nm(*seg));
        }
    }
    p
}

fn materialise(root: &Path, c: &Case, probe: Option<&(Vec<Id>, Sp)>) {
    for (idx, (path, m)) in c.files.iter().enumerate() {
        let f = file_on_disk(root, path);
        std::fs::create_dir_all(f.parent().unwrap()).unwrap();
        let pr = match probe {
            Some((pf, sp)) if pf == path => Some(sp),
            _ => None,
        };
        let extra = if *path == c.entry { entry_extra(c) } else { String::new() };
        std::fs::write(&f, source_of(idx, path, m, pr, &extra)).unwrap();
    }
    for (src, tgt) in &c.links {
        let is_file = c.files.iter().any(|(p, _)| p == tgt);
        let (from, to) = if is_file {
            (file_on_disk(root, src), file_on_disk(root, tgt))
        } else {
            let mut a = root.to_path_buf();
            for x in src { a.push(nm(*x)); }
            let mut b = root.to_path_buf();
            for x in tgt { b.push(nm(*x)); }
            (a, b)
        };
        std::fs::create_dir_all(from.parent().unwrap()).unwrap();
        let _ = std::fs::remove_file(&from);
        std::os::unix::fs::symlink(&to, &from).unwrap();
    }
    if !c.hints.is_empty() {
        let mut t = String::new();
        for (name, ex) in &c.hints {
            let dotted = name.iter().map(|&x| nm(x)).collect::<Vec<_>>().join(".");
            writeln!(t, "[module.\"{}\"]\npath = \"{}\"\n", dotted, explicit_text(ex)).unwrap();
        }
        let mut mf = file_on_disk(root, &c.entry);
        mf.set_file_name("aelys.toml");
        std::fs::write(&mf, t).unwrap();
    }
}

// ------------------------------------------------------------------------------------------ running
#[cfg(vbxq_aelys_lang_verif)]
fn run_entry(file: &Path, opt: u32) -> (u8, String, String) {
    use aelys_common::error::{AelysError, CompileErrorKind};
    use aelys_runtime::verif;
    verif::sink_install();
    verif::budget_set(20_000_000);
    let f = file.to_path_buf();
    let r = guarded(std::panic::AssertUnwindSafe(move || {
        aelys_driver::run_file_full(&f, aelys_runtime::VmConfig::default(), Vec::new(), hxlib::runner::opt_level(opt))
            .map(|_| ())
    }));
    let out = verif::sink_take();
    verif::budget_set(u64::MAX);
    classify(r, out)
}

#[cfg(vbxq_aelys_lang_verif)]
fn classify(r: Result<Result<(), aelys_common::error::AelysError>, String>, out: String) -> (u8, String, String) {
    use aelys_common::error::{AelysError, CompileErrorKind};
    match r {
        Ok(Ok(())) => (0, out, String::new()),
        Ok(Err(AelysError::Compile(e))) => {
            let code = match &e.kind {
                CompileErrorKind::CircularDependency { .. } => 1,
                CompileErrorKind::ModuleNotFound { .. } => 2,
                CompileErrorKind::SymbolNotFound { .. } => 3,
                CompileErrorKind::SymbolConflict { .. } => 4,
                _ => 5,
            };
            (code, out, format!("{}", e).lines().next().unwrap_or("").to_string())
        }
        Ok(Err(e)) => (6, out, format!("{}", e).lines().next().unwrap_or("").to_string()),
        Err(p) => (10, out, format!("panic: {}", p)),
    }
}

struct Obs {
    code: u8,
    trace: Vec<String>,
    detail: String,
    probes: Vec<Vec<String>>,
    reads: Vec<String>,
    write: Option<(u8, Vec<String>)>,
}

/// `G:<file>:<function>` followed by what the function returned
fn reads_of(out: &str) -> Vec<String> {
    let lines: Vec<&str> = out.lines().collect();
    let mut vals = Vec::new();
    for (i, l) in lines.iter().enumerate() {
        if let Some(f) = l.strip_prefix("G:") {
            vals.push(format!("{}={}", f, lines.get(i + 1).copied().unwrap_or("?")));
        }
    }
    vals
}

fn trace_of(out: &str) -> Vec<String> {
    out.lines().filter_map(|l| l.strip_prefix("I:").map(|s| s.to_string())).collect()
}
/// `B:<file>` followed by the counter value the module's function returned
fn bump_values(out: &str) -> Vec<String> {
    let lines: Vec<&str> = out.lines().collect();
    let mut vals = Vec::new();
    for (i, l) in lines.iter().enumerate() {
        if let Some(f) = l.strip_prefix("B:") {
            vals.push(format!("{}={}", f, lines.get(i + 1).copied().unwrap_or("?")));
        }
    }
    vals
}
fn probe_values(out: &str) -> Vec<String> {
    let lines: Vec<&str> = out.lines().collect();
    let mut vals = Vec::new();
    let mut i = 0;
    while i < lines.len() {
        if lines[i] == "P" {
            match lines.get(i + 1).and_then(|l| l.strip_prefix("V:")) {
                Some(v) => vals.push(v.to_string()),
                None => break,
            }
            i += 2;
        } else {
            i += 1;
        }
    }
    vals
}

#[cfg(vbxq_aelys_lang_verif)]
fn observe(c: &Case, n: usize) -> Obs {
    let root = PathBuf::from(format!("/verif/.cache/mod-{}-{}", std::process::id(), n));
    let _ = std::fs::remove_dir_all(&root);
    std::fs::create_dir_all(&root).unwrap();
    materialise(&root, c, None);
    let entry = file_on_disk(&root, &c.entry);
    let (code, out, detail) = run_entry(&entry, c.opt);
    let mut probes = Vec::new();
    for pr in &c.probes {
        // rewrite only the probed file, run, restore
        let idx = c.files.iter().position(|(p, _)| *p == pr.0);
        match idx {
            Some(idx) => {
                let (path, m) = &c.files[idx];
                let f = file_on_disk(&root, path);
                let extra = if *path == c.entry { entry_extra(c) } else { String::new() };
                std::fs::write(&f, source_of(idx, path, m, Some(&pr.1), &extra)).unwrap();
                let (_, pout, _) = run_entry(&entry, c.opt);
                probes.push(probe_values(&pout));
                std::fs::write(&f, source_of(idx, path, m, None, &extra)).unwrap();
            }
            None => probes.push(Vec::new()),
        }
    }
    // the importer assigns to the private name of the modules it imported: must not compile
    let mut write = None;
    if has_readback(c) && code == 0 {
        if let Some(idx) = c.files.iter().position(|(p, _)| *p == c.entry) {
            let (path, m) = &c.files[idx];
            let mut extra = entry_extra(c);
            extra.push_str("zs = \"W\"\nio.println(\"WROTE\")\n");
            // after the write the modules read it back
            extra.push_str(&entry_extra(c));
            std::fs::write(&entry, source_of(idx, path, m, None, &extra)).unwrap();
            let (wcode, wout, _) = run_entry(&entry, c.opt);
            write = Some((wcode, reads_of(wout.split("WROTE").nth(1).unwrap_or(""))));
        }
    }
    let _ = std::fs::remove_dir_all(&root);
    Obs { code, trace: trace_of(&out), detail, probes, reads: reads_of(&out), write }
}

// ------------------------------------------------------------------------------------------ REPL sessions
fn input_source(c: &Case, k: usize, m: &Module, probe: Option<&Sp>) -> String {
    let mut s = String::new();
    for i in &m.imports {
        match &i.form {
            Form::Module => writeln!(s, "needs {}", dotted(&i.path)).unwrap(),
            Form::Alias(a) => writeln!(s, "needs {} as {}", dotted(&i.path), nm(*a)).unwrap(),
            Form::Symbols(l) => writeln!(s, "needs {} from {}", l.iter().map(|&x| nm(x)).collect::<Vec<_>>().join(", "), dotted(&i.path)).unwrap(),
            Form::Wildcard => writeln!(s, "needs {}.*", dotted(&i.path)).unwrap(),
        }
    }
    writeln!(s, "println(\"I:in{}\")", k).unwrap();
    if m.fault == 1 {
        // the imports load, then the input is rejected: by the compiler (undefined name, assignment to an immutable
        // name) or by type inference (annotation mismatch).  Nothing of the input runs.
        match k % 3 {
            0 => s.push_str("println(nosuchname_xyz)\n"),
            1 => writeln!(s, "let zi{} = 1\nzi{} = 2", k, k).unwrap(),
            _ => writeln!(s, "let zt{}: int = \"s\"", k).unwrap(),
        }
    }
    {
        // advance the counter of every module this input imports under a qualifier and by its own path (the names
        // of symlinks and manifest entries are never paths of files), and print its new value
        for i in &m.imports {
            let q = match &i.form {
                Form::Module => *i.path.last().unwrap(),
                Form::Alias(a) => *a,
                _ => continue,
            };
            if let Some(f) = c.files.iter().find(|(p, m)| *p == i.path && m.fault == 0).and_then(|(_, m)| state_fn(m)) {
                writeln!(s, "println(\"B:{}\")\nprintln({}.{}())", fid(&i.path), nm(q), nm(f)).unwrap();
            }
        }
    }
    if let Some(sp) = probe {
        s.push_str("println(\"P\")\n");
        writeln!(s, "println({})", spell(sp)).unwrap();
    }
    s
}

/// one session on a fresh VM; per input (code, printed output); failing inputs do not end the session
#[cfg(vbxq_aelys_lang_verif)]
fn run_session(c: &Case, probe: Option<&(usize, Sp)>) -> Vec<(u8, String)> {
    use aelys_runtime::verif;
    let mut res = Vec::new();
    let mut vm = match aelys_driver::new_vm_with_config(aelys_runtime::VmConfig::default(), Vec::new()) {
        Ok(vm) => vm,
        Err(_) => return vec![(10, String::new())],
    };
    for (k, m) in c.inputs.iter().enumerate() {
        let pr = match probe {
            Some((pk, sp)) if *pk == k => Some(sp),
            _ => None,
        };
        let src = input_source(c, k, m, pr);
        verif::sink_install();
        verif::budget_set(20_000_000);
        let r = guarded(std::panic::AssertUnwindSafe(|| {
            aelys_driver::run_with_vm_and_opt(&mut vm, &src, "<repl>", hxlib::runner::opt_level(1)).map(|_| ())
        }));
        let out = verif::sink_take();
        verif::budget_set(u64::MAX);
        let (code, out, _) = classify(r, out);
        res.push((code, out));
    }
    res
}

struct SObs {
    inputs: Vec<(u8, Vec<String>)>,
    bumps: Vec<Vec<String>>,
    probes: Vec<Vec<String>>,
}

/// Sessions resolve imports from the working directory, which is process-wide: run serially.
#[cfg(vbxq_aelys_lang_verif)]
fn observe_session(c: &Case, n: usize) -> SObs {
    let root = PathBuf::from(format!("/verif/.cache/mod-{}-s{}", std::process::id(), n));
    let _ = std::fs::remove_dir_all(&root);
    std::fs::create_dir_all(&root).unwrap();
    materialise(&root, c, None);
    let back = std::env::current_dir().ok();
    std::env::set_current_dir(&root).unwrap();
    let base = run_session(c, None);
    let inputs = base.iter().map(|(code, out)| (*code, trace_of(out))).collect();
    let bumps = base.iter().map(|(_, out)| bump_values(out)).collect();
    let mut probes = Vec::new();
    for pr in &c.sprobes {
        let r = run_session(c, Some(pr));
        let vals = r.get(pr.0).map(|(_, out)| probe_values(out)).unwrap_or_default();
        probes.push(vals);
    }
    if let Some(b) = back {
        let _ = std::env::set_current_dir(b);
    }
    let _ = std::fs::remove_dir_all(&root);
    SObs { inputs, bumps, probes }
}

fn coq_files(c: &Case) -> String {
    let fs = coq_list(&c.files, |(p, m)| {
        format!(
            "({}, Build_module {} {} {})",
            coq_ids(p),
            coq_list(&m.imports, |i| format!("Build_import {} {}", coq_ids(&i.path), coq_form(&i.form))),
            coq_list(&m.defs, |d| format!("Build_def {} {} {}", d.name, d.is_pub, is_fn(d.name))),
            m.fault
        )
    });
    let links = coq_list(&c.links, |(a, b)| format!("({}, {})", coq_ids(a), coq_ids(b)));
    let hints = coq_list(&c.hints, |(n, ex)| {
        format!(
            "({}, {})",
            coq_ids(n),
            coq_list(ex, |p| match p {
                PSeg::Seg(x) => format!("PS {}", x),
                PSeg::Up => "PUp".to_string(),
                PSeg::Cur => "PCur".to_string(),
            })
        )
    });
    format!("(mkfs {} {} {})", fs, links, hints)
}

fn coq_squery(c: &Case) -> String {
    format!(
        "Build_sq {} {} {}",
        coq_files(c),
        coq_list(&c.inputs, |m| format!(
            "Build_module {} [] {}",
            coq_list(&m.imports, |i| format!("Build_import {} {}", coq_ids(&i.path), coq_form(&i.form))),
            m.fault
        )),
        coq_list(&c.sprobes, |(k, s)| format!("({}%nat, {})", k, coq_sp(s)))
    )
}

fn coq_sobs(o: &SObs) -> String {
    format!(
        "(({}, {}) : sobs)",
        coq_list(&o.inputs, |(code, tr)| format!(
            "({}, {})",
            code,
            coq_list(tr, |t| match t.strip_prefix("in") {
                Some(k) => format!("[{}; {}]", ENTRY, k),
                None => unfid(t).map(|p| coq_ids(&p)).unwrap_or("[777]".into()),
            })
        )),
        coq_list(&o.probes, |vs| coq_list(vs, |v| coq_value(v)))
    )
}

// ------------------------------------------------------------------------------------------ rendering
fn coq_list<T>(xs: &[T], f: impl Fn(&T) -> String) -> String {
    format!("[{}]", xs.iter().map(|x| f(x)).collect::<Vec<_>>().join("; "))
}
fn coq_ids(p: &[Id]) -> String {
    coq_list(p, |i| format!("{}", i))
}
fn coq_form(f: &Form) -> String {
    match f {
        Form::Module => "FModule".into(),
        Form::Alias(a) => format!("(FAlias {})", a),
        Form::Symbols(l) => format!("(FSymbols {})", coq_ids(l)),
        Form::Wildcard => "FWildcard".into(),
    }
}
fn coq_sp(s: &Sp) -> String {
    match s {
        Sp::Bare(n) => format!("SBare {}", n),
        Sp::Qual(q, n) => format!("SQual {} {}", q, n),
    }
}
fn coq_query(c: &Case) -> String {
    format!(
        "Build_mq {} {} {}",
        coq_files(c),
        coq_ids(&c.entry),
        coq_list(&c.probes, |(f, s)| format!("({}, {})", coq_ids(f), coq_sp(s)))
    )
}
fn coq_value(v: &str) -> String {
    // "<fid>:<name>"
    let mut it = v.rsplitn(2, ':');
    let name = it.next().and_then(unnm);
    let file = it.next().and_then(unfid);
    match (file, name) {
        (Some(f), Some(n)) => format!("({}, {})", coq_ids(&f), n),
        _ => "([777], 777)".to_string(),
    }
}
fn coq_obs(o: &Obs) -> String {
    format!(
        "(({}, {}, {}) : mobs)",
        o.code,
        coq_list(&o.trace, |t| unfid(t).map(|p| coq_ids(&p)).unwrap_or("[777]".into())),
        coq_list(&o.probes, |vs| coq_list(vs, |v| coq_value(v)))
    )
}

fn text_of(c: &Case) -> String {
    let mut s = format!("label {};entry {}", c.label, fid(&c.entry));
    for (p, m) in &c.files {
        write!(s, ";file {}", fid(p)).unwrap();
        for i in &m.imports {
            let path = i.path.iter().map(|&x| nm(x)).collect::<Vec<_>>().join(".");
            match &i.form {
                Form::Module => write!(s, ";import module {}", path).unwrap(),
                Form::Alias(a) => write!(s, ";import alias {} {}", path, nm(*a)).unwrap(),
                Form::Symbols(l) => write!(s, ";import symbols {} {}", path, l.iter().map(|&x| nm(x)).collect::<Vec<_>>().join(",")).unwrap(),
                Form::Wildcard => write!(s, ";import wildcard {}", path).unwrap(),
            }
        }
        if m.fault != 0 {
            write!(s, ";fault {}", m.fault).unwrap();
        }
        for d in &m.defs {
            write!(s, ";def {} {}", if d.is_pub { "pub" } else { "priv" }, nm(d.name)).unwrap();
        }
    }
    if c.opt != 2 {
        write!(s, ";opt {}", c.opt).unwrap();
    }
    for m in &c.inputs {
        write!(s, ";input").unwrap();
        if m.fault != 0 {
            write!(s, ";fault {}", m.fault).unwrap();
        }
        for i in &m.imports {
            let path = i.path.iter().map(|&x| nm(x)).collect::<Vec<_>>().join(".");
            match &i.form {
                Form::Module => write!(s, ";import module {}", path).unwrap(),
                Form::Alias(a) => write!(s, ";import alias {} {}", path, nm(*a)).unwrap(),
                Form::Symbols(l) => write!(s, ";import symbols {} {}", path, l.iter().map(|&x| nm(x)).collect::<Vec<_>>().join(",")).unwrap(),
                Form::Wildcard => write!(s, ";import wildcard {}", path).unwrap(),
            }
        }
    }
    for (k, sp) in &c.sprobes {
        match sp {
            Sp::Bare(n) => write!(s, ";sprobe {} bare {}", k, nm(*n)).unwrap(),
            Sp::Qual(q, n) => write!(s, ";sprobe {} qual {} {}", k, nm(*q), nm(*n)).unwrap(),
        }
    }
    for (a, b) in &c.links {
        write!(s, ";link {} {}", fid(a), fid(b)).unwrap();
    }
    for (n, ex) in &c.hints {
        write!(s, ";hint {} {}", n.iter().map(|&x| nm(x)).collect::<Vec<_>>().join("."), explicit_text(ex)).unwrap();
    }
    for (f, sp) in &c.probes {
        match sp {
            Sp::Bare(n) => write!(s, ";probe {} bare {}", fid(f), nm(*n)).unwrap(),
            Sp::Qual(q, n) => write!(s, ";probe {} qual {} {}", fid(f), nm(*q), nm(*n)).unwrap(),
        }
    }
    s
}

fn parse_case(text: &str) -> Option<Case> {
    let mut c = Case { label: String::new(), files: Vec::new(), links: Vec::new(), hints: Vec::new(), entry: Vec::new(), probes: Vec::new(), opt: 2, inputs: Vec::new(), sprobes: Vec::new() };
    let mut in_input = false;
    for item in text.split(|ch| ch == ';' || ch == '\n') {
        let w: Vec<&str> = item.split_whitespace().collect();
        if w.is_empty() || w[0].starts_with('#') {
            continue;
        }
        let dots = |s: &str| -> Option<Vec<Id>> { s.split('.').map(unnm).collect() };
        match w[0] {
            "label" => c.label = w.get(1).unwrap_or(&"").to_string(),
            "entry" => c.entry = unfid(w.get(1)?)?,
            "file" => {
                in_input = false;
                c.files.push((unfid(w.get(1)?)?, Module::default()))
            }
            "input" => {
                in_input = true;
                c.inputs.push(Module::default())
            }
            "opt" => c.opt = w.get(1)?.parse().ok()?,
            "fault" => {
                let f = w.get(1)?.parse().ok()?;
                if in_input { c.inputs.last_mut()?.fault = f } else { c.files.last_mut()?.1.fault = f }
            }
            "sprobe" => {
                let k: usize = w.get(1)?.parse().ok()?;
                let sp = match *w.get(2)? {
                    "bare" => Sp::Bare(unnm(w.get(3)?)?),
                    "qual" => Sp::Qual(unnm(w.get(3)?)?, unnm(w.get(4)?)?),
                    _ => return None,
                };
                c.sprobes.push((k, sp));
            }
            "import" => {
                let path = dots(w.get(2)?)?;
                let form = match *w.get(1)? {
                    "module" => Form::Module,
                    "alias" => Form::Alias(unnm(w.get(3)?)?),
                    "symbols" => Form::Symbols(w.get(3)?.split(',').map(unnm).collect::<Option<Vec<_>>>()?),
                    "wildcard" => Form::Wildcard,
                    _ => return None,
                };
                if in_input {
                    c.inputs.last_mut()?.imports.push(Import { path, form });
                } else {
                    c.files.last_mut()?.1.imports.push(Import { path, form });
                }
            }
            "def" => {
                let is_pub = *w.get(1)? == "pub";
                c.files.last_mut()?.1.defs.push(Def { name: unnm(w.get(2)?)?, is_pub });
            }
            "link" => c.links.push((unfid(w.get(1)?)?, unfid(w.get(2)?)?)),
            "hint" => c.hints.push((dots(w.get(1)?)?, parse_explicit(w.get(2)?)?)),
            "probe" => {
                let f = unfid(w.get(1)?)?;
                let sp = match *w.get(2)? {
                    "bare" => Sp::Bare(unnm(w.get(3)?)?),
                    "qual" => Sp::Qual(unnm(w.get(3)?)?, unnm(w.get(4)?)?),
                    _ => return None,
                };
                c.probes.push((f, sp));
            }
            _ => return None,
        }
    }
    if c.entry.is_empty() || c.files.is_empty() { None } else { Some(c) }
}

// ------------------------------------------------------------------------------------------ generation
struct B {
    files: Vec<(Vec<Id>, Module)>,
    links: Vec<(Vec<Id>, Vec<Id>)>,
    hints: Vec<(Vec<Id>, Vec<PSeg>)>,
}
impl B {
    fn new() -> B {
        B { files: vec![(vec![ENTRY], Module::default())], links: Vec::new(), hints: Vec::new() }
    }
    fn file(&mut self, path: Vec<Id>, defs: Vec<Def>) -> usize {
        self.files.push((path, Module { imports: Vec::new(), defs, fault: 0 }));
        self.files.len() - 1
    }
    fn imp(&mut self, from: usize, path: Vec<Id>, form: Form) {
        self.files[from].1.imports.push(Import { path, form });
    }
    fn done(self, label: &str) -> Case {
        Case { label: label.to_string(), files: self.files, links: self.links, hints: self.hints, entry: vec![ENTRY], probes: Vec::new(), opt: 2, inputs: Vec::new(), sprobes: Vec::new() }
    }
}

/// every module gets its read-back functions (see READ_ZS0)
fn add_readback(files: &mut [(Vec<Id>, Module)]) {
    for (i, (_, m)) in files.iter_mut().enumerate().skip(1) {
        if m.fault != 0 {
            continue;
        }
        m.defs.push(Def { name: READ_ZS0 + 2 * i as Id, is_pub: true });
        if own_let(m).is_some() {
            m.defs.push(Def { name: READ_LET0 + 2 * i as Id, is_pub: true });
        }
    }
}

/// four definitions with names unique to slot k: fn, let, fn, let with random visibility
/// (the first is always pub so that whole-module imports grant something)
fn defs_for(rng: &mut Rng, k: u32) -> Vec<Def> {
    // identifier spaces stay disjoint: stems 10-19 / 100+, directories 20-26, definitions 30-69 / 200+,
    // aliases 70-79, structured manifest names / links 80-95, odd ones 96-99, generated manifest names 300+, state 400+, read-back 500+/600+, links 700+
    let base = if k < 10 { 30 + 4 * k } else { 200 + 4 * k };
    let n = 2 + rng.below(3) as u32;
    (0..n).map(|j| Def { name: base + j, is_pub: j == 0 || rng.chance(1, 2) }).collect()
}

fn pubs(defs: &[Def]) -> Vec<Id> {
    defs.iter().filter(|d| d.is_pub).map(|d| d.name).collect()
}

/// a random import form for a target whose definitions are `defs`
fn rand_form(rng: &mut Rng, defs: &[Def], alias: Id, mostly_valid: bool) -> Form {
    let p = pubs(defs);
    match rng.below(20) {
        0..=6 => Form::Module,
        7..=11 => Form::Alias(alias),
        12..=17 if !p.is_empty() => {
            let mut l = vec![*rng.pick(&p)];
            if rng.chance(1, 2) && p.len() > 1 {
                let x = *rng.pick(&p);
                if !l.contains(&x) {
                    l.push(x);
                }
            }
            if !mostly_valid && rng.chance(1, 6) {
                // a private or an undefined symbol
                let privs: Vec<Id> = defs.iter().filter(|d| !d.is_pub).map(|d| d.name).collect();
                l.push(if !privs.is_empty() && rng.chance(1, 2) { *rng.pick(&privs) } else { 96 });
            }
            Form::Symbols(l)
        }
        18 => Form::Wildcard,
        _ => Form::Module,
    }
}

fn structured(rng: &mut Rng, out: &mut Vec<Case>) {
    // chains 1..6
    for len in 1..=6u32 {
        let mut b = B::new();
        let mut prev = 0usize;
        for k in 0..len {
            let d = defs_for(rng, k);
            let f = rand_form(rng, &d, 70 + k, true);
            let idx = b.file(vec![10 + k], d);
            b.imp(prev, vec![10 + k], f);
            prev = idx;
        }
        out.push(b.done(&format!("chain{}", len)));
    }
    // diamonds: entry -> a_1..a_w -> shared, each with its own form; entry also imports shared
    for w in 2..=4u32 {
        let mut b = B::new();
        let sd = defs_for(rng, 9);
        let shared = b.file(vec![19], sd.clone());
        let _ = shared;
        for k in 0..w {
            let d = defs_for(rng, k);
            let f = rand_form(rng, &d, 70 + k, true);
            let idx = b.file(vec![10 + k], d);
            b.imp(0, vec![10 + k], f);
            let fs = rand_form(rng, &sd, 75 + k, true);
            b.imp(idx, vec![19], fs);
        }
        if rng.chance(1, 2) {
            b.imp(0, vec![19], Form::Alias(79));
        }
        out.push(b.done(&format!("diamond{}", w)));
    }
    // cycles of length 1..6 behind a tail of length 0..2
    for len in 1..=6u32 {
        for tail in 0..=2u32 {
            let mut b = B::new();
            let mut prev = 0usize;
            let mut k = 0;
            for _ in 0..tail {
                let d = defs_for(rng, k);
                let idx = b.file(vec![10 + k], d.clone());
                let f = rand_form(rng, &d, 70 + k, true);
                b.imp(prev, vec![10 + k], f);
                prev = idx;
                k += 1;
            }
            let first = 10 + k;
            let mut first_defs = Vec::new();
            for c in 0..len {
                let d = defs_for(rng, k);
                if c == 0 {
                    first_defs = d.clone();
                }
                let idx = b.file(vec![10 + k], d.clone());
                let f = rand_form(rng, &d, 70 + k, true);
                b.imp(prev, vec![10 + k], f);
                prev = idx;
                k += 1;
            }
            let f = rand_form(rng, &first_defs, 78, true);
            // sometimes the back edge is not the first import of the last module
            if rng.chance(1, 3) {
                let d = defs_for(rng, 9);
                b.file(vec![19], d.clone());
                b.imp(prev, vec![19], Form::Module);
            }
            b.imp(prev, vec![first], f);
            out.push(b.done(&format!("cycle{}tail{}", len, tail)));
        }
    }
    // nested directories, the same file name in two directories, each imported from its own directory
    {
        let mut b = B::new();
        let ax = b.file(vec![20, 10], defs_for(rng, 0));
        let by = b.file(vec![21, 11], defs_for(rng, 1));
        b.file(vec![20, 12], vec![Def { name: 40, is_pub: true }, Def { name: 41, is_pub: true }]);
        b.file(vec![21, 12], vec![Def { name: 40, is_pub: true }, Def { name: 42, is_pub: true }]);
        b.imp(0, vec![20, 10], Form::Alias(70));
        b.imp(0, vec![21, 11], Form::Alias(71));
        b.imp(ax, vec![12], Form::Module);
        b.imp(by, vec![12], Form::Module);
        out.push(b.done("nested-same-name"));
    }
    // one file reached under two dotted paths
    {
        let mut b = B::new();
        let d = defs_for(rng, 0);
        b.file(vec![20, 10], d);
        let y = b.file(vec![20, 11], defs_for(rng, 1));
        b.imp(0, vec![20, 10], Form::Alias(70));
        b.imp(0, vec![20, 11], Form::Alias(71));
        b.imp(y, vec![10], Form::Module);
        out.push(b.done("two-paths-one-file"));
    }
    // nested, no repeated names: a/x imports a/sub/z
    {
        let mut b = B::new();
        let x = b.file(vec![20, 10], defs_for(rng, 0));
        let dz = defs_for(rng, 1);
        b.file(vec![20, 22, 11], dz.clone());
        let f = rand_form(rng, &dz, 71, true);
        b.imp(0, vec![20, 10], Form::Module);
        b.imp(x, vec![22, 11], f);
        out.push(b.done("nested-clean"));
    }
    // a nested module importing a file that only exists next to the entry (second lookup place),
    // the entry importing the same file; then the same with a file of that name next to the module
    for shadow in 0..2 {
        let mut b = B::new();
        let dcfg = defs_for(rng, 0);
        b.file(vec![11], dcfg.clone());
        let r = b.file(vec![20, 10], defs_for(rng, 1));
        if shadow == 1 {
            b.file(vec![20, 11], defs_for(rng, 2));
        }
        b.imp(0, vec![11], Form::Alias(70));
        b.imp(0, vec![20, 10], Form::Alias(71));
        let f = rand_form(rng, &dcfg, 72, true);
        b.imp(r, vec![11], if shadow == 1 { Form::Module } else { f });
        out.push(b.done(&format!("entry-dir-lookup{}", shadow)));
    }
    // the same file name next to the entry AND in a module directory: an importer in a directory WITHOUT that file
    // reaches the entry's (second lookup place), an importer in the directory WITH it reaches its own -- whichever
    // of the two is loaded first (a resolution remembered per spelling, not per importing directory, gets it wrong
    // in one order only).  layout 1: the entry imports its own copy too; 2: a third directory falls back again
    // after the shadowing one; 3: the shadowing directory lies below the one that falls back
    for layout in 0..4 {
        for order in 0..2 {
            let mut b = B::new();
            let d_entry = defs_for(rng, 0);
            let d_own = defs_for(rng, 1);
            b.file(vec![11], d_entry.clone());
            let (dir_a, dir_b): (Vec<Id>, Vec<Id>) = if layout == 3 { (vec![20], vec![20, 22]) } else { (vec![20], vec![21]) };
            let mut pa = dir_a.clone();
            pa.push(10);
            let r = b.file(pa.clone(), defs_for(rng, 2));
            let mut pc = dir_b.clone();
            pc.push(11);
            b.file(pc, d_own.clone());
            let mut px = dir_b.clone();
            px.push(12);
            let x = b.file(px.clone(), defs_for(rng, 3));
            let fa = rand_form(rng, &d_entry, 72, true);
            b.imp(r, vec![11], fa);
            let fb = rand_form(rng, &d_own, 73, true);
            b.imp(x, vec![11], fb);
            if layout == 1 {
                b.imp(0, vec![11], Form::Alias(74));
            }
            let mut firsts = vec![(pa, 70), (px, 71)];
            if order == 1 {
                firsts.reverse();
            }
            for (p, a) in firsts {
                b.imp(0, p, Form::Alias(a));
            }
            if layout == 2 {
                let y = b.file(vec![23, 13], defs_for(rng, 4));
                let fc = rand_form(rng, &d_entry, 75, true);
                b.imp(y, vec![11], fc);
                b.imp(0, vec![23, 13], Form::Alias(76));
            }
            out.push(b.done(&format!("same-name-two-dirs{}-{}", layout, order)));
        }
    }
    // two or three modules with a private (and a pub) top-level variable of the SAME name and different values, read
    // back by the entry through each module's own function; the entry then assigns to the private name
    for variant in 0..3 {
        let mut b = B::new();
        let nmods = if variant == 2 { 3 } else { 2 };
        for k in 0..nmods {
            // n41: same let name in every module; pub in variant 1
            let defs = vec![Def { name: 30 + 4 * k as Id, is_pub: true }, Def { name: 41, is_pub: variant == 1 }];
            b.file(vec![10 + k as Id], defs);
            b.imp(0, vec![10 + k as Id], if k == 0 { Form::Module } else { Form::Alias(70 + k as Id) });
        }
        add_readback(&mut b.files);
        out.push(b.done(&format!("own-state-same-name{}", variant)));
    }
    // one file under every spelling the loader accepts: its name, a symlink to it, through a symlinked
    // directory, through explicit manifest paths written "./x", "d/../x", "d/./y"
    {
        let mut b = B::new();
        let d10 = defs_for(rng, 0);
        let d12 = defs_for(rng, 1);
        b.file(vec![10], d10.clone());
        b.file(vec![20, 12], d12.clone());
        let k = b.file(vec![13], defs_for(rng, 2));
        b.links.push((vec![11], vec![10]));
        b.links.push((vec![21], vec![20]));
        b.hints.push((vec![80], vec![PSeg::Cur, PSeg::Seg(10)]));
        b.hints.push((vec![81], vec![PSeg::Seg(20), PSeg::Up, PSeg::Seg(10)]));
        b.hints.push((vec![82, 83], vec![PSeg::Seg(20), PSeg::Cur, PSeg::Seg(12)]));
        b.imp(0, vec![10], Form::Alias(70));
        b.imp(0, vec![11], Form::Alias(71));
        b.imp(0, vec![20, 12], Form::Alias(72));
        b.imp(0, vec![21, 12], Form::Alias(73));
        b.imp(0, vec![80], Form::Alias(74));
        b.imp(0, vec![81], Form::Alias(75));
        b.imp(0, vec![82, 83], Form::Alias(76));
        b.imp(0, vec![13], Form::Alias(77));
        let f = rand_form(rng, &d10, 78, true);
        b.imp(k, vec![11], f);
        b.imp(k, vec![81], Form::Alias(79));
        out.push(b.done("spellings-one-file"));
    }
    // cycles closed through another spelling of a file already being loaded
    for variant in 0..3 {
        let mut b = B::new();
        let a = b.file(vec![10], defs_for(rng, 0));
        let c = b.file(vec![12], defs_for(rng, 1));
        b.links.push((vec![11], vec![10]));
        b.hints.push((vec![80], vec![PSeg::Cur, PSeg::Seg(10)]));
        b.imp(0, vec![10], Form::Module);
        match variant {
            0 => b.imp(a, vec![11], Form::Alias(70)),            // self-import through a symlink
            1 => { b.imp(a, vec![12], Form::Module); b.imp(c, vec![11], Form::Alias(70)); }
            _ => { b.imp(a, vec![12], Form::Module); b.imp(c, vec![80], Form::Alias(70)); }
        }
        out.push(b.done(&format!("cycle-other-spelling{}", variant)));
    }
    // a symlink inside a directory pointing at a file outside it (rejected: outside the importing
    // module's root), with and without a file of the link's name next to the entry; an explicit
    // manifest path leaving the importing module's directory; a manifest path to a missing file
    for variant in 0..4 {
        let mut b = B::new();
        b.file(vec![10], defs_for(rng, 0));
        let m = b.file(vec![20, 14], defs_for(rng, 1));
        b.imp(0, vec![20, 14], Form::Alias(70));
        match variant {
            0 => { b.links.push((vec![20, 13], vec![10])); b.imp(m, vec![13], Form::Alias(71)); }
            1 => {
                b.links.push((vec![20, 13], vec![10]));
                b.file(vec![13], defs_for(rng, 2));
                b.imp(m, vec![13], Form::Alias(71));
            }
            2 => { b.hints.push((vec![80], vec![PSeg::Up, PSeg::Seg(10)])); b.imp(m, vec![80], Form::Alias(71)); }
            _ => {
                b.hints.push((vec![15], vec![PSeg::Cur, PSeg::Seg(97)]));
                b.file(vec![20, 15], defs_for(rng, 2));
                b.imp(m, vec![15], Form::Alias(71));
            }
        }
        out.push(b.done(&format!("outside-root{}", variant)));
    }
    // a file and a directory with the same name: n20.aelys and n20/n10.aelys
    {
        let mut b = B::new();
        let d1 = defs_for(rng, 0);
        let d2 = defs_for(rng, 1);
        let f = b.file(vec![20], d1.clone());
        b.file(vec![20, 10], d2.clone());
        let f1 = rand_form(rng, &d1, 70, true);
        let f2 = rand_form(rng, &d2, 71, true);
        b.imp(0, vec![20], f1);
        b.imp(0, vec![20, 10], f2);
        b.imp(f, vec![20, 10], Form::Alias(72));
        out.push(b.done("file-and-dir-same-name"));
    }
    // directory module: pkg/mod.aelys importing pkg/helper.aelys
    {
        let mut b = B::new();
        let dm = defs_for(rng, 0);
        let dh = defs_for(rng, 1);
        let m = b.file(vec![20, MODSEG], dm.clone());
        b.file(vec![20, 10], dh.clone());
        let f1 = rand_form(rng, &dm, 70, true);
        let f2 = rand_form(rng, &dh, 71, true);
        b.imp(0, vec![20], f1);
        b.imp(m, vec![10], f2);
        if rng.chance(1, 2) {
            b.imp(0, vec![20, 10], Form::Alias(72));
        }
        out.push(b.done("mod-dir"));
    }
    // same global name in two modules (pub in one, private in the other); a third module re-imports the first
    for variant in 0..2 {
        let mut b = B::new();
        b.file(vec![10], vec![Def { name: 40, is_pub: true }, Def { name: 43, is_pub: true }]);
        b.file(vec![11], vec![Def { name: 40, is_pub: variant == 0 }, Def { name: 45, is_pub: true }]);
        let r = b.file(vec![12], vec![Def { name: 46, is_pub: true }]);
        b.imp(0, vec![10], Form::Alias(70));
        b.imp(0, vec![11], Form::Alias(71));
        b.imp(0, vec![12], Form::Alias(72));
        b.imp(r, vec![10], Form::Alias(73));
        out.push(b.done(&format!("same-global-name{}", variant)));
    }
    // "needs m.sym": symbol through the path fallback; then the same for a private name after m is loaded
    {
        let mut b = B::new();
        b.file(vec![10], vec![Def { name: 40, is_pub: true }, Def { name: 42, is_pub: false }, Def { name: 43, is_pub: false }]);
        b.imp(0, vec![10, 40], Form::Module);
        out.push(b.clone_case("path-symbol"));
        b.imp(0, vec![10, 42], Form::Module);
        out.push(b.clone_case("path-symbol-private-after-load"));
        let mut b2 = B::new();
        b2.file(vec![10], vec![Def { name: 40, is_pub: true }, Def { name: 42, is_pub: false }]);
        b2.imp(0, vec![10, 42], Form::Module);
        out.push(b2.done("path-symbol-private-first"));
    }
    // a cycle whose edges are written "needs mod.symbol"
    {
        let mut b = B::new();
        let a = b.file(vec![10], vec![Def { name: 40, is_pub: true }]);
        let bb = b.file(vec![11], vec![Def { name: 44, is_pub: true }]);
        b.imp(0, vec![10], Form::Module);
        b.imp(a, vec![11, 44], Form::Module);
        b.imp(bb, vec![10, 40], Form::Module);
        out.push(b.done("cycle-through-path-symbols"));
        let mut b = B::new();
        let a = b.file(vec![10], vec![Def { name: 40, is_pub: true }]);
        b.imp(0, vec![10], Form::Module);
        b.imp(a, vec![10, 40], Form::Module);
        out.push(b.done("self-import-path-symbol"));
    }
    // two selected symbols, imported by the entry and by a module
    {
        let mut b = B::new();
        b.file(vec![10], vec![Def { name: 40, is_pub: true }, Def { name: 42, is_pub: true }, Def { name: 44, is_pub: false }]);
        let k = b.file(vec![11], vec![Def { name: 46, is_pub: true }]);
        b.imp(0, vec![11], Form::Module);
        b.imp(0, vec![10], Form::Symbols(vec![40, 42]));
        b.imp(k, vec![10], Form::Symbols(vec![40, 42]));
        out.push(b.done("two-symbols"));
    }
    // errors: missing module, private symbol selected (first load / memo hit), entry conflicts
    {
        let mut b = B::new();
        let a = b.file(vec![10], defs_for(rng, 0));
        b.imp(0, vec![10], Form::Module);
        b.imp(a, vec![MISSING], Form::Module);
        out.push(b.done("missing-module"));
        let mut b = B::new();
        b.file(vec![10], vec![Def { name: 40, is_pub: true }, Def { name: 42, is_pub: false }]);
        b.imp(0, vec![10], Form::Symbols(vec![42]));
        out.push(b.done("private-symbol-first"));
        let mut b = B::new();
        b.file(vec![10], vec![Def { name: 40, is_pub: true }, Def { name: 42, is_pub: false }]);
        b.imp(0, vec![10], Form::Alias(70));
        b.imp(0, vec![10], Form::Symbols(vec![40, 42]));
        out.push(b.done("private-symbol-memo"));
        let mut b = B::new();
        b.file(vec![10], vec![Def { name: 40, is_pub: true }]);
        b.file(vec![11], vec![Def { name: 40, is_pub: true }]);
        b.imp(0, vec![10], Form::Module);
        b.imp(0, vec![11], Form::Module);
        out.push(b.done("entry-conflict"));
        let mut b = B::new();
        b.file(vec![10], vec![Def { name: 40, is_pub: true }]);
        b.imp(0, vec![10], Form::Symbols(vec![40]));
        b.imp(0, vec![10], Form::Module);
        out.push(b.done("entry-same-module-twice"));
        let mut b = B::new();
        b.file(vec![10], vec![Def { name: 40, is_pub: true }]);
        b.imp(0, vec![10], Form::Alias(70));
        b.imp(0, vec![10], Form::Alias(71));
        b.imp(0, vec![STD, 0], Form::Alias(72));
        out.push(b.done("entry-two-aliases-std"));
    }
    // the entry file imported back by a module
    {
        let mut b = B::new();
        let a = b.file(vec![10], defs_for(rng, 0));
        b.imp(0, vec![10], Form::Module);
        b.imp(a, vec![ENTRY], Form::Alias(70));
        out.push(b.done("cycle-through-entry"));
    }
}
impl B {
    fn clone_case(&self, label: &str) -> Case {
        Case { label: label.to_string(), files: self.files.clone(), links: self.links.clone(), hints: self.hints.clone(), entry: vec![ENTRY], probes: Vec::new(), opt: 2, inputs: Vec::new(), sprobes: Vec::new() }
    }
}

/// random tree.  flavour: 0 flat acyclic-ish, 1 flat with back edges, 2 nested with repeated names,
/// 3 shared definition names, 4 malformed (missing modules, bad symbols, path-symbol imports)
fn random_case(rng: &mut Rng, n: usize, maxfiles: u64) -> Case {
    let flavour = match rng.below(20) {
        0..=6 => 0,
        7..=9 => 1,
        10..=14 => 2,
        15..=16 => 3,
        _ => 4,
    };
    let nfiles = 2 + rng.below(maxfiles.saturating_sub(2).max(1)) as usize;
    let respell = flavour != 4 && rng.chance(1, 4);
    let mut b = B::new();
    // directories
    let dirs: Vec<Vec<Id>> = if flavour == 2 {
        vec![vec![], vec![20], vec![21], vec![20, 22]]
    } else if rng.chance(1, 8) {
        vec![vec![], vec![20]]
    } else {
        vec![vec![]]
    };
    let mut used: BTreeSet<Vec<Id>> = BTreeSet::new();
    used.insert(vec![ENTRY]);
    for k in 0..nfiles {
        // nested trees keep some files next to the entry (they are what nested modules reach through
        // the second lookup place)
        let dir = if flavour == 2 && k < 2 { Vec::new() } else { rng.pick(&dirs).clone() };
        // few stems in nested trees so that names repeat across directories
        let stem = if flavour == 2 && k < 2 { 13 + k as Id } else if flavour == 2 { 10 + rng.below(5) as Id } else if k < 10 { 10 + k as Id } else { 100 + k as Id };
        let mut p = dir.clone();
        p.push(stem);
        if flavour == 2 && rng.chance(1, 8) {
            p.push(MODSEG);
        }
        if used.contains(&p) {
            continue;
        }
        used.insert(p.clone());
        let defs = if flavour == 3 {
            let n = 1 + rng.below(3) as u32;
            let mut seen = Vec::new();
            (0..n).filter_map(|_| {
                let name = 40 + rng.below(5) as Id;
                if seen.contains(&name) { None } else { seen.push(name); Some(Def { name, is_pub: rng.chance(2, 3) }) }
            }).collect()
        } else {
            defs_for(rng, k as u32)
        };
        b.file(p, defs);
    }
    let nf = b.files.len();
    // imports: from file i to a file below i's directory
    for i in 0..nf {
        let idir: Vec<Id> = b.files[i].0[..b.files[i].0.len() - 1].to_vec();
        let idir = if b.files[i].0.last() == Some(&MODSEG) { idir } else { idir };
        let cands: Vec<usize> = (1..nf)
            .filter(|&j| j != i && b.files[j].0.len() > idir.len() && b.files[j].0[..idir.len()] == idir[..])
            .collect();
        let want = if i == 0 { 1 + rng.below(3) } else { rng.below(3) };
        for _ in 0..want {
            if cands.is_empty() {
                break;
            }
            let mut j = *rng.pick(&cands);
            // acyclic flavours import "forward" only
            if (flavour == 0 || flavour == 3) && j <= i {
                let fwd: Vec<usize> = cands.iter().cloned().filter(|&x| x > i).collect();
                if fwd.is_empty() {
                    continue;
                }
                j = *rng.pick(&fwd);
            }
            if flavour != 1 && flavour != 4 && flavour != 2 && j <= i {
                continue;
            }
            if flavour == 2 && j <= i && !rng.chance(1, 4) {
                continue;
            }
            if flavour == 2 && !idir.is_empty() && rng.chance(1, 2) {
                // a file next to the entry, written as seen from the entry's directory
                let roots: Vec<usize> = (1..nf).filter(|&x| b.files[x].0.len() == 1 && x != i).collect();
                if !roots.is_empty() {
                    let x = *rng.pick(&roots);
                    let tdefs = b.files[x].1.defs.clone();
                    let alias = 70 + rng.below(6) as Id;
                    let form = rand_form(rng, &tdefs, alias, true);
                    let path = b.files[x].0.clone();
                    b.imp(i, path, form);
                    continue;
                }
            }
            let mut rel: Vec<Id> = b.files[j].0[idir.len()..].to_vec();
            if rel.last() == Some(&MODSEG) {
                rel.pop();
            }
            if rel.is_empty() {
                continue;
            }
            let tdefs = b.files[j].1.defs.clone();
            let alias = 70 + rng.below(6) as Id;
            let mut form = rand_form(rng, &tdefs, alias, flavour != 4);
            let mut path = rel;
            if flavour == 4 {
                match rng.below(10) {
                    0 => path = vec![MISSING],
                    1 | 2 if !tdefs.is_empty() => {
                        // needs mod.symbol
                        path.push(rng.pick(&tdefs).name);
                        form = Form::Module;
                    }
                    3 => {
                        path.push(96);
                        form = Form::Module;
                    }
                    _ => {}
                }
            }
            b.imp(i, path, form);
        }
        if rng.chance(1, 12) {
            b.imp(i, vec![STD, rng.below(4) as Id], Form::Alias(76 + rng.below(2) as Id));
        }
    }
    if flavour == 2 && nf > 2 && rng.chance(1, 3) {
        // one name next to the entry and in a module directory, imported by that name from a directory without it
        // (second lookup place) and from the directory with it, loaded in either order
        let s = 13 + rng.below(2) as Id;
        let has = |b: &B, p: &[Id]| b.files.iter().any(|(q, _)| q.as_slice() == p || (q.len() == p.len() + 1 && q[..p.len()] == *p && q.last() == Some(&MODSEG)));
        if has(&b, &[s]) && !has(&b, &[20, s]) {
            if !has(&b, &[21, s]) {
                let k = b.files.len() as u32;
                b.file(vec![21, s], defs_for(rng, k));
            }
            let t = 10 + rng.below(3) as Id;
            if !has(&b, &[20, t]) {
                let k = b.files.len() as u32;
                b.file(vec![20, t], defs_for(rng, k));
            }
            if !has(&b, &[21, t]) {
                let k = b.files.len() as u32;
                b.file(vec![21, t], defs_for(rng, k));
            }
            let find = |b: &B, p: &[Id]| b.files.iter().position(|(q, _)| q.as_slice() == p);
            if let (Some(ia), Some(ib), Some(ie), Some(io)) = (find(&b, &[20, t]), find(&b, &[21, t]), find(&b, &[s]), find(&b, &[21, s])) {
                let de = b.files[ie].1.defs.clone();
                let d_own = b.files[io].1.defs.clone();
                let fa = rand_form(rng, &de, 77, true);
                b.imp(ia, vec![s], fa);
                let fb = rand_form(rng, &d_own, 78, true);
                b.imp(ib, vec![s], fb);
                let mut two = vec![(vec![20, t], 78), (vec![21, t], 79)];
                if rng.chance(1, 2) {
                    two.reverse();
                }
                for (p, a) in two {
                    b.imp(0, p, Form::Alias(a));
                }
            }
        }
    }
    if flavour == 2 && rng.chance(1, 3) {
        // a symlink inside a module's directory to a file outside it: not importable from there
        let nested: Vec<usize> = (1..nf).filter(|&x| b.files[x].0.len() > 1 && b.files[x].0.last() != Some(&MODSEG)).collect();
        let roots: Vec<usize> = (1..nf).filter(|&x| b.files[x].0.len() == 1).collect();
        if !nested.is_empty() && !roots.is_empty() {
            let i = *rng.pick(&nested);
            let tgt = b.files[*rng.pick(&roots)].0.clone();
            let mut src: Vec<Id> = b.files[i].0[..b.files[i].0.len() - 1].to_vec();
            src.push(399);
            b.links.push((src, tgt));
            b.imp(i, vec![399], Form::Alias(79));
        }
    }
    if respell && rng.chance(1, 4) {
        // a manifest path to a file that does not exist, for a module that does: the search takes over
        let singles: Vec<Vec<Id>> = b.files.iter().skip(1).filter(|(p, _)| p.len() == 1).map(|(p, _)| p.clone()).collect();
        if !singles.is_empty() {
            let name = rng.pick(&singles).clone();
            b.hints.push((name, vec![PSeg::Cur, PSeg::Seg(97)]));
        }
    }
    if respell {
        // give some imports another spelling of the same file: a symlink to the file, a symlinked
        // directory on the way, or an explicit manifest path
        let mut next_link: Id = 700;
        let mut next_hint: Id = 300;
        for i in 0..nf {
            let idir: Vec<Id> = b.files[i].0[..b.files[i].0.len() - 1].to_vec();
            for k in 0..b.files[i].1.imports.len() {
                let imp = b.files[i].1.imports[k].clone();
                if imp.path.first() == Some(&STD) || imp.path.contains(&MISSING) || !rng.chance(1, 2) {
                    continue;
                }
                let mut full = idir.clone();
                full.extend(imp.path.iter().cloned());
                let is_file = b.files.iter().any(|(p, _)| *p == full);
                if !is_file {
                    continue; // mod.aelys, path-symbol or entry-directory lookups keep their spelling
                }
                match rng.below(4) {
                    0 => {
                        // symlink next to the importing file
                        let mut src = idir.clone();
                        src.push(next_link);
                        b.links.push((src, full.clone()));
                        b.files[i].1.imports[k].path = vec![next_link];
                        next_link += 1;
                    }
                    1 if imp.path.len() > 1 => {
                        // symlinked first directory
                        let mut src = idir.clone();
                        src.push(next_link);
                        let mut tgt = idir.clone();
                        tgt.push(imp.path[0]);
                        b.links.push((src, tgt));
                        let mut np = vec![next_link];
                        np.extend(imp.path[1..].iter().cloned());
                        b.files[i].1.imports[k].path = np;
                        next_link += 1;
                    }
                    _ => {
                        // explicit manifest path, relative to the importing file's directory
                        let mut ex: Vec<PSeg> = Vec::new();
                        if rng.chance(1, 2) {
                            ex.push(PSeg::Cur);
                        }
                        for (j, seg) in imp.path.iter().enumerate() {
                            ex.push(PSeg::Seg(*seg));
                            if j + 1 < imp.path.len() && rng.chance(1, 3) {
                                ex.push(PSeg::Up);
                                ex.push(PSeg::Seg(*seg));
                            }
                            if j + 1 < imp.path.len() && rng.chance(1, 4) {
                                ex.push(PSeg::Cur);
                            }
                        }
                        b.hints.push((vec![next_hint], ex));
                        b.files[i].1.imports[k].path = vec![next_hint];
                        next_hint += 1;
                    }
                }
            }
        }
    }
    if flavour == 4 && nf > 1 && rng.chance(1, 3) {
        // a module that does not compile / whose top level raises after its first statement
        let i = 1 + rng.below((nf - 1) as u64) as usize;
        b.files[i].1.fault = 1 + rng.below(2) as u8;
    }
    if flavour == 3 || ((flavour == 0 || flavour == 2) && rng.chance(1, 4)) {
        add_readback(&mut b.files);
    }
    b.done(&format!("random{}-f{}{}", n, flavour, if respell { "s" } else { "" }))
}

/// probes: for every import of every file, the names defined by files whose stem matches one of the
/// last two path segments, spelled bare and qualified by the last segment / the alias / the segment
/// before the last / a qualifier that is no alias at all
/// turn a tree into a REPL session: the entry's imports are spread over 2-4 inputs and later inputs
/// import again, under another form, modules that earlier inputs already loaded
fn session_from(rng: &mut Rng, mut c: Case, n: usize) -> Case {
    let entry_imports: Vec<Import> = c.files[0].1.imports.clone();
    c.files.remove(0);
    if rng.chance(3, 4) {
        // mutable pub state: the counter first (the function below names it)
        for (i, (_, m)) in c.files.iter_mut().enumerate() {
            if m.fault == 0 {
                m.defs.push(Def { name: STATE0 + 2 * i as Id + 1, is_pub: true });
                m.defs.push(Def { name: STATE0 + 2 * i as Id, is_pub: true });
            }
        }
    }
    let k = 2 + rng.below(3) as usize;
    let mut inputs: Vec<Module> = (0..k).map(|_| Module::default()).collect();
    for (j, imp) in entry_imports.iter().enumerate() {
        let at = if j < k { j } else { rng.below(k as u64) as usize };
        inputs[at].imports.push(imp.clone());
    }
    for at in 1..k {
        let earlier: Vec<Import> = inputs[..at].iter().flat_map(|m| m.imports.iter().cloned()).collect();
        let extra = rng.below(3);
        for _ in 0..extra {
            if earlier.is_empty() {
                break;
            }
            let mut imp = rng.pick(&earlier).clone();
            if imp.path.first() == Some(&STD) {
                continue;
            }
            // the file this path means, as seen from the root directory, to pick a sensible form
            let defs = c.files.iter().find(|(p, _)| *p == imp.path).map(|(_, m)| m.defs.clone()).unwrap_or_default();
            let al = 73 + rng.below(6) as Id;
            imp.form = match rand_form(rng, &defs, al, true) {
                Form::Module => Form::Alias(73 + at as Id), // a second whole-module import would be a SymbolConflict only within one input; across inputs it is fine, keep some
                f => f,
            };
            if rng.chance(1, 3) {
                imp.form = Form::Module;
            }
            inputs[at].imports.push(imp);
        }
    }
    // failing inputs BETWEEN an import and a re-import: a missing module, a module that does not
    // compile, a module whose top level raises, and a module that imports a good (so far unloaded or
    // loaded) module and then fails -- followed by another import of what was loaded before
    if rng.chance(3, 4) {
        let loaded_before: Vec<Import> = inputs[0].imports.iter().filter(|i| i.path.first() != Some(&STD)).cloned().collect();
        let at = 1 + rng.below(inputs.len() as u64) as usize;     // position of the failing input (1..=k)
        let mut bad = Module::default();
        let kind = rng.below(7);
        match kind {
            5 | 6 => {
                // everything loads (modules seen before and new ones), then the input itself is rejected
                for i in entry_imports.iter().rev().take(2) {
                    if i.path.first() != Some(&STD) {
                        bad.imports.push(Import { path: i.path.clone(), form: Form::Alias(77) });
                    }
                }
                if let Some((p, _)) = c.files.iter().find(|(p, m)| p.len() == 1 && m.fault == 0 && !entry_imports.iter().any(|i| i.path == **p)) {
                    bad.imports.push(Import { path: p.clone(), form: Form::Alias(76) });
                }
                bad.fault = 1;
            }
            0 => bad.imports.push(Import { path: vec![MISSING], form: Form::Module }),
            1 => {
                c.files.push((vec![120], Module { imports: Vec::new(), defs: vec![Def { name: 300, is_pub: true }], fault: 1 }));
                bad.imports.push(Import { path: vec![120], form: Form::Alias(78) });
            }
            2 => {
                c.files.push((vec![121], Module { imports: Vec::new(), defs: vec![Def { name: 302, is_pub: true }], fault: 2 }));
                bad.imports.push(Import { path: vec![121], form: Form::Module });
            }
            3 => {
                // a wrapper that imports good modules and then something missing: the good ones finish
                // inside the failing input
                let mut w = Module { imports: Vec::new(), defs: vec![Def { name: 304, is_pub: true }], fault: 0 };
                for i in entry_imports.iter().take(2) {
                    if i.path.first() != Some(&STD) {
                        w.imports.push(Import { path: i.path.clone(), form: Form::Alias(77) });
                    }
                }
                // one module nobody imported yet, when there is one at the root
                if let Some((p, _)) = c.files.iter().find(|(p, m)| p.len() == 1 && m.fault == 0 && !entry_imports.iter().any(|i| i.path == **p)) {
                    w.imports.push(Import { path: p.clone(), form: Form::Alias(76) });
                }
                w.imports.push(Import { path: vec![MISSING], form: Form::Module });
                c.files.push((vec![122], w));
                bad.imports.push(Import { path: vec![122], form: Form::Module });
            }
            _ => {
                // good imports first, then the failing one, in ONE input
                for i in entry_imports.iter().rev().take(2) {
                    if i.path.first() != Some(&STD) {
                        bad.imports.push(Import { path: i.path.clone(), form: Form::Alias(77) });
                    }
                }
                bad.imports.push(Import { path: vec![MISSING], form: Form::Alias(78) });
            }
        }
        let at = at.min(inputs.len());
        // what the failing input itself loaded is imported again afterwards as well
        let loaded_by_bad: Vec<Vec<Id>> = bad.imports.iter().map(|i| i.path.clone())
            .filter(|p| c.files.iter().any(|(q, m)| q == p && m.fault == 0 && q.len() == 1 && ![120, 121, 122].contains(&q[0]))).collect();
        inputs.insert(at, bad);
        // ... and afterwards import again (same spelling, and as an alias) what was loaded before it
        let mut again = Module::default();
        for (j, i) in loaded_before.iter().take(2).enumerate() {
            again.imports.push(i.clone());
            again.imports.push(Import { path: i.path.clone(), form: Form::Alias(75) });
            // ... and under a different spelling of the same file: a symlink to it, an explicit manifest path, `mod.symbol`
            let target = c.files.iter().find(|(p, m)| *p == i.path && m.fault == 0).map(|(_, m)| m.clone());
            if let (1, Some(tm)) = (i.path.len(), target) {
                let al = if j == 0 { 74 } else { 79 };
                match rng.below(4) {
                    0 => {
                        c.links.push((vec![130 + j as Id], i.path.clone()));
                        again.imports.push(Import { path: vec![130 + j as Id], form: Form::Alias(al) });
                    }
                    1 => {
                        c.hints.push((vec![132 + j as Id], vec![PSeg::Cur, PSeg::Seg(i.path[0])]));
                        again.imports.push(Import { path: vec![132 + j as Id], form: Form::Alias(al) });
                    }
                    2 => {
                        if let Some(d) = tm.defs.iter().find(|d| d.is_pub) {
                            again.imports.push(Import { path: vec![i.path[0], d.name], form: Form::Module });
                        }
                    }
                    _ => {}
                }
            }
        }
        for p in loaded_by_bad.iter().take(2) {
            if !again.imports.iter().any(|i| i.path == *p) {
                again.imports.push(Import { path: p.clone(), form: Form::Alias(73) });
            }
        }
        if kind == 2 && rng.chance(1, 2) {
            again.imports.push(Import { path: vec![121], form: Form::Alias(74) }); // the raising module once more
        }
        inputs.insert((at + 1).min(inputs.len()), again);
    }
    let k = inputs.len();
    // probes: every spelling of every definition that any input could name
    let mut all: BTreeSet<(usize, Sp)> = BTreeSet::new();
    for at in 0..k {
        for imp in inputs[..=at].iter().flat_map(|m| m.imports.iter()) {
            if imp.path.first() == Some(&STD) || imp.path.is_empty() {
                continue;
            }
            let last = *imp.path.last().unwrap();
            let mut quals = vec![last, BOGUS];
            if let Form::Alias(a) = &imp.form {
                quals.push(*a);
            }
            for (_, tm) in &c.files {
                for d in tm.defs.iter().filter(|d| d.name < STATE0) {
                    all.insert((at, Sp::Bare(d.name)));
                    for &q in &quals {
                        all.insert((at, Sp::Qual(q, d.name)));
                    }
                }
            }
        }
    }
    let mut v: Vec<(usize, Sp)> = all.into_iter().collect();
    for i in (1..v.len()).rev() {
        let j = rng.below(i as u64 + 1) as usize;
        v.swap(i, j);
    }
    v.truncate(10);
    v.sort();
    c.label = format!("session{}-{}", n, c.label);
    c.inputs = inputs;
    c.sprobes = v;
    c.probes.clear();
    c
}

fn auto_probes(c: &mut Case, rng: &mut Rng, max: usize) {
    let mut all: BTreeSet<(Vec<Id>, Sp)> = BTreeSet::new();
    for (fp, m) in &c.files {
        for i in &m.imports {
            if i.path.first() == Some(&STD) || i.path.is_empty() {
                continue;
            }
            let last = *i.path.last().unwrap();
            let prev = if i.path.len() > 1 { Some(i.path[i.path.len() - 2]) } else { None };
            let mut quals = vec![last, BOGUS];
            if let Form::Alias(a) = &i.form {
                quals.push(*a);
            }
            if let Some(p) = prev {
                quals.push(p);
            }
            let mut names: Vec<Id> = Vec::new();
            if !c.links.is_empty() || !c.hints.is_empty() {
                for (_, tm) in &c.files {
                    names.extend(tm.defs.iter().map(|d| d.name));
                }
            }
            for (tp, tm) in &c.files {
                let stem = if tp.last() == Some(&MODSEG) && tp.len() > 1 { tp[tp.len() - 2] } else { *tp.last().unwrap() };
                if stem == last || Some(stem) == prev {
                    names.extend(tm.defs.iter().map(|d| d.name));
                }
            }
            names.push(last);
            if let Form::Symbols(l) = &i.form {
                names.extend(l.iter().cloned());
            }
            names.sort();
            names.dedup();
            for &n in &names {
                if n < 30 || n >= STATE0 {
                    continue;
                }
                all.insert((fp.clone(), Sp::Bare(n)));
                for &q in &quals {
                    all.insert((fp.clone(), Sp::Qual(q, n)));
                }
            }
        }
    }
    let mut v: Vec<(Vec<Id>, Sp)> = all.into_iter().collect();
    // seeded shuffle, then keep `max`
    for i in (1..v.len()).rev() {
        let j = rng.below(i as u64 + 1) as usize;
        v.swap(i, j);
    }
    v.truncate(max);
    v.sort();
    c.probes = v;
}

#[cfg(vbxq_aelys_lang_verif)]
fn main() {
    quiet_panics();
    let seed = arg_u64("--seed", 0);
    let nrandom = arg_u64("--gen", 0) as usize;
    let maxp = arg_u64("--probes", 14) as usize;
    let maxfiles = arg_u64("--maxfiles", 8);
    let mut cases: Vec<Case> = Vec::new();
    if let Some(f) = arg("--file") {
        let text = std::fs::read_to_string(&f).expect("read corpus file");
        for chunk in text.split("\n====") {
            let body: String = chunk.lines().filter(|l| !l.trim_start().starts_with('#')).collect::<Vec<_>>().join("\n");
            if body.trim().is_empty() {
                continue;
            }
            match parse_case(&body) {
                Some(mut c) => {
                    if c.probes.is_empty() {
                        let mut r = Rng::new(seed);
                        auto_probes(&mut c, &mut r, 64);
                    }
                    cases.push(c)
                }
                None => {
                    eprintln!("unparsable case in {}", f);
                    std::process::exit(3);
                }
            }
        }
    } else {
        let mut rng = Rng::new(seed);
        let mut st = Vec::new();
        structured(&mut rng, &mut st);
        let deep = arg_u64("--deep", 0) as u32;
        if deep > 0 {
            // a chain and a cycle behind a chain this deep: recursion depth of the real loader
            for cyc in 0..2 {
                let mut b = B::new();
                let mut prev = 0usize;
                for k in 0..deep {
                    let idx = b.file(vec![1000 + k], vec![Def { name: 30 + 2 * (k % 10), is_pub: true }]);
                    b.imp(prev, vec![1000 + k], if k % 3 == 0 { Form::Alias(70) } else { Form::Module });
                    prev = idx;
                }
                if cyc == 1 {
                    b.imp(prev, vec![1000 + deep / 2], Form::Alias(71));
                }
                st.push(b.done(&format!("deep{}-{}", deep, cyc)));
            }
        }
        for mut c in st {
            auto_probes(&mut c, &mut rng, maxp.max(24));
            cases.push(c);
        }
        for n in 0..nrandom {
            let mut c = random_case(&mut rng, n, maxfiles);
            c.opt = (n % 4) as u32;
            auto_probes(&mut c, &mut rng, maxp);
            cases.push(c);
        }
        let nsessions = arg_u64("--sessions", (nrandom / 6) as u64) as usize;
        for n in 0..nsessions {
            let c = random_case(&mut rng, 100_000 + n, maxfiles);
            if c.label.ends_with("f4") || c.files[0].1.imports.is_empty() {
                continue;
            }
            cases.push(session_from(&mut rng, c, n));
        }
    }
    let (sessions, cases): (Vec<Case>, Vec<Case>) = cases.into_iter().partition(|c| !c.inputs.is_empty());
    // cases are independent (own directory, own VM, thread-local hooks): run them on worker threads,
    // print in case order
    let nthreads = arg_u64("--threads", 8).max(1) as usize;
    let cases = std::sync::Arc::new(cases);
    let next = std::sync::Arc::new(std::sync::atomic::AtomicUsize::new(0));
    let results: std::sync::Arc<std::sync::Mutex<Vec<Option<String>>>> =
        std::sync::Arc::new(std::sync::Mutex::new(vec![None; cases.len()]));
    let mut handles = Vec::new();
    for _ in 0..nthreads {
        let cases = cases.clone();
        let next = next.clone();
        let results = results.clone();
        handles.push(
            std::thread::Builder::new()
                .stack_size(256 << 20)
                .spawn(move || loop {
                    let n = next.fetch_add(1, std::sync::atomic::Ordering::SeqCst);
                    if n >= cases.len() {
                        break;
                    }
                    let c = &cases[n];
                    let o = observe(c, n);
                    let raw = format!(
                        "code={};trace={};probes={};reads={};write={};detail={}",
                        o.code,
                        o.trace.join(","),
                        o.probes.iter().map(|v| v.join("|")).collect::<Vec<_>>().join(","),
                        o.reads.join(","),
                        o.write.as_ref().map(|(c, r)| format!("{}/{}", c, r.join(","))).unwrap_or_default(),
                        // up to the first quoted name: which of several conflicting symbols is named
                        // depends on HashMap iteration order
                        hxlib::runner::esc(o.detail.split('\'').next().unwrap_or("")).replace(';', ",")
                    );
                    let line = format!("{}\t{}\t{}\t{}", coq_query(c), coq_obs(&o), text_of(c), raw);
                    results.lock().unwrap()[n] = Some(line);
                })
                .unwrap(),
        );
    }
    for h in handles {
        h.join().unwrap();
    }
    for line in results.lock().unwrap().iter() {
        println!("{}", line.as_ref().expect("case not run"));
    }
    // REPL sessions change the working directory: one at a time, on a big stack
    let h = std::thread::Builder::new()
        .stack_size(256 << 20)
        .spawn(move || {
            for (n, c) in sessions.iter().enumerate() {
                let o = observe_session(c, n);
                let raw = format!(
                    "inputs={};bumps={};probes={}",
                    o.inputs.iter().map(|(code, tr)| format!("{}:{}", code, tr.join(","))).collect::<Vec<_>>().join("#"),
                    o.bumps.iter().map(|v| v.join(",")).collect::<Vec<_>>().join("#"),
                    o.probes.iter().map(|v| v.join("|")).collect::<Vec<_>>().join(",")
                );
                println!("{}\t{}\t{}\t{}", coq_squery(c), coq_sobs(&o), text_of(c), raw);
            }
        })
        .unwrap();
    h.join().unwrap();
}

#[cfg(not(vbxq_aelys_lang_verif))]
fn main() {
    eprintln!("built without hooks");
    std::process::exit(2);
}
