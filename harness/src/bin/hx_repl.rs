//! C14 tie: generated REPL sessions (inputs and host calls on one VM) against a reference
//! interpreter of the session, plus the operation trace for the Coq model of the two views of
//! the globals (Model/GlobalsSync.v).
//!
//! `--session FILE [--opt N]`: replay a hand-written session.  Steps are separated by a line
//! `=====`; a step `@call NAME ARG` / `@cached NAME ARG` is a host call (aelys_driver::
//! call_function / get_function + call), `@frames` prints the frame-stack depth, anything else is
//! a REPL input (`@callx` / `@cachedx`: the host call passes one argument too many).  One line per step: index, class, escaped output, value, frames left, detail.
//!
//! `--seed S --n N`: generated sessions, one line per session:
//!   CASE \t seed \t <Coq term: list op> \t <observed model observations> \t <real steps> \t <oracle steps> \t <escaped source>
#[cfg(vbxq_aelys_lang_verif)]
mod imp {
    use aelys_bytecode::object::ObjectKind;
    use aelys_bytecode::{Function, GcRef};
    use aelys_runtime::{VM, Value};
    use hxlib::runner::*;
    use hxlib::*;
    use std::collections::{HashMap, HashSet};

    // ------------------------------------------------------------------ running steps
    pub struct StepOut { pub class: String, pub output: String, pub value: String, pub detail: String, pub frames: usize }

    pub fn host_call(vm: &mut VM, name: &str, arg: i64, cached: bool) -> StepOut { host_call_n(vm, name, arg, cached, false) }
    /// extra: pass one argument too many (the callee's arity check must reject the call and change nothing)
    pub fn host_call_n(vm: &mut VM, name: &str, arg: i64, cached: bool, extra: bool) -> StepOut {
        use aelys_runtime::verif;
        verif::sink_install();
        verif::budget_set(2_000_000);
        let r = guarded(std::panic::AssertUnwindSafe(|| {
            let v = if cached {
                let f = aelys_driver::get_function(vm, name)?;
                if extra { f.call(vm, &[Value::int(arg), Value::int(1)])? } else { f.call(vm, &[Value::int(arg)])? }
            } else if extra {
                aelys_driver::call_function(vm, name, &[Value::int(arg), Value::int(1)])?
            } else {
                aelys_driver::call_function(vm, name, &[Value::int(arg)])?
            };
            let s = vm.value_to_string(v);
            Ok((v, s))
        }));
        let out = verif::sink_take();
        verif::budget_set(u64::MAX);
        let o = classify(r, out);
        StepOut { class: o.class, output: o.output, value: o.value, detail: o.detail, frames: vm.verif_frames_len() }
    }
    /// a call through a handle the host took earlier
    pub fn held_call(vm: &mut VM, h: Option<&aelys_driver::CallableFunction>, arg: i64) -> StepOut {
        use aelys_runtime::verif;
        let h = match h { Some(h) => h.clone(), None => return StepOut { class: "runtime:NotCallable".into(), output: String::new(), value: String::new(), detail: "no handle".into(), frames: vm.verif_frames_len() } };
        verif::sink_install();
        verif::budget_set(2_000_000);
        let r = guarded(std::panic::AssertUnwindSafe(|| { let v = h.call(vm, &[Value::int(arg)])?; let s = vm.value_to_string(v); Ok((v, s)) }));
        let out = verif::sink_take();
        verif::budget_set(u64::MAX);
        let o = classify(r, out);
        StepOut { class: o.class, output: o.output, value: o.value, detail: o.detail, frames: vm.verif_frames_len() }
    }
    pub fn repl_input(vm: &mut VM, src: &str, opt: u32) -> StepOut {
        let o = run_on_vm(vm, src, opt, 2_000_000);
        StepOut { class: o.class, output: o.output, value: o.value, detail: o.detail, frames: vm.verif_frames_len() }
    }

    // ------------------------------------------------------------------ generated language + oracle
    #[derive(Clone, Debug, PartialEq)]
    pub enum Val { Int(i64), Str(String) }
    impl Val { pub fn show(&self) -> String { match self { Val::Int(n) => n.to_string(), Val::Str(s) => s.clone() } } }

    /// every call of the generated function NAME passes this argument (the session model's function bodies are
    /// closed terms: Model/Session.v has no integer parameters)
    pub fn arg_of(name: &str) -> i64 {
        let n: i64 = name.chars().filter(|c| c.is_ascii_digit()).collect::<String>().parse().unwrap_or(0);
        (n * 7 + 3) % 10
    }
    #[derive(Clone, Debug, PartialEq)]
    pub enum FnKind { AddK(i64), ReadG(String), BumpG(String), Boom, CallF(String, i64), Apply,
                      /// mutates a global and ends without `return` (the call's value is null)
                      Bump0(String),
                      /// calls itself until the frame limit is reached
                      Loop,
                      /// a CLOSURE (made by a maker function of its own) that calls a global function
                      Closure(String),
                      /// a closure that calls a global function and THEN mutates a global of its own layout
                      ClosureBump(String, String) }
    #[derive(Clone, Debug, PartialEq)]
    /// home: the name the function was declared under (every call passes arg_of(home), also through a variable that holds it)
    pub struct FnDef { pub home: String, pub tag: String, pub kind: FnKind,
                       /// written as a top-level lambda in a variable (`let mut NAME = fn(x) { .. }`) instead of `fn NAME(x) { .. }`
                       pub lambda: bool }

    /// what a host call of a name bound by Script statements returns for the argument n
    #[derive(Clone, Debug, PartialEq)]
    pub enum ScriptFn { Add(i64), Mul(i64), Const(String), Str }
    impl ScriptFn { pub fn apply(&self, n: i64) -> String { match self { ScriptFn::Add(k) => (n + k).to_string(), ScriptFn::Mul(k) => (n * k).to_string(), ScriptFn::Const(s) => s.clone(), ScriptFn::Str => n.to_string() } } }
    #[derive(Clone, Debug, PartialEq)]
    pub enum Stmt {
        Let { name: String, mutable: bool, val: Val },
        SetLit { name: String, val: i64 },
        AddTo { name: String, k: i64 },
        Def { name: String, def: FnDef },
        /// `let mut h = f` (fresh) / `h = f`: a variable holds the function value f denotes right now
        CopyFn { dst: String, src: String, fresh: bool },
        /// an expression statement that touches no global (`1 + 1`): the input's unit has the empty layout
        Quiet,
        /// source text outside the modelled fragment with the output it must print (closures over locals, ...)
        /// bind: the statement (re)binds this global to a callable with this behaviour
        Script { text: String, out: String, bind: Option<(String, ScriptFn)> },
        PrintVar { name: String },
        PrintCall { f: String, arg: i64 },
        PrintApply { a: String, f: String, arg: i64 },   // println(a(f, arg)): a takes a function value and has no globals
        PrintLit { text: String },
        Raw { text: String },                 // compile-time rejected text
        /// fails: the import cannot be loaded (no such module / a module that does not compile)
        Needs { text: String, module: Option<(usize, u8, String)>, fails: bool },   // an import statement; user modules: (index, form, alias)
        /// bump: Some(module) -- a call of the module's stateful function (prints the module's counter after incrementing it)
        PrintExpr { text: String, value: i64, global: Option<String>, is_fn: bool, bump: Option<usize> }, // println(<use of an imported name>), prints value
    }
    #[derive(Clone, Debug, PartialEq)]
    pub enum Step {
        Input { stmts: Vec<Stmt>, expect: Expect },
        Host { f: String, arg: i64, cached: bool, extra: bool },
        /// the host binds a global by name: VM::set_global
        HostSet { name: String, val: i64 },
        /// the host takes a handle of a function (aelys_driver::get_function) and keeps it / calls through a kept handle
        Hold { f: String },
        CallHeld { f: String, arg: i64 },
        /// collections at every safepoint from here on (true) / as the VM decides (false)
        Gc(bool),
    }
    #[derive(Clone, Copy, Debug, PartialEq)]
    pub enum Expect { Ok, CompileError, RuntimeError }

    pub fn render_stmt(s: &Stmt) -> String {
        match s {
            Stmt::Let { name, mutable, val } => format!("let {}{} = {}", if *mutable { "mut " } else { "" }, name,
                match val { Val::Int(n) => n.to_string(), Val::Str(t) => format!("\"{}\"", t) }),
            Stmt::SetLit { name, val } => format!("{} = {}", name, val),
            Stmt::AddTo { name, k } => format!("{} = {} + {}", name, name, k),
            Stmt::Def { name, def } => { let pr = if def.tag.is_empty() { String::new() } else { format!("println(\"{}\"); ", def.tag) }; match &def.kind {
                // (an empty tag: a function that prints nothing -- small and pure, what an inliner likes)
                FnKind::AddK(k) if def.lambda => format!("let mut {} = fn(x) {{ {}return x + {} }}", name, pr, k),
                FnKind::ReadG(g) if def.lambda => format!("let mut {} = fn(x) {{ {}return {} + x }}", name, pr, g),
                FnKind::CallF(t, k) if def.lambda => format!("let mut {} = fn(x) {{ {}return {}({}) + {} }}", name, pr, t, arg_of(t), k),
                FnKind::AddK(k) => format!("fn {}(x) {{ {}return x + {} }}", name, pr, k),
                FnKind::ReadG(g) => format!("fn {}(x) {{ {}return {} + x }}", name, pr, g),
                FnKind::BumpG(g) => format!("fn {}(x) {{ {}{} = {} + x; return {} }}", name, pr, g, g, g),
                FnKind::Boom => format!("fn {}(x) {{ {}return x / zero }}", name, pr),
                FnKind::CallF(t, k) => format!("fn {}(x) {{ {}return {}({}) + {} }}", name, pr, t, arg_of(t), k),
                FnKind::Apply => format!("fn {}(cb, x) {{ return cb(x) }}", name),
                FnKind::Bump0(g) => format!("fn {}(x) {{ println(\"{}\"); {} = {} + x; let q = 0 }}", name, def.tag, g, g),
                FnKind::Loop => format!("fn {}(x) {{ return {}({}) + 1 }}", name, name, arg_of(name)),
                FnKind::Closure(t) => format!("fn mk{}(c) {{ return fn(x) {{ println(\"{}\"); return {}({}) + c }} }}\nlet mut {} = mk{}(0)", name, def.tag, t, arg_of(t), name, name),
                FnKind::ClosureBump(t, g) => format!("fn mk{}(c) {{ return fn(x) {{ println(\"{}\"); let r = {}({}); {} = {} + 1; return r + c }} }}\nlet mut {} = mk{}(0)", name, def.tag, t, arg_of(t), g, g, name, name),
            } },
            Stmt::CopyFn { dst, src, fresh } => if *fresh { format!("let mut {} = {}", dst, src) } else { format!("{} = {}", dst, src) },
            Stmt::Quiet => "1 + 1".to_string(),
            Stmt::Script { text, .. } => text.clone(),
            Stmt::PrintVar { name } => format!("println({})", name),
            Stmt::PrintCall { f, arg } => format!("println({}({}))", f, arg),
            Stmt::PrintApply { a, f, arg } => format!("println({}({}, {}))", a, f, arg),
            Stmt::PrintLit { text } => format!("println(\"{}\")", text),
            Stmt::Raw { text } => text.clone(),
            Stmt::Needs { text, .. } => text.clone(),
            Stmt::PrintExpr { text, .. } => format!("println({})", text),
        }
    }
    pub fn render(stmts: &[Stmt]) -> String { stmts.iter().map(render_stmt).collect::<Vec<_>>().join("\n") + "\n" }

    #[derive(Clone)]
    pub struct Oracle { pub vars: HashMap<String, (Val, bool)>, pub fns: HashMap<String, FnDef>, pub imported: HashMap<String, i64>,
                        /// modules whose top level has run in this session, their counters, host-callable names of their bump functions
                        pub loaded: HashSet<usize>, pub modn: HashMap<usize, i64>, pub bump_fns: HashMap<String, usize>,
                        /// closures defined by Script statements that the host may call: name -> what is added to the argument
                        pub script_fns: HashMap<String, ScriptFn> }
    pub struct OStep { pub class: &'static str, pub output: String, pub value: String }
    impl Oracle {
        pub fn new() -> Self { Oracle { vars: HashMap::new(), fns: HashMap::new(), imported: HashMap::new(), loaded: HashSet::new(), modn: HashMap::new(), bump_fns: HashMap::new(), script_fns: HashMap::new() } }
        /// Err(()) = runtime failure (division by zero)
        /// Ok(None): the call's value is null
        fn call(&mut self, f: &str, arg: i64, out: &mut String) -> Result<Option<i64>, ()> {
            let d = self.fns.get(f).cloned().ok_or(())?;
            if !d.tag.is_empty() { out.push_str(&d.tag); out.push('\n'); }
            match d.kind {
                FnKind::AddK(k) => Ok(Some(arg + k)),
                FnKind::ReadG(g) => match self.vars.get(&g) { Some((Val::Int(n), _)) => Ok(Some(n + arg)), _ => Err(()) },
                FnKind::BumpG(g) => match self.vars.get(&g).cloned() {
                    Some((Val::Int(n), m)) => { self.vars.insert(g, (Val::Int(n + arg), m)); Ok(Some(n + arg)) }
                    _ => Err(()) },
                FnKind::Bump0(g) => match self.vars.get(&g).cloned() {
                    Some((Val::Int(n), m)) => { self.vars.insert(g, (Val::Int(n + arg), m)); Ok(None) }
                    _ => Err(()) },
                FnKind::Boom | FnKind::Loop => Err(()),
                FnKind::CallF(t, k) => match self.call(&t, arg_of(&t), out)? { Some(v) => Ok(Some(v + k)), None => Err(()) },
                FnKind::Closure(t) => match self.call(&t, arg_of(&t), out)? { Some(v) => Ok(Some(v)), None => Err(()) },
                FnKind::ClosureBump(t, g) => match self.call(&t, arg_of(&t), out)? {
                    Some(v) => match self.vars.get(&g).cloned() { Some((Val::Int(n), m)) => { self.vars.insert(g, (Val::Int(n + 1), m)); Ok(Some(v)) } _ => Err(()) },
                    None => Err(()) },
                FnKind::Apply => Err(()),
            }
        }
        pub fn input(&mut self, stmts: &[Stmt], expect: Expect) -> OStep {
            let mut out = String::new();
            // modules are loaded before the input is compiled: a module that has not run in this session runs now (once)
            for s in stmts {
                if let Stmt::Needs { module: Some((mi, _, _)), fails: false, .. } = s {
                    if self.loaded.insert(*mi) { self.modn.insert(*mi, 0); out.push_str(&format!("{}\n", 7_000_001 + *mi as i64)); }
                }
            }
            if expect == Expect::CompileError { return OStep { class: "compile-error", output: out, value: String::new() }; }
            for s in stmts {
                match s {
                    Stmt::Let { name, mutable, val } => { self.fns.remove(name); self.vars.insert(name.clone(), (val.clone(), *mutable)); }
                    Stmt::SetLit { name, val } => { let m = self.vars[name].1; self.vars.insert(name.clone(), (Val::Int(*val), m)); }
                    Stmt::AddTo { name, k } => { if let (Val::Int(n), m) = self.vars[name].clone() { self.vars.insert(name.clone(), (Val::Int(n + k), m)); } }
                    Stmt::Def { name, def } => { self.vars.remove(name); self.fns.insert(name.clone(), def.clone()); }
                    Stmt::CopyFn { dst, src, .. } => { if let Some(d) = self.fns.get(src).cloned() { self.vars.remove(dst); self.fns.insert(dst.clone(), d); } }
                    Stmt::Quiet => {}
                    Stmt::Script { out: o, bind, .. } => { if let Some((n, f)) = bind { self.script_fns.insert(n.clone(), f.clone()); } out.push_str(o); if expect == Expect::RuntimeError { return OStep { class: "runtime-error", output: out, value: String::new() }; } }
                    Stmt::PrintVar { name } => { out.push_str(&self.vars[name].0.show()); out.push('\n'); }
                    Stmt::PrintLit { text } => { out.push_str(text); out.push('\n'); }
                    Stmt::PrintCall { f, arg } | Stmt::PrintApply { f, arg, .. } => match self.call(f, *arg, &mut out) {
                        Ok(v) => { out.push_str(&v.map(|x| x.to_string()).unwrap_or("null".into())); out.push('\n'); }
                        Err(()) => return OStep { class: "runtime-error", output: out, value: String::new() },
                    },
                    Stmt::Needs { .. } => {}
                    Stmt::PrintExpr { bump: Some(mi), .. } => { let n = self.modn.get(mi).copied().unwrap_or(0) + 1; self.modn.insert(*mi, n); out.push_str(&n.to_string()); out.push('\n'); }
                    Stmt::PrintExpr { value, .. } => { out.push_str(&value.to_string()); out.push('\n'); }
                    Stmt::Raw { .. } => { if expect == Expect::RuntimeError { return OStep { class: "runtime-error", output: out, value: String::new() }; } }
                }
            }
            OStep { class: "ok", output: out, value: String::new() }
        }
        pub fn host(&mut self, f: &str, arg: i64) -> OStep {
            if let Some(k) = self.script_fns.get(f) { return OStep { class: "ok", output: String::new(), value: k.apply(arg) }; }
            if let Some(mi) = self.bump_fns.get(f).copied() { let n = self.modn.get(&mi).copied().unwrap_or(0) + 1; self.modn.insert(mi, n);
                return OStep { class: "ok", output: String::new(), value: n.to_string() }; }
            if let Some(k) = self.imported.get(f) { return OStep { class: "ok", output: String::new(), value: (arg * k).to_string() }; }
            if !self.fns.contains_key(f) { return OStep { class: "runtime-error", output: String::new(), value: String::new() }; }
            let mut out = String::new();
            match self.call(f, arg, &mut out) {
                Ok(v) => OStep { class: "ok", output: out, value: v.map(|x| x.to_string()).unwrap_or("null".into()) },
                Err(()) => OStep { class: "runtime-error", output: out, value: String::new() },
            }
        }
    }

    // ------------------------------------------------------------------ generator
    /// a way an imported name can be written in a later input, what it evaluates to, and (functions) the
    /// global name / multiplier for a host call
    #[derive(Clone, Debug)]
    pub struct Imp { pub text: String, pub value: i64, pub host: Option<(String, i64)>, pub global: Option<String>, pub bump: Option<usize> }
    /// bump / counter: `pub let mut <counter> = 0`, `pub fn <bump>(x) { <counter> = <counter> + 1; return <counter> }`; the module's top level
    /// prints load_code when it runs
    pub struct ModDef { pub name: String, pub fns: Vec<(String, i64)>, pub consts: Vec<(String, i64)>, pub bump: String, pub counter: String, pub load_code: i64 }
    pub struct Gen { pub rng: Rng, pub n: u64, pub o: Oracle, pub boomed_host: bool,
                     pub modules: Vec<ModDef>, pub forms_left: Vec<u8>, pub pending: Vec<Imp>, pub usable: Vec<Imp>, pub rejected_probe: Vec<Imp>,
                     /// steps already decided (directed sequences), oldest last
                     pub queued: Vec<Step> }
    impl Gen {
        pub fn new(seed: u64) -> Self {
            let mut g = Gen { rng: Rng::new(seed), n: 0, o: Oracle::new(), boomed_host: false, modules: vec![], forms_left: vec![], pending: vec![], usable: vec![], rejected_probe: vec![], queued: vec![] };
            // two small user modules (written next to the session's working directory by run_case)
            for m in ["ua", "ub"] {
                let k1 = g.rng.range_i64(2, 9); let k2 = g.rng.range_i64(2, 9); let c = g.rng.range_i64(10, 99);
                let idx = g.modules.len() as i64;
                g.modules.push(ModDef { name: m.to_string(), fns: vec![(format!("{}f", m), k1), (format!("{}h", m), k2)], consts: vec![(format!("{}k", m), c)],
                                        bump: format!("{}b", m), counter: format!("{}n", m), load_code: 7_000_001 + idx });
            }
            // import forms: 0 whole, 1 aliased, 2 selective (user modules); 3 whole, 4 aliased, 5 selective (std.math)
            let mut forms: Vec<u8> = vec![0, 1, 2, 2, 3, 4, 5];
            for i in (1..forms.len()).rev() { let j = g.rng.below(i as u64 + 1) as usize; forms.swap(i, j); }
            g.forms_left = forms;
            g
        }
        pub fn module_source(m: &ModDef) -> String {
            let mut s = String::from("needs std.io\n");
            for (f, k) in &m.fns { s.push_str(&format!("pub fn {}(x) {{ return x * {} }}\n", f, k)); }
            for (c, v) in &m.consts { s.push_str(&format!("pub let {} = {}\n", c, v)); }
            s.push_str(&format!("pub let mut {} = 0\n", m.counter));
            s.push_str(&format!("pub fn {}(x) {{ {} = {} + 1; return {} }}\n", m.bump, m.counter, m.counter, m.counter));
            s.push_str(&format!("io.println({})\n", m.load_code));
            s
        }
        /// an import statement as its own input; every spelling it makes available must be used by a LATER input
        /// the text of an import statement of the given form and the spellings it makes available
        fn make_import(&mut self, form: u8) -> (String, Vec<Imp>, Option<(usize, u8, String)>) { self.make_import_of(form, None) }
        fn make_import_of(&mut self, form: u8, force: Option<usize>) -> (String, Vec<Imp>, Option<(usize, u8, String)>) {
            let mi = match force { Some(i) => i, None => self.rng.below(self.modules.len() as u64) as usize };
            let (mname, fns, consts, bump) = { let m = &self.modules[mi]; (m.name.clone(), m.fns.clone(), m.consts.clone(), m.bump.clone()) };
            let arg = self.rng.range_i64(1, 9);
            let mut new: Vec<Imp> = Vec::new();
            let mut module = None;
            let std = |t: &str, v: i64| Imp { text: t.to_string(), value: v, host: None, global: None, bump: None };
            let text = match form {
                0 => { for (f, k) in &fns { new.push(Imp { text: format!("{}.{}({})", mname, f, arg), value: arg * k, host: Some((format!("{}::{}", mname, f), *k)), global: Some(format!("{}::{}", mname, f)), bump: None }); }
                       new.push(Imp { text: format!("{}.{}(0)", mname, bump), value: 0, host: Some((format!("{}::{}", mname, bump), 0)), global: Some(format!("{}::{}", mname, bump)), bump: Some(mi) });
                       for (c, v) in &consts { new.push(Imp { text: format!("{}.{}", mname, c), value: *v, host: None, global: Some(format!("{}::{}", mname, c)), bump: None }); }
                       module = Some((mi, 0, String::new()));
                       format!("needs {}", mname) }
                1 => { let al = self.fresh("q");
                       for (f, k) in &fns { new.push(Imp { text: format!("{}.{}({})", al, f, arg), value: arg * k, host: Some((format!("{}::{}", al, f), *k)), global: Some(format!("{}::{}", al, f)), bump: None }); }
                       new.push(Imp { text: format!("{}.{}(0)", al, bump), value: 0, host: Some((format!("{}::{}", al, bump), 0)), global: Some(format!("{}::{}", al, bump)), bump: Some(mi) });
                       for (c, v) in &consts { new.push(Imp { text: format!("{}.{}", al, c), value: *v, host: None, global: Some(format!("{}::{}", al, c)), bump: None }); }
                       module = Some((mi, 1, al.clone()));
                       format!("needs {} as {}", mname, al) }
                2 => { let (c, v) = consts[0].clone();
                       let f = if self.rng.chance(1, 3) {
                           new.push(Imp { text: format!("{}(0)", bump), value: 0, host: Some((bump.clone(), 0)), global: Some(bump.clone()), bump: Some(mi) });
                           bump.clone()
                       } else {
                           let (f, k) = fns[self.rng.below(fns.len() as u64) as usize].clone();
                           new.push(Imp { text: format!("{}({})", f, arg), value: arg * k, host: Some((f.clone(), k)), global: Some(f.clone()), bump: None });
                           f
                       };
                       new.push(Imp { text: c.clone(), value: v, host: None, global: Some(c.clone()), bump: None });
                       module = Some((mi, 2, f.clone()));
                       format!("needs {}, {} from {}", f, c, mname) }
                3 => { new.push(std("math.floor(2.5)", 2)); new.push(std("math.abs(-3)", 3));
                       "needs std.math".to_string() }
                4 => { let al = self.fresh("mq");
                       new.push(std(&format!("{}.floor(2.5)", al), 2)); new.push(std(&format!("{}.abs(-3)", al), 3));
                       format!("needs std.math as {}", al) }
                _ => { new.push(std("floor(7.5)", 7)); new.push(std("abs(-4)", 4));
                       "needs floor, abs from std.math".to_string() }
            };
            (text, new, module)
        }
        /// an import statement as its own input; every spelling it makes available must be used by a LATER input
        fn import_step(&mut self) -> Option<Step> {
            let form = self.forms_left.pop()?;
            let (text, new, module) = self.make_import(form);
            self.register_imps(new);
            // the importing input may also define names of its own (their mutability must be recorded like any other's)
            let mut stmts = vec![Stmt::Needs { text, module, fails: false }];
            for _ in 0..self.rng.below(3) {
                let name = self.fresh("g");
                stmts.push(Stmt::Let { name, mutable: self.rng.chance(1, 2), val: Val::Int(self.rng.range_i64(-50, 50)) });
            }
            Some(Step::Input { stmts, expect: Expect::Ok })
        }
        fn register_imps(&mut self, new: Vec<Imp>) {
            for i in &new { if let Some((h, k)) = &i.host { match i.bump { Some(mi) => { self.o.bump_fns.insert(h.clone(), mi); } None => { self.o.imported.insert(h.clone(), *k); } } } }
            self.pending.extend(new.iter().cloned());
            self.usable.extend(new);
        }
        /// an input whose import cannot be loaded: no such module, or a module that does not compile
        fn failing_import(&mut self) -> Step {
            let text = if self.rng.chance(1, 2) { format!("needs {}", self.fresh("nosuch")) } else { "needs ubad".to_string() };
            Step::Input { stmts: vec![Stmt::Needs { text, module: None, fails: true }], expect: Expect::CompileError }
        }
        /// a later input (or host call) that uses imported spellings
        fn use_step(&mut self) -> Step {
            let imp = if !self.pending.is_empty() { let i = self.rng.below(self.pending.len() as u64) as usize; self.pending.remove(i) }
                      else { let i = self.rng.below(self.usable.len() as u64) as usize; self.usable[i].clone() };
            if let Some((h, _)) = &imp.host { if self.rng.chance(1, 3) { return Step::Host { f: h.clone(), arg: self.rng.range_i64(0, 9), cached: self.rng.chance(1, 3), extra: self.rng.chance(1, 8) }; } }
            let pe = |i: &Imp| Stmt::PrintExpr { text: i.text.clone(), value: i.value, global: i.global.clone(), is_fn: i.host.is_some(), bump: i.bump };
            let mut stmts = vec![pe(&imp)];
            if !self.usable.is_empty() && self.rng.chance(1, 2) { let i = self.rng.below(self.usable.len() as u64) as usize; let u = self.usable[i].clone(); stmts.push(pe(&u)); }
            let av = self.all_vars();
            if !av.is_empty() && self.rng.chance(1, 2) { let v = self.pick(&av); stmts.insert(0, Stmt::PrintVar { name: v }); }
            Step::Input { stmts, expect: Expect::Ok }
        }
        pub fn arg_for(&self, f: &str) -> i64 { self.o.fns.get(f).map(|d| arg_of(&d.home)).unwrap_or(arg_of(f)) }
        fn fresh(&mut self, p: &str) -> String { self.n += 1; format!("{}{}", p, self.n) }
        fn int_vars(&self, mutable_only: bool) -> Vec<String> {
            let mut v: Vec<String> = self.o.vars.iter().filter(|(k, (val, m))| matches!(val, Val::Int(_)) && (!mutable_only || *m) && k.as_str() != "zero" && !k.starts_with("junk"))
                .map(|(k, _)| k.clone()).collect();
            v.sort(); v
        }
        fn all_vars(&self) -> Vec<String> { let mut v: Vec<String> = self.o.vars.keys().filter(|k| k.as_str() != "zero" && !k.starts_with("junk")).cloned().collect(); v.sort(); v }
        fn fns(&self, safe: bool) -> Vec<String> {
            let mut v: Vec<String> = self.o.fns.iter().filter(|(_, d)| d.kind != FnKind::Apply && (!safe || !self.fails(d))).map(|(k, _)| k.clone()).collect();
            v.sort(); v
        }
        /// does a call of this function fail (division by zero), directly or in the function it calls?
        pub fn fails(&self, d: &FnDef) -> bool {
            match &d.kind { FnKind::Boom | FnKind::Loop => true, FnKind::CallF(t, _) | FnKind::Closure(t) | FnKind::ClosureBump(t, _) => self.o.fns.get(t).map(|x| self.fails(x)).unwrap_or(true), _ => false }
        }
        fn pick(&mut self, v: &[String]) -> String { v[self.rng.below(v.len() as u64) as usize].clone() }
        fn good_stmt(&mut self, defined_here: &mut HashSet<String>, assigned_here: &mut HashSet<String>) -> Option<Stmt> {
            let r = self.rng.below(100);
            let mv = self.int_vars(true); let iv = self.int_vars(false); let av = self.all_vars(); let fs = self.fns(true);
            if r < 14 {
                // new or redefined variable
                let name = if !av.is_empty() && self.rng.chance(1, 4) { self.pick(&av) } else { self.fresh("g") };
                if defined_here.contains(&name) || assigned_here.contains(&name) { return None; }
                defined_here.insert(name.clone());
                let val = if self.rng.chance(1, 4) { Val::Str(self.fresh("s")) } else { Val::Int(self.rng.range_i64(-50, 50)) };
                Some(Stmt::Let { name, mutable: self.rng.chance(2, 3), val })
            } else if r < 26 && !mv.is_empty() {
                let name = self.pick(&mv);
                assigned_here.insert(name.clone());
                if self.rng.chance(1, 2) { Some(Stmt::SetLit { name, val: self.rng.range_i64(-50, 50) }) } else { Some(Stmt::AddTo { name, k: self.rng.range_i64(1, 9) }) }
            } else if r < 44 {
                // a function that calls another global function (names c<N>; never redefined, never a callee: no cycles)
                let callees: Vec<String> = { let mut v: Vec<String> = self.o.fns.keys().filter(|n| n.starts_with('f')).cloned().collect(); v.sort(); v };
                if !callees.is_empty() && self.rng.chance(1, 6) {
                    // a closure that calls a global function (names k<N>: never redefined)
                    let name = self.fresh("k");
                    defined_here.insert(name.clone());
                    let tag = self.fresh("T");
                    let t = self.pick(&callees);
                    if !mv.is_empty() && self.rng.chance(1, 2) {
                        let gname = self.pick(&mv); assigned_here.insert(gname.clone());
                        return Some(Stmt::Def { name: name.clone(), def: FnDef { lambda: false, home: name.clone(), tag, kind: FnKind::ClosureBump(t, gname) } });
                    }
                    return Some(Stmt::Def { name: name.clone(), def: FnDef { lambda: false, home: name.clone(), tag, kind: FnKind::Closure(t) } });
                }
                if !callees.is_empty() && self.rng.chance(1, 4) {
                    let name = self.fresh("c");
                    defined_here.insert(name.clone());
                    let tag = if self.rng.chance(1, 3) { String::new() } else { self.fresh("T") };
                    let t = self.pick(&callees);
                    return Some(Stmt::Def { name: name.clone(), def: FnDef { lambda: false, home: name.clone(), tag, kind: FnKind::CallF(t, 0) } });
                }
                // a function without `return` that mutates a global (names b<N>: never redefined, never a callee of c<N>)
                if !mv.is_empty() && self.rng.chance(1, 6) {
                    let name = self.fresh("b");
                    defined_here.insert(name.clone());
                    let tag = self.fresh("T");
                    let gname = self.pick(&mv); assigned_here.insert(gname.clone());
                    return Some(Stmt::Def { name: name.clone(), def: FnDef { lambda: false, home: name.clone(), tag, kind: FnKind::Bump0(gname) } });
                }
                // a function that recurses until the frame limit (names r<N>)
                if self.rng.chance(1, 14) {
                    let name = self.fresh("r");
                    defined_here.insert(name.clone());
                    return Some(Stmt::Def { name: name.clone(), def: FnDef { lambda: false, home: name.clone(), tag: String::new(), kind: FnKind::Loop } });
                }
                let fnames: Vec<String> = fs.iter().filter(|n| n.starts_with('f')).cloned().collect();
                let name = if !fnames.is_empty() && self.rng.chance(1, 3) { self.pick(&fnames) } else { self.fresh("f") };
                if defined_here.contains(&name) { return None; }
                defined_here.insert(name.clone());
                let mut tag = self.fresh("T");
                let k = self.rng.below(10);
                if k < 6 && self.rng.chance(1, 3) { tag = String::new(); }
                let kind = if k < 3 || iv.is_empty() { FnKind::AddK(self.rng.range_i64(1, 20)) }
                    else if k < 6 { FnKind::ReadG(self.pick(&iv)) }
                    else if k < 8 && !mv.is_empty() { let gname = self.pick(&mv); assigned_here.insert(gname.clone()); FnKind::BumpG(gname) }
                    else { FnKind::Boom };
                Some(Stmt::Def { name: name.clone(), def: FnDef { lambda: false, home: name.clone(), tag, kind } })
            } else if r < 47 {
                // a variable that holds a function value: created from, or rebound to, what a function name denotes now
                let srcs: Vec<String> = { let mut v: Vec<String> = self.o.fns.iter().filter(|(k, d)| k.starts_with('f') && matches!(d.kind, FnKind::AddK(_) | FnKind::ReadG(_) | FnKind::BumpG(_))).map(|(k, _)| k.clone()).collect(); v.sort(); v };
                if srcs.is_empty() { return None; }
                let hs: Vec<String> = { let mut v: Vec<String> = self.o.fns.keys().filter(|k| k.starts_with('h')).cloned().collect(); v.sort(); v };
                let src = self.pick(&srcs);
                if !hs.is_empty() && self.rng.chance(2, 3) {
                    let dst = self.pick(&hs);
                    if defined_here.contains(&dst) { return None; }
                    assigned_here.insert(dst.clone());
                    Some(Stmt::CopyFn { dst, src, fresh: false })
                } else {
                    let dst = self.fresh("h");
                    defined_here.insert(dst.clone());
                    Some(Stmt::CopyFn { dst, src, fresh: true })
                }
            } else if r < 52 {
                // a higher-order function without globals of its own, and calls through it
                let appliers: Vec<String> = { let mut v: Vec<String> = self.o.fns.iter().filter(|(_, d)| d.kind == FnKind::Apply).map(|(k, _)| k.clone()).collect(); v.sort(); v };
                if appliers.is_empty() || (appliers.len() < 2 && self.rng.chance(1, 4)) {
                    let name = self.fresh("a");
                    defined_here.insert(name.clone());
                    Some(Stmt::Def { name: name.clone(), def: FnDef { lambda: false, home: name.clone(), tag: String::new(), kind: FnKind::Apply } })
                } else if !fs.is_empty() {
                    let f = self.pick(&fs); let arg = self.arg_for(&f); Some(Stmt::PrintApply { a: self.pick(&appliers), f, arg })
                } else { None }
            } else if r < 62 && !av.is_empty() {
                Some(Stmt::PrintVar { name: self.pick(&av) })
            } else if r < 92 && !fs.is_empty() {
                let f = self.pick(&fs); let arg = self.arg_for(&f); Some(Stmt::PrintCall { f, arg })
            } else {
                Some(Stmt::PrintLit { text: self.fresh("p") })
            }
        }
        /// a function is only callable while the global it refers to is still an int variable
        fn prune_dangling(&mut self) {
            let vars = self.o.vars.clone();
            self.o.fns.retain(|_, d| match &d.kind {
                FnKind::ReadG(g) => matches!(vars.get(g), Some((Val::Int(_), _))),
                FnKind::BumpG(g) | FnKind::Bump0(g) | FnKind::ClosureBump(_, g) => matches!(vars.get(g), Some((Val::Int(_), true))),
                _ => true });
            let names: HashSet<String> = self.o.fns.keys().cloned().collect();
            self.o.fns.retain(|_, d| match &d.kind { FnKind::CallF(t, _) | FnKind::Closure(t) | FnKind::ClosureBump(t, _) => names.contains(t), _ => true });
        }
        pub fn step(&mut self, first: bool, flush: bool) -> Step {
            if first {
                return Step::Input { stmts: vec![Stmt::Let { name: "zero".into(), mutable: true, val: Val::Int(0) },
                                                 Stmt::Let { name: "g0".into(), mutable: true, val: Val::Int(7) },
                                                 Stmt::Def { name: "f0".into(), def: FnDef { lambda: false, home: "f0".into(), tag: "T0".into(), kind: FnKind::AddK(1) } }], expect: Expect::Ok };
            }
            // the import of an input that was rejected at compile time must not have taken effect
            if let Some(st) = self.queued.pop() {
                // still valid? (a queued host call of a function that an input in between removed is dropped)
                match &st { Step::Host { f, .. } if !self.o.fns.contains_key(f) && !self.o.script_fns.contains_key(f) => {},
                            Step::Hold { f } | Step::CallHeld { f, .. } if !self.o.fns.contains_key(f) && !self.o.script_fns.contains_key(f) => {}, Step::HostSet { name, .. } if !self.o.vars.contains_key(name) => {}, _ => return st }
            }
            if let Some(p) = self.rejected_probe.pop() {
                return Step::Input { stmts: vec![Stmt::Raw { text: format!("println({})", p.text) }], expect: Expect::CompileError };
            }
            if flush { return self.use_step(); }
            // a failing import; sometimes directed: a module that has run, a failing import, the module imported again under
            // a fresh alias (it must not run again) and its stateful function called through the new alias
            if self.rng.chance(1, 14) {
                let loaded: Vec<usize> = { let mut v: Vec<usize> = self.o.loaded.iter().copied().collect(); v.sort(); v };
                if !loaded.is_empty() && self.rng.chance(2, 3) {
                    let mi = loaded[self.rng.below(loaded.len() as u64) as usize];
                    let (text, new, module) = self.make_import_of(1, Some(mi));
                    let b = new.iter().find(|i| i.bump.is_some()).cloned();
                    self.register_imps(new);
                    if let Some(b) = b { self.queued.push(Step::Input { stmts: vec![Stmt::PrintExpr { text: b.text.clone(), value: 0, global: b.global.clone(), is_fn: true, bump: b.bump }], expect: Expect::Ok }); }
                    self.queued.push(Step::Input { stmts: vec![Stmt::Needs { text, module, fails: false }], expect: Expect::Ok });
                }
                return self.failing_import();
            }
            if !self.forms_left.is_empty() && self.rng.chance(1, 9) { if let Some(s) = self.import_step() { return s; } }
            if !self.usable.is_empty() && (self.rng.chance(1, 8) || (!self.pending.is_empty() && self.rng.chance(1, 3))) { return self.use_step(); }
            let r = self.rng.below(100);
            let fs_all = self.fns(false); let fs = self.fns(true);
            if r < 14 && !fs_all.is_empty() {
                // host call; a call into a failing function only when asked for (it leaves frames behind)
                let booms: Vec<String> = fs_all.iter().filter(|f| self.fails(&self.o.fns[*f])).cloned().collect();
                let f = if !booms.is_empty() && self.rng.chance(1, 2) { self.pick(&booms) } else if !fs.is_empty() { self.pick(&fs) } else { return self.step(false, false) };
                let arg = self.arg_for(&f); return Step::Host { f, arg, cached: self.rng.chance(1, 3), extra: self.rng.chance(1, 8) };
            }
            if r < 17 { return Step::Host { f: self.fresh("nosuch"), arg: 1, cached: self.rng.chance(1, 2), extra: false }; }
            if r < 22 {
                let mv = self.int_vars(true);
                if !mv.is_empty() {
                    let name = self.pick(&mv);
                    let val = self.rng.range_i64(-50, 50);
                    // directed: host call of a function that reads / mutates this global, set, the same call again
                    // (the function's layout is still loaded when the global is set)
                    let users: Vec<String> = { let mut v: Vec<String> = self.o.fns.iter().filter(|(_, d)| matches!(&d.kind, FnKind::ReadG(g) | FnKind::BumpG(g) | FnKind::Bump0(g) if *g == name)).map(|(k, _)| k.clone()).collect(); v.sort(); v };
                    if !users.is_empty() && self.rng.chance(2, 3) {
                        let f = self.pick(&users); let arg = self.arg_for(&f);
                        let cached = self.rng.chance(1, 3);
                        self.queued.push(Step::Host { f: f.clone(), arg, cached, extra: false });
                        self.queued.push(Step::HostSet { name, val });
                        return Step::Host { f, arg, cached: self.rng.chance(1, 3), extra: false };
                    }
                    return Step::HostSet { name, val };
                }
            }
            // directed: caller and callee (or a function and the constant it reads) defined IN ONE INPUT, the callee / constant
            // redefined by a later input, then the caller called from an input and by the host -- a name bound once in its
            // input is not bound once in the session
            if self.rng.chance(1, 9) {
                if self.rng.chance(1, 2) {
                    let f = self.fresh("f"); let c = self.fresh("c");
                    let (k1, k2) = (self.rng.range_i64(1, 20), self.rng.range_i64(21, 40));
                    let d = |f: &str, k: i64| Stmt::Def { name: f.to_string(), def: FnDef { lambda: false, home: f.to_string(), tag: String::new(), kind: FnKind::AddK(k) } };
                    self.queued.push(Step::Host { f: c.clone(), arg: arg_of(&c), cached: self.rng.chance(1, 2), extra: false });
                    self.queued.push(Step::Input { stmts: vec![Stmt::PrintCall { f: c.clone(), arg: arg_of(&c) }], expect: Expect::Ok });
                    self.queued.push(Step::Input { stmts: vec![d(&f, k2)], expect: Expect::Ok });
                    let lam = self.rng.chance(1, 2);
                    return Step::Input { stmts: vec![d(&f, k1), Stmt::Def { name: c.clone(), def: FnDef { lambda: lam, home: c.clone(), tag: String::new(), kind: FnKind::CallF(f.clone(), 0) } }], expect: Expect::Ok };
                } else {
                    let gname = self.fresh("g"); let f = self.fresh("f");
                    let (v1, v2) = (self.rng.range_i64(-50, 0), self.rng.range_i64(1, 50));
                    self.queued.push(Step::Host { f: f.clone(), arg: arg_of(&f), cached: self.rng.chance(1, 2), extra: false });
                    self.queued.push(Step::Input { stmts: vec![Stmt::PrintCall { f: f.clone(), arg: arg_of(&f) }], expect: Expect::Ok });
                    self.queued.push(Step::Input { stmts: vec![Stmt::Let { name: gname.clone(), mutable: false, val: Val::Int(v2) }], expect: Expect::Ok });
                    return Step::Input { stmts: vec![Stmt::Let { name: gname.clone(), mutable: false, val: Val::Int(v1) },
                                                     Stmt::Def { name: f.clone(), def: FnDef { lambda: self.rng.chance(1, 2), home: f.clone(), tag: String::new(), kind: FnKind::ReadG(gname) } }], expect: Expect::Ok };
                }
            }
            // directed: a closure ESCAPES from a function that then fails (stored in a global); later calls reuse the registers
            // of the dead frame, another closure captures the same (base, register); collections in between
            if self.rng.chance(1, 90) {
                let id = { self.n += 1; self.n };
                let v = self.rng.range_i64(10, 90);
                let sc = |text: String, out: String| Stmt::Script { text, out, bind: None };
                let inp = |st: Stmt, e: Expect| Step::Input { stmts: vec![st], expect: e };
                let gc = self.rng.chance(1, 2);
                let mut seq: Vec<Step> = Vec::new();
                // the failure is raised in the frame that owns the captured local (depth 0) or one / two frames below it: the
                // upvalue then belongs to an INTERMEDIATE dropped frame, and the local is still live after the call
                let depth = self.rng.below(3);
                if depth == 0 {
                    seq.push(inp(sc(format!("fn mke{id}(x) {{ let mut c = {v}; e{id} = fn(y) {{ return c + y }}; nope{id}(0); return 1 / zero }}"), String::new()), Expect::Ok));
                } else {
                    let mid = if depth == 1 { format!("fn mid{id}(d) {{ return 1 / d }}") }
                              else { format!("fn low{id}(d) {{ return 1 / d }}\nfn mid{id}(d) {{ let w = low{id}(d); return w + 1 }}") };
                    seq.push(inp(sc(format!("{mid}\nfn mke{id}(x) {{ let mut c = {v}; e{id} = fn(y) {{ return c + y }}; nope{id}(0); let r = mid{id}(zero); return r + c }}"), String::new()), Expect::Ok));
                }
                seq.push(inp(sc(format!("println(mke{id}(0))"), String::new()), Expect::RuntimeError));
                if gc { seq.push(Step::Gc(true)); }
                seq.push(inp(sc(format!("println(e{id}(0))"), format!("{}\n", v)), Expect::Ok));
                seq.push(inp(sc(format!("fn wide{id}(a, b, c2) {{ return a + b + c2 }}\nprintln(wide{id}(100, 200, 300))"), "600\n".into()), Expect::Ok));
                seq.push(inp(sc(format!("println(e{id}(1))"), format!("{}\n", v + 1)), Expect::Ok));
                seq.push(inp(sc(format!("fn mkt{id}(x) {{ let mut d = 77; let g2 = fn(y) {{ return d + y }}; d = 78; return g2 }}\nlet q{id} = mkt{id}(0)\nprintln(q{id}(0))\nprintln(e{id}(2))"), format!("78\n{}\n", v + 2)), Expect::Ok));
                seq.push(Step::Host { f: format!("e{id}"), arg: 3, cached: self.rng.chance(1, 2), extra: false });
                if gc { seq.push(Step::Gc(false)); }
                self.o.script_fns.insert(format!("e{id}"), ScriptFn::Add(v));
                for st in seq.into_iter().rev() { self.queued.push(st); }
                return inp(sc(format!("let mut e{id} = null\nfn nope{id}(x) {{ return zero }}"), String::new()), Expect::Ok);
            }
            // directed: the host keeps a handle of a NAME that denotes a native (or a user function / a closure) when the handle is
            // taken and something of another kind when the handle is used: native -> user function -> another native -> closure, or
            // user function -> native
            if self.rng.chance(1, 110) {
                let id = { self.n += 1; self.n };
                let cb = format!("cb{id}");
                let bindst = |text: String, f: ScriptFn, cb: &str| Step::Input { stmts: vec![Stmt::Script { text, out: String::new(), bind: Some((cb.to_string(), f)) }], expect: Expect::Ok };
                let held = |cb: &str| Step::CallHeld { f: cb.to_string(), arg: 7 };
                let byname = |cb: &str| Step::Host { f: cb.to_string(), arg: 7, cached: false, extra: false };
                let mut seq: Vec<Step> = Vec::new();
                let first;
                if self.rng.chance(1, 2) {
                    first = bindst(format!("let mut {cb} = type"), ScriptFn::Const("int".into()), &cb);
                    seq.push(Step::Hold { f: cb.clone() }); seq.push(held(&cb));
                    seq.push(bindst(format!("fn six{id}(x) {{ return x * 6 }}\n{cb} = six{id}"), ScriptFn::Mul(6), &cb)); seq.push(held(&cb)); seq.push(byname(&cb));
                    seq.push(bindst(format!("{cb} = __tostring"), ScriptFn::Str, &cb)); seq.push(held(&cb));
                    seq.push(bindst(format!("fn mkc{id}(k) {{ return fn(x) {{ return x + k }} }}\n{cb} = mkc{id}(5)"), ScriptFn::Add(5), &cb)); seq.push(held(&cb));
                } else {
                    first = bindst(format!("fn six{id}(x) {{ return x * 6 }}\nlet mut {cb} = six{id}"), ScriptFn::Mul(6), &cb);
                    seq.push(Step::Hold { f: cb.clone() }); seq.push(held(&cb));
                    seq.push(bindst(format!("{cb} = type"), ScriptFn::Const("int".into()), &cb)); seq.push(held(&cb)); seq.push(byname(&cb));
                    seq.push(bindst(format!("{cb} = six{id}"), ScriptFn::Mul(6), &cb)); seq.push(held(&cb));
                }
                for st in seq.into_iter().rev() { self.queued.push(st); }
                return first;
            }
            // directed: the host keeps a handle of a function, the function is redefined, collections happen, the handle is used
            if self.rng.chance(1, 12) {
                let fnames: Vec<String> = { let mut v: Vec<String> = self.o.fns.iter().filter(|(k, d)| k.starts_with('f') && !self.fails(d)).map(|(k, _)| k.clone()).collect(); v.sort(); v };
                if !fnames.is_empty() {
                    let f = self.pick(&fnames);
                    let tag = self.fresh("T");
                    let newdef = FnDef { lambda: false, home: f.clone(), tag, kind: FnKind::AddK(self.rng.range_i64(1, 20)) };
                    let junk = self.fresh("junk");
                    let mut seq = vec![Step::Gc(true), Step::Input { stmts: vec![Stmt::Def { name: f.clone(), def: newdef }], expect: Expect::Ok },
                                       Step::Input { stmts: vec![Stmt::Let { name: junk, mutable: true, val: Val::Str(self.fresh("s")) }, Stmt::PrintLit { text: self.fresh("p") }], expect: Expect::Ok },
                                       Step::CallHeld { f: f.clone(), arg: arg_of(&f) }, Step::Gc(false), Step::CallHeld { f: f.clone(), arg: arg_of(&f) }];
                    seq.reverse();
                    for st in seq { self.queued.push(st); }
                    return Step::Hold { f };
                }
            }
            // directed: the host calls a closure that calls a global function and then mutates a global, right after the host
            // called that function (its layout is the one loaded) or after an input that touches no global (no layout loaded)
            if self.rng.chance(1, 8) {
                let ks: Vec<(String, String, String)> = { let mut v: Vec<(String, String, String)> = self.o.fns.iter().filter_map(|(k, d)| match &d.kind { FnKind::ClosureBump(t, g) if !self.fails(d) => Some((k.clone(), t.clone(), g.clone())), _ => None }).collect(); v.sort(); v };
                if !ks.is_empty() {
                    let (k, t, g) = ks[self.rng.below(ks.len() as u64) as usize].clone();
                    self.queued.push(Step::Input { stmts: vec![Stmt::PrintVar { name: g }], expect: Expect::Ok });
                    self.queued.push(Step::Host { f: k.clone(), arg: arg_of(&k), cached: self.rng.chance(1, 3), extra: false });
                    if self.rng.chance(1, 2) {
                        let arg = self.arg_for(&t);
                        return Step::Host { f: t, arg, cached: self.rng.chance(1, 3), extra: false };
                    }
                    return Step::Input { stmts: vec![Stmt::Quiet], expect: Expect::Ok };
                }
            }
            // directed: a closure of an earlier input calls a global function; this input rebinds that function and, in the
            // same input, calls the closure THROUGH A VALUE from a function without globals of its own
            if self.rng.chance(1, 8) {
                let ks: Vec<(String, String)> = { let mut v: Vec<(String, String)> = self.o.fns.iter().filter_map(|(k, d)| match &d.kind { FnKind::Closure(t) if k.starts_with('k') => Some((k.clone(), t.clone())), _ => None }).collect(); v.sort(); v };
                let appliers: Vec<String> = { let mut v: Vec<String> = self.o.fns.iter().filter(|(_, d)| d.kind == FnKind::Apply).map(|(k, _)| k.clone()).collect(); v.sort(); v };
                if !ks.is_empty() && !appliers.is_empty() {
                    let (k, t) = ks[self.rng.below(ks.len() as u64) as usize].clone();
                    let a = self.pick(&appliers);
                    let tag = self.fresh("T");
                    let newdef = FnDef { lambda: false, home: t.clone(), tag, kind: FnKind::AddK(self.rng.range_i64(1, 20)) };
                    let arg = arg_of(&k);
                    let mut stmts = vec![Stmt::Def { name: t.clone(), def: newdef }, Stmt::PrintApply { a: a.clone(), f: k.clone(), arg }];
                    if self.rng.chance(1, 2) { stmts.push(Stmt::PrintApply { a, f: k.clone(), arg }); }
                    if self.rng.chance(1, 2) { stmts.push(Stmt::PrintCall { f: k, arg }); }
                    return Step::Input { stmts, expect: Expect::Ok };
                }
            }
            let mut defined_here = HashSet::new();
            let mut assigned_here = HashSet::new();
            let n = 1 + self.rng.below(4) as usize;
            let mut stmts = Vec::new();
            let snapshot = self.o.clone();
            for _ in 0..n {
                if let Some(s) = self.good_stmt(&mut defined_here, &mut assigned_here) {
                    // keep the oracle's view current so that later statements of the input are valid
                    self.o.input(std::slice::from_ref(&s), Expect::Ok);
                    self.prune_dangling();
                    stmts.push(s);
                }
            }
            if stmts.is_empty() { stmts.push(Stmt::PrintLit { text: self.fresh("p") }); }
            self.o = snapshot;
            if r < 29 {
                // rejected at compile time: the whole input, including its valid statements, changes nothing
                let k = self.rng.below(3);
                let bad = match k {
                    0 => Stmt::Raw { text: format!("println({})", self.fresh("undefined_name")) },
                    1 => Stmt::Raw { text: "let = 3".into() },
                    _ => { let imm: Vec<String> = { let mut v: Vec<String> = self.o.vars.iter().filter(|(k, (_, m))| !*m && !defined_here.contains(*k)).map(|(k, _)| k.clone()).collect(); v.sort(); v };
                           if imm.is_empty() { Stmt::Raw { text: "println(1 +)".into() } } else { Stmt::Raw { text: format!("{} = 5", self.pick(&imm)) } } }
                };
                let pos = self.rng.below(stmts.len() as u64 + 1) as usize;
                stmts.insert(pos, bad);
                // sometimes the rejected input also imports (under a fresh alias): "changes nothing" includes the import.
                // (not with a syntax error: the parser rejects the input before anything is loaded -- also fine)
                if self.rng.chance(1, 3) {
                    let form = if self.rng.chance(1, 2) { 1 } else { 4 };
                    let (text, new, module) = self.make_import(form);
                    // (after a syntax error nothing is loaded: the parser rejects the input first)
                    let syntax = matches!(&stmts[pos], Stmt::Raw { text } if text == "let = 3" || text == "println(1 +)");
                    stmts.insert(0, Stmt::Needs { text, module: if syntax { None } else { module }, fails: false });
                    self.rejected_probe.push(new[0].clone());
                }
                return Step::Input { stmts, expect: Expect::CompileError };
            }
            if r < 40 {
                // fails at run time after partial effects: prints and fresh names only (later observations must
                // not depend on the partial effects of a failed input)
                let mut st: Vec<Stmt> = Vec::new();
                st.push(Stmt::PrintLit { text: self.fresh("p") });
                if self.rng.chance(1, 2) { st.push(Stmt::Let { name: self.fresh("junk"), mutable: true, val: Val::Int(5) }); }
                if self.rng.chance(1, 2) && !fs.is_empty() {
                    let pure: Vec<String> = fs.iter().filter(|f| matches!(self.o.fns[*f].kind, FnKind::AddK(_) | FnKind::ReadG(_))).cloned().collect();
                    if !pure.is_empty() { let f = self.pick(&pure); let arg = self.arg_for(&f); st.push(Stmt::PrintCall { f, arg }); }
                }
                let booms: Vec<String> = fs_all.iter().filter(|f| self.fails(&self.o.fns[*f])).cloned().collect();
                if !booms.is_empty() && self.rng.chance(1, 2) { let f = self.pick(&booms); let arg = self.arg_for(&f); st.push(Stmt::PrintCall { f, arg }); }
                else { st.push(Stmt::Raw { text: "println(1 / zero)".into() }); }
                st.push(Stmt::PrintLit { text: self.fresh("unreached") });
                return Step::Input { stmts: st, expect: Expect::RuntimeError };
            }
            Step::Input { stmts, expect: Expect::Ok }
        }
    }

    // ------------------------------------------------------------------ layouts of the compiled unit (for the Coq model)
    pub fn live_functions(vm: &VM) -> Vec<(usize, usize, Option<String>)> {
        let heap = vm.heap();
        let live = heap.object_count();
        let (mut seen, mut idx) = (0usize, 0usize);
        let mut out = Vec::new();
        while seen < live && idx < 10_000_000 {
            if let Some(obj) = heap.get(GcRef::new(idx)) {
                seen += 1;
                if let ObjectKind::Function(f) = &obj.kind { out.push((idx, f.function.bytecode.as_ptr() as usize, f.function.name.clone())); }
            }
            idx += 1;
        }
        out
    }
    /// the layout of the code a global denotes (a function, or the inner function of a closure)
    pub fn layout_of_global(vm: &VM, name: &str) -> Option<Lay> {
        let p = vm.get_global(name)?.as_ptr()?;
        match &vm.heap().get(GcRef::new(p))?.kind {
            ObjectKind::Function(f) => Some(lay_of(&f.function)),
            ObjectKind::Closure(c) => match &vm.heap().get(c.function)?.kind { ObjectKind::Function(f) => Some(lay_of(&f.function)), _ => None },
            _ => None,
        }
    }
    pub fn function_at(vm: &VM, idx: usize) -> Option<Function> {
        match vm.heap().get(GcRef::new(idx)) { Some(o) => match &o.kind { ObjectKind::Function(f) => Some(f.function.clone()), _ => None }, None => None }
    }

    // ------------------------------------------------------------------ sessions: real run, oracle, model query
    pub struct Names { pub ids: HashMap<String, u64>, pub order: Vec<String> }
    impl Names {
        pub fn id(&mut self, n: &str) -> u64 {
            if let Some(i) = self.ids.get(n) { return *i; }
            let i = self.order.len() as u64;
            self.ids.insert(n.to_string(), i);
            self.order.push(n.to_string());
            i
        }
    }
    #[derive(Clone)]
    pub struct Lay { pub id: usize, pub names: Vec<String> }
    pub fn lay_of(f: &Function) -> Lay { Lay { id: f.global_layout.id(), names: f.global_layout.names().to_vec() } }
    pub fn coq_layout(l: &Lay, names: &mut Names) -> String {
        let ns: Vec<String> = l.names.iter().map(|n| if n.is_empty() { "None".to_string() } else { format!("Some {}%N", names.id(n)) }).collect();
        format!("(mkLayout {} [{}])", l.id, ns.join("; "))
    }
    pub fn zc(n: i64) -> String { if n < 0 { format!("({})", n) } else { n.to_string() } }
    pub fn code_of_val(v: &Val) -> i64 {
        match v { Val::Int(n) => *n, Val::Str(s) => 1_000_000 + s[1..].parse::<i64>().unwrap_or(0) }
    }
    pub fn code_of_line(l: &str) -> Option<i64> {
        // (the line a module's top level prints when it runs is not an operation of the old model)
        if let Ok(n) = l.parse::<i64>() { return if (7_000_000..7_000_100).contains(&n) { None } else { Some(n) }; }
        let num = |p: &str| l.strip_prefix(p).and_then(|x| x.parse::<i64>().ok());
        if let Some(n) = num("s") { return Some(1_000_000 + n); }
        if num("T").is_some() || num("p").is_some() || num("unreached").is_some() || l == "null" { return None; }
        Some(999_999_999)
    }
    pub fn obs_of_output(out: &str) -> Vec<i64> { out.lines().filter_map(|l| code_of_line(l.trim_end())).collect() }
    pub const NULLZ: i64 = -1000000007;
    pub fn read_map(vm: &VM, name: &str) -> i64 {
        match vm.get_global(name) {
            None => NULLZ,
            Some(v) => if let Some(n) = v.as_int() { n } else if v.is_null() { NULLZ } else { code_of_line(&vm.value_to_string(v)).unwrap_or(999_999_998) },
        }
    }
    pub fn class3(c: &str) -> &'static str {
        if c == "ok" { "ok" } else if c == "compile-error" { "compile-error" } else if c.starts_with("runtime:") { "runtime-error" } else { "other" }
    }


    /// model operations of a call of f(arg) whose result, plus `add`, is printed / returned;
    /// host: Some(cached) for a call made by the host, None for a call from bytecode
    pub fn emit_call(f: &str, arg: i64, add: i64, fns: &HashMap<String, FnDef>, fn_lay: &HashMap<String, Lay>, names: &mut Names,
                     problems: &mut Vec<String>, host: Option<bool>) -> (Vec<String>, bool) {
        let mut ops = Vec::new();
        let (d, lf) = match (fns.get(f).cloned(), fn_lay.get(f).cloned()) {
            (Some(d), Some(l)) => (d, l),
            _ => { problems.push(format!("no layout known for {}", f)); return (ops, false); }
        };
        match host { Some(c) => ops.push(format!("OHostCall {} {}", coq_layout(&lf, names), c)), None => ops.push(format!("OCall {}", coq_layout(&lf, names))) }
        let mut fidx = |n: &str, problems: &mut Vec<String>| -> usize { match lf.names.iter().position(|x| x == n) { Some(i) => i, None => { problems.push(format!("{} not in the layout of {}", n, f)); 9999 } } };
        match &d.kind {
            FnKind::AddK(k) => { ops.push("OReturn".into()); ops.push(format!("OPrintConst {}", zc(arg + k + add))); (ops, false) }
            FnKind::ReadG(gv) => { ops.push(format!("OPrintIdx {} {}", fidx(gv, problems), zc(arg + add))); ops.push("OReturn".into()); (ops, false) }
            FnKind::BumpG(gv) => { let i = fidx(gv, problems); ops.push(format!("OAddIdx {} {}", i, zc(arg))); ops.push(format!("OPrintIdx {} {}", i, zc(add))); ops.push("OReturn".into()); (ops, false) }
            FnKind::Bump0(gv) => { let i = fidx(gv, problems); ops.push(format!("OAddIdx {} {}", i, zc(arg))); ops.push("OReturn".into());
                                   if host.is_some() { ops.push("OPrintConst 999999997".into()); } (ops, false) }
            FnKind::Boom | FnKind::Loop => { ops.push("OFail".into()); (ops, true) }
            FnKind::CallF(t, k) => {
                let _ = arg; let (inner, failed) = emit_call(t, arg_of(t), add + k, fns, fn_lay, names, problems, None);
                ops.extend(inner);
                if !failed { ops.push("OReturn".into()); }
                (ops, failed)
            }
            FnKind::Closure(t) => {
                let _ = arg; let (inner, failed) = emit_call(t, arg_of(t), add, fns, fn_lay, names, problems, None);
                ops.extend(inner);
                if !failed { ops.push("OReturn".into()); }
                (ops, failed)
            }
            FnKind::ClosureBump(t, gv) => {
                let _ = arg; let (inner, failed) = emit_call(t, arg_of(t), add, fns, fn_lay, names, problems, None);
                ops.extend(inner);
                if !failed { ops.push(format!("OAddIdx {} 1", fidx(gv, problems))); ops.push("OReturn".into()); }
                (ops, failed)
            }
            FnKind::Apply => { problems.push(format!("{} is called without a function argument", f)); (ops, false) }
        }
    }

    // ------------------------------------------------------------------ the session as terms of Model/Session.v
    /// code : list (N * fdef), steps : list step, and the observations the real session must show
    pub struct SessX { pub code: Vec<String>, pub steps: Vec<String>, pub expect: Vec<String>, pub ok: bool, pub why: String, pub next_fid: u64,
                       pub by_id: HashMap<usize, Vec<String>>, pub by_names: HashMap<Vec<String>, usize> }
    pub fn line_code(l: &str) -> i64 {
        if let Ok(n) = l.parse::<i64>() { return n; }
        let num = |p: &str| l.strip_prefix(p).and_then(|x| x.parse::<i64>().ok());
        if let Some(n) = num("s") { return 1_000_000 + n; }
        if let Some(n) = num("T") { return 3_000_000 + n; }
        if let Some(n) = num("p") { return 4_000_000 + n; }
        if let Some(n) = num("unreached") { return 5_000_000 + n; }
        if l == "null" { return 6_000_000; }
        999_999_999
    }
    impl SessX {
        pub fn new() -> Self { SessX { code: vec![], steps: vec![], expect: vec![], ok: true, why: String::new(), next_fid: 1, by_id: HashMap::new(), by_names: HashMap::new() } }
        pub fn fail(&mut self, why: String) { if self.ok { self.ok = false; self.why = why; } }
        /// a layout term; also the contract the model relies on: a layout id names one list of names and vice versa
        /// (GlobalLayout::new interns), checked on every layout that is used
        pub fn layout(&mut self, l: &Lay, names: &mut Names, problems: &mut Vec<String>) -> String {
            if let Some(prev) = self.by_id.get(&l.id) { if *prev != l.names { problems.push(format!("layout id {} names two layouts", l.id)); } }
            if let Some(prev) = self.by_names.get(&l.names) { if *prev != l.id { problems.push(format!("one list of names has two layout ids ({} and {})", prev, l.id)); } }
            if l.names.is_empty() != (l.id == 0) { problems.push(format!("layout id {} / empty names mismatch", l.id)); }
            self.by_id.insert(l.id, l.names.clone()); self.by_names.insert(l.names.clone(), l.id);
            let ns: Vec<String> = l.names.iter().map(|n| if n.is_empty() { "None".to_string() } else { format!("Some {}%N", names.id(n)) }).collect();
            format!("[{}]", ns.join("; "))
        }
        pub fn add_fn(&mut self, lay: String, arity: u32, body: Vec<String>) -> u64 {
            let fid = self.next_fid; self.next_fid += 1;
            self.code.push(format!("({}%N, mkF {} {}%N [{}])", fid, lay, arity, body.join("; ")));
            fid
        }
    }
    /// body of a generated function as instructions of the session model (the result is printed by the function that
    /// computes it: nothing is printed between its return and the caller's println)
    pub fn fn_body(name: &str, def: &FnDef, names: &mut Names) -> (u32, Vec<String>) {
        let a = arg_of(name);
        let tag = format!("IOut {}", zc(line_code(&def.tag)));
        let (ar, body) = fn_body_tagged(name, def, names, a, tag.clone());
        (ar, if def.tag.is_empty() { body.into_iter().filter(|i| *i != tag).collect() } else { body })
    }
    fn fn_body_tagged(name: &str, def: &FnDef, names: &mut Names, a: i64, tag: String) -> (u32, Vec<String>) {
        match &def.kind {
            FnKind::AddK(k) => (1, vec![tag, format!("IOut {}", zc(a + k))]),
            FnKind::ReadG(g) => (1, vec![tag, format!("IPrint {}%N {}", names.id(g), zc(a))]),
            FnKind::BumpG(g) => (1, vec![tag, format!("IAdd {}%N {}", names.id(g), zc(a)), format!("IPrint {}%N 0", names.id(g))]),
            FnKind::Bump0(g) => (1, vec![tag, format!("IAdd {}%N {}", names.id(g), zc(a)), "IOut 6000000".to_string()]),
            FnKind::Loop => (1, vec![format!("ICall (CGlobal {}%N) 1%N None", names.id(name))]),
            FnKind::Boom => (1, vec![tag, "IFail".to_string()]),
            FnKind::CallF(t, _) | FnKind::Closure(t) => (1, vec![tag, format!("ICall (CGlobal {}%N) 1%N None", names.id(t))]),
            FnKind::ClosureBump(t, g) => (1, vec![tag, format!("ICall (CGlobal {}%N) 1%N None", names.id(t)), format!("IAdd {}%N 1", names.id(g))]),
            FnKind::Apply => (2, vec!["ICall CArg 1%N None".to_string()]),
        }
    }

    pub struct CaseOut { pub s_code: String, pub s_steps: String, pub s_expect: String, pub s_ok: bool, pub s_why: String, pub query: String, pub observed: String, pub real_steps: String, pub oracle_steps: String, pub source: String,
                         pub problems: Vec<String>, pub kinds: String, pub stale_entry: bool }

    pub fn run_case(seed: u64, opt: u32) -> CaseOut {
        let mut g = Gen::new(seed);
        let mut vm = aelys_driver::new_vm_with_config(Default::default(), Vec::new()).unwrap();
        let mut names = Names { ids: HashMap::new(), order: vec![] };
        let mut fn_lay: HashMap<String, Lay> = HashMap::new();
        let mut seen_tops: HashSet<(usize, usize)> = live_functions(&vm).into_iter().map(|(i, a, _)| (i, a)).collect();
        let mut problems: Vec<String> = Vec::new();
        let (mut q_steps, mut obs_steps, mut real_steps, mut oracle_steps, mut srcs): (Vec<String>, Vec<String>, Vec<String>, Vec<String>, Vec<String>) = (vec![], vec![], vec![], vec![], vec![]);
        let nsteps = 5 + g.rng.below(10) as usize;
        let mut kinds: HashMap<&'static str, usize> = HashMap::new();
        let mut stale_entry = false;
        let mut sx = SessX::new();
        let mut handles: HashMap<String, aelys_driver::CallableFunction> = HashMap::new();
        let mut loaded_mods: HashSet<usize> = HashSet::new();   // user modules whose top level has run in this session
        let mut old_model_off = false;                          // Model/GlobalsSync.v has no by-name set: its query ends there
        // the session's working directory: `needs <module>` in a REPL input is resolved relative to the current
        // directory (driver/src/api/repl.rs: cwd.join("repl.aelys"))
        let dir = std::env::temp_dir().join(format!("hx_repl_{}_{}", std::process::id(), seed));
        let _ = std::fs::create_dir_all(&dir);
        for m in &g.modules { let _ = std::fs::write(dir.join(format!("{}.aelys", m.name)), Gen::module_source(m)); }
        let _ = std::fs::write(dir.join("ubad.aelys"), "pub fn ( {\n");   // a module that does not compile
        let _ = std::env::set_current_dir(&dir);
        let mut k = 0usize;
        while k < nsteps || (!g.pending.is_empty() && k < nsteps + 16) {
            let step = g.step(k == 0, k >= nsteps);
            k += 1;
            if let Step::Gc(on) = &step {
                aelys_runtime::verif::gc_mode_set(if *on { 2 } else { 0 }, 0);
                continue;
            }
            // a call through a kept handle is a host call by name as far as the models are concerned
            let (step, held) = match step { Step::CallHeld { f, arg } => (Step::Host { f, arg, cached: true, extra: false }, true), st => (st, false) };
            let mut skip_obs = false;
            let mut ops: Vec<String> = Vec::new();
            let (r, o): (StepOut, OStep);
            match &step {
                Step::Input { stmts, expect } => {
                    *kinds.entry(match expect { Expect::Ok => "input-ok", Expect::CompileError => "input-compile-error", Expect::RuntimeError => "input-runtime-error" }).or_insert(0) += 1;
                    if stmts.iter().any(|s| matches!(s, Stmt::Needs { fails: false, .. })) { *kinds.entry("input-import").or_insert(0) += 1; }
                    if stmts.iter().any(|s| matches!(s, Stmt::Needs { fails: true, .. })) { *kinds.entry("input-failing-import").or_insert(0) += 1; }
                    if stmts.iter().any(|s| matches!(s, Stmt::PrintExpr { bump: Some(_), .. })) { *kinds.entry("input-calls-stateful-module-function").or_insert(0) += 1; }
                    if stmts.iter().any(|s| matches!(s, Stmt::PrintExpr { .. })) { *kinds.entry("input-uses-imported-name").or_insert(0) += 1; }
                    let src = render(stmts);
                    let before = g.o.clone();
                    // the top-level function of a module is garbage as soon as the module has run; it is looked at below
                    // (its layout), so no collection while an input that loads a user module runs
                    let loads_module = stmts.iter().any(|s| matches!(s, Stmt::Needs { module: Some(_), .. }));
                    if loads_module { aelys_runtime::verif::gc_mode_set(1, 0); }
                    // function objects alive before the input (heap indices and buffer addresses are reused after a collection,
                    // so "new" is decided against what is alive right now, not against everything ever seen)
                    seen_tops = live_functions(&vm).into_iter().map(|(i, a, _)| (i, a)).collect();
                    r = repl_input(&mut vm, &src, opt);
                    o = g.o.input(stmts, *expect);
                    g.prune_dangling();
                    srcs.push(src);
                    ops.push("OClearFrames".into());
                    // the unnamed function objects that are new: the top-level functions of the modules this input loaded
                    // and of the input's own unit
                    let new_tops: Vec<(usize, usize)> = live_functions(&vm).into_iter().filter(|(i, a, n)| (n.is_none() || g.modules.iter().any(|m| Some(&m.name) == n.as_ref())) && !seen_tops.contains(&(*i, *a))).map(|(i, a, _)| (i, a)).collect();
                    for c in &new_tops { seen_tops.insert(*c); }
                    let mut tops: Vec<Function> = new_tops.iter().filter_map(|(i, _)| function_at(&vm, *i)).collect();
                    if loads_module { aelys_runtime::verif::gc_mode_set(0, 0); }
                    // session model: the module units (recognised by their nested functions) with their by-name export registration
                    let mut s_imports: Vec<String> = Vec::new();
                    for st in stmts {
                        if let Stmt::Needs { fails: true, .. } = st { s_imports.push("mkMU 0%N true [] [] []".to_string()); }
                        if let Stmt::Needs { module: Some((mi, form, alias)), fails: false, .. } = st {
                            let m = &g.modules[*mi];
                            let first = m.fns[0].0.clone();
                            let export_list = |names: &mut Names| -> String {
                                let all: Vec<String> = m.fns.iter().map(|x| x.0.clone()).chain(m.consts.iter().map(|x| x.0.clone())).chain([m.bump.clone(), m.counter.clone()]).collect();
                                let mut ex: Vec<(String, String)> = Vec::new();
                                match form {
                                    0 => for n in &all { ex.push((format!("{}::{}", m.name, n), n.clone())); ex.push((n.clone(), n.clone())); },
                                    1 => for n in &all { ex.push((format!("{}::{}", alias, n), n.clone())); },
                                    _ => { ex.push((alias.clone(), alias.clone())); ex.push((m.consts[0].0.clone(), m.consts[0].0.clone())); }
                                }
                                ex.iter().map(|(a, b)| format!("({}%N, {}%N)", names.id(a), names.id(b))).collect::<Vec<_>>().join("; ")
                            };
                            if loaded_mods.contains(mi) {
                                // loaded by an earlier input: its top level does not run again, the exports are registered
                                s_imports.push(format!("mkMU {}%N false [] [] [{}]", *mi + 1, export_list(&mut names)));
                                continue;
                            }
                            match tops.iter().position(|f| f.nested_functions.iter().any(|n| n.name.as_deref() == Some(first.as_str()))) {
                                Some(p) => {
                                    let mt = tops.remove(p);
                                    let lay = sx.layout(&lay_of(&mt), &mut names, &mut problems);
                                    let mut body: Vec<String> = Vec::new();
                                    for (f, _) in &m.fns {
                                        match mt.nested_functions.iter().find(|n| n.name.as_deref() == Some(f.as_str())) {
                                            Some(nf) => { let l = sx.layout(&lay_of(nf), &mut names, &mut problems); let fid = sx.add_fn(l, 1, vec![]);
                                                          body.push(format!("IDef {}%N {}%N", names.id(f), fid)); }
                                            None => sx.fail(format!("module function {} not found", f)),
                                        }
                                    }
                                    for (c, v) in &m.consts { body.push(format!("ISet {}%N (VInt {})", names.id(c), zc(*v))); }
                                    body.push(format!("ISet {}%N (VInt 0)", names.id(&m.counter)));
                                    match mt.nested_functions.iter().find(|n| n.name.as_deref() == Some(m.bump.as_str())) {
                                        Some(nf) => { let l = sx.layout(&lay_of(nf), &mut names, &mut problems);
                                                      let cn = names.id(&m.counter);
                                                      let fid = sx.add_fn(l, 1, vec![format!("IAdd {}%N 1", cn), format!("IPrint {}%N 0", cn)]);
                                                      body.push(format!("IDef {}%N {}%N", names.id(&m.bump), fid)); }
                                        None => sx.fail(format!("module function {} not found", m.bump)),
                                    }
                                    body.push(format!("IOut {}", m.load_code));
                                    s_imports.push(format!("mkMU {}%N false {} [{}] [{}]", *mi + 1, lay, body.join("; "), export_list(&mut names)));
                                    loaded_mods.insert(*mi);
                                }
                                None => { if std::env::var("HX_DEBUG").is_ok() { eprintln!("input {:?} class {} detail {}", srcs.last(), r.class, r.detail.chars().take(200).collect::<String>()); eprintln!("new fns: {:?}", live_functions(&vm).into_iter().map(|(i, _, n)| (i, n, function_at(&vm, i).map(|f| f.nested_functions.iter().map(|x| x.name.clone()).collect::<Vec<_>>()))).collect::<Vec<_>>()); }
                                          sx.fail("the module's top-level function was not found".into()) }
                            }
                        }
                    }
                    let mut s_body: Vec<String> = Vec::new();
                    let mut s_ltop = "[]".to_string();
                    if *expect != Expect::CompileError {
                        // the unit's top-level function: the one unnamed function object that is left
                        let cands = tops;
                        if cands.len() == 1 {
                            let top = cands[0].clone();
                            let ltop = lay_of(&top);
                            s_ltop = sx.layout(&ltop, &mut names, &mut problems);
                            let mut unit_lay: HashMap<String, Lay> = HashMap::new();
                            for n in &top.nested_functions { if let Some(nm) = &n.name { unit_lay.insert(nm.clone(), lay_of(n)); } }
                            let idx_in = |l: &Lay, n: &str| -> Option<usize> { l.names.iter().position(|x| x == n) };
                            ops.push("OMutability []".into());
                            ops.push(format!("OExecute {}", coq_layout(&ltop, &mut names)));
                            let mut cur = before.clone();          // oracle state while walking the statements
                            let mut failed = false;
                            for st in stmts {
                                if failed { break; }
                                let mut top_idx = |n: &str, problems: &mut Vec<String>| -> usize { match idx_in(&ltop, n) { Some(i) => i, None => { problems.push(format!("{} not in the unit's layout", n)); 9999 } } };
                                match st {
                                    Stmt::Let { name, val, .. } => s_body.push(format!("ISet {}%N (VInt {})", names.id(name), zc(code_of_val(val)))),
                                    Stmt::SetLit { name, val } => s_body.push(format!("ISet {}%N (VInt {})", names.id(name), zc(*val))),
                                    Stmt::AddTo { name, k } => s_body.push(format!("IAdd {}%N {}", names.id(name), zc(*k))),
                                    Stmt::Def { name, def } => match unit_lay.get(name).cloned().or_else(|| if def.lambda || matches!(def.kind, FnKind::Closure(_) | FnKind::ClosureBump(..)) { layout_of_global(&vm, name) } else { None }) {
                                        Some(l) => { let l = &l; if def.lambda || matches!(def.kind, FnKind::Closure(_) | FnKind::ClosureBump(..)) { fn_lay.insert(name.clone(), l.clone()); } let ls = sx.layout(l, &mut names, &mut problems); let (ar, b) = fn_body(name, def, &mut names); let fid = sx.add_fn(ls, ar, b);
                                                     s_body.push(format!("IDef {}%N {}%N", names.id(name), fid)); }
                                        None => sx.fail(format!("no nested function {}", name)),
                                    },
                                    Stmt::CopyFn { dst, src, .. } => { s_body.push(format!("ICopy {}%N {}%N", names.id(dst), names.id(src)));
                                        if let Some(l) = fn_lay.get(src).cloned() { fn_lay.insert(dst.clone(), l); } }
                                    Stmt::Quiet => {}
                                    Stmt::Script { .. } => { sx.fail("source outside the modelled fragment".into()); old_model_off = true; }
                                    Stmt::PrintVar { name } => s_body.push(format!("IPrint {}%N 0", names.id(name))),
                                    Stmt::PrintLit { text } => s_body.push(format!("IOut {}", zc(line_code(text)))),
                                    Stmt::Needs { .. } => {}
                                    Stmt::PrintExpr { global: Some(gn), bump: Some(_), .. } => s_body.push(format!("ICall (CGlobal {}%N) 1%N None", names.id(gn))),
                                    Stmt::PrintExpr { value, global, is_fn, .. } => match global {
                                        Some(gn) if *is_fn => { s_body.push(format!("ICall (CGlobal {}%N) 1%N None", names.id(gn))); s_body.push(format!("IOut {}", zc(*value))); }
                                        Some(gn) if ltop.names.iter().any(|x| x == gn) => s_body.push(format!("IPrint {}%N 0", names.id(gn))),
                                        _ => s_body.push(format!("IOut {}", zc(*value))),
                                    },
                                    Stmt::Raw { .. } => s_body.push("IFail".into()),
                                    Stmt::PrintApply { a, f, .. } => s_body.push(format!("ICall (CGlobal {}%N) 2%N (Some {}%N)", names.id(a), names.id(f))),
                                    Stmt::PrintCall { f, .. } => s_body.push(format!("ICall (CGlobal {}%N) 1%N None", names.id(f))),
                                }
                                match st {
                                    Stmt::Let { name, val, .. } => ops.push(format!("OSetIdx {} {}", top_idx(name, &mut problems), zc(code_of_val(val)))),
                                    Stmt::SetLit { name, val } => ops.push(format!("OSetIdx {} {}", top_idx(name, &mut problems), zc(*val))),
                                    Stmt::AddTo { name, k } => ops.push(format!("OAddIdx {} {}", top_idx(name, &mut problems), zc(*k))),
                                    Stmt::Def { name, def } => { if let Some(l) = unit_lay.get(name) { fn_lay.insert(name.clone(), l.clone()); }
                                        ops.push(format!("OSetIdx {} {}", top_idx(name, &mut problems), 2_000_000 + def.tag.get(1..).and_then(|t| t.parse::<i64>().ok()).unwrap_or(0))) }
                                    Stmt::CopyFn { dst, .. } => ops.push(format!("OSetIdx {} 2999999", top_idx(dst, &mut problems))),
                                    Stmt::Quiet | Stmt::Script { .. } => {}
                                    Stmt::PrintVar { name } => ops.push(format!("OPrintIdx {} 0", top_idx(name, &mut problems))),
                                    Stmt::PrintLit { .. } => {}
                                    Stmt::Needs { .. } => {}
                                    Stmt::PrintExpr { bump: Some(mi), .. } => ops.push(format!("OPrintConst {}", zc(cur.modn.get(mi).copied().unwrap_or(0) + 1))),
                                    Stmt::PrintExpr { value, .. } => ops.push(format!("OPrintConst {}", zc(*value))),
                                    Stmt::Raw { .. } => { ops.push("OFail".into()); failed = true; }
                                    Stmt::PrintApply { a, f, arg } => {
                                        match fn_lay.get(a).cloned() {
                                            Some(la) => {
                                                ops.push(format!("OCall {}", coq_layout(&la, &mut names)));
                                                let (o2, f2) = emit_call(f, *arg, 0, &cur.fns, &fn_lay, &mut names, &mut problems, None);
                                                // the printed value is printed by the top level after both returns; its position among
                                                // the observations is the same
                                                ops.extend(o2);
                                                if f2 { failed = true; } else { ops.push("OReturn".into()); }
                                            }
                                            None => problems.push(format!("no layout known for {}", a)),
                                        }
                                    }
                                    Stmt::PrintCall { f, arg } => {
                                        let (o2, f2) = emit_call(f, *arg, 0, &cur.fns, &fn_lay, &mut names, &mut problems, None);
                                        ops.extend(o2);
                                        if f2 { failed = true; }
                                    }
                                }
                                cur.input(std::slice::from_ref(st), Expect::Ok);
                            }
                            if !failed { ops.push("OReturn".into()); ops.push(format!("OSyncNames {}", coq_layout(&ltop, &mut names))); }
                        } else if class3(&r.class) != "compile-error" {
                            problems.push(format!("expected one new top-level function, found {}", cands.len()));
                        } else { sx.fail("the input was rejected".into()); }
                    }
                    sx.steps.push(format!("SInput [{}] {} {} [{}] [] []", s_imports.join("; "), *expect != Expect::CompileError, s_ltop, s_body.join("; ")));
                }
                Step::Gc(_) | Step::CallHeld { .. } => unreachable!(),
                Step::Hold { f } => {
                    *kinds.entry("host-takes-function-handle").or_insert(0) += 1;
                    srcs.push(format!("@hold {}\n", f));
                    let h = aelys_driver::get_function(&vm, f);
                    let okh = h.is_ok();
                    if let Ok(h) = h { handles.insert(f.clone(), h); }
                    r = StepOut { class: if okh { "ok".into() } else { "runtime:NotCallable".into() }, output: String::new(), value: String::new(), detail: String::new(), frames: vm.verif_frames_len() };
                    o = OStep { class: "ok", output: String::new(), value: String::new() };
                    skip_obs = true;
                }
                Step::HostSet { name, val } => {
                    *kinds.entry("host-set-global").or_insert(0) += 1;
                    srcs.push(format!("@set {} {}\n", name, val));
                    sx.steps.push(format!("SSet {}%N (VInt {})", names.id(name), zc(*val)));
                    vm.set_global(name.clone(), Value::int(*val));
                    let m = g.o.vars.get(name).map(|x| x.1).unwrap_or(true);
                    g.o.vars.insert(name.clone(), (Val::Int(*val), m));
                    r = StepOut { class: "ok".into(), output: String::new(), value: String::new(), detail: String::new(), frames: vm.verif_frames_len() };
                    o = OStep { class: "ok", output: String::new(), value: String::new() };
                    old_model_off = true;
                }
                Step::Host { f, arg, cached, extra } => {
                    sx.steps.push(format!("SHost {}%N {}%N VNull", names.id(f), if *extra { 2 } else { 1 }));
                    if *extra { *kinds.entry("host-call-wrong-arity").or_insert(0) += 1; }
                    *kinds.entry(if g.o.fns.get(f).map(|d| g.fails(d)).unwrap_or(false) { "host-call-failing" } else if g.o.fns.contains_key(f) { "host-call-ok" } else { "host-call-undefined" }).or_insert(0) += 1;
                    srcs.push(format!("@{} {} {}\n", if *cached { "cached" } else { "call" }, f, arg));
                    let def = g.o.fns.get(f).cloned();
                    // entry condition of a host call: an empty frame stack.  When it does not hold the step is still run and
                    // compared with the reference semantics, but it is not given to the model and the session ends there
                    stale_entry = vm.verif_frames_len() > 0;
                    if held { *kinds.entry("host-call-through-kept-handle").or_insert(0) += 1; srcs.pop(); srcs.push(format!("@callheld {} {}\n", f, arg)); }
                    r = if held { held_call(&mut vm, handles.get(f), *arg) } else { host_call_n(&mut vm, f, *arg, *cached, *extra) };
                    o = if *extra { OStep { class: "runtime-error", output: String::new(), value: String::new() } } else { g.o.host(f, *arg) };
                    if *extra {
                        // rejected by the arity check before anything is prepared or pushed: no model operations
                    } else if g.o.bump_fns.contains_key(f) {
                        // the stateful function of a module: the old operations model has no module state, its query ends here
                        *kinds.entry("host-call-stateful-module-function").or_insert(0) += 1;
                        old_model_off = true;
                    } else if let Some(kmul) = g.o.imported.get(f).copied() {
                        // a function of an imported module: its layout is read from the function object the name denotes
                        *kinds.entry("host-call-imported").or_insert(0) += 1;
                        let lay = vm.get_global(f).and_then(|v| v.as_ptr()).and_then(|p| function_at(&vm, p)).map(|fun| lay_of(&fun));
                        if let Some(l) = lay { ops.push(format!("OHostCall {} {}", coq_layout(&l, &mut names), cached)); ops.push("OReturn".into()); }
                        ops.push(format!("OPrintConst {}", zc(arg * kmul)));
                    }
                    if def.is_some() && !*extra {
                        let fns_now = { let mut m = g.o.fns.clone(); if let Some(d) = def.clone() { m.insert(f.clone(), d); } m };
                        let (o2, _f2) = emit_call(f, *arg, 0, &fns_now, &fn_lay, &mut names, &mut problems, Some(*cached));
                        ops.extend(o2);
                    }
                }
            }
            // observations: printed values (+ the host call's result), then the by-name map and the frame depth
            let mut ob: Vec<i64> = obs_of_output(&r.output);
            if matches!(step, Step::Host { .. }) && r.class == "ok" { ob.push(r.value.parse::<i64>().unwrap_or(999_999_997)); }
            if !skip_obs {
                let mut codes: Vec<i64> = r.output.lines().map(|l| line_code(l.trim_end())).collect();
                if let Step::Host { f, .. } = &step { if r.class == "ok" && !g.o.imported.contains_key(f) { codes.push(line_code(&r.value)); } }
                sx.expect.push(format!("([{}], {})", codes.iter().map(|x| zc(*x)).collect::<Vec<_>>().join("; "), if r.class == "ok" { "SOk" } else { "SErr" }));
            }
            let mut vars: Vec<String> = g.o.vars.keys().cloned().collect();
            vars.sort();
            for v in &vars { ops.push(format!("OReadMap {}", names.id(v))); ob.push(read_map(&vm, v)); }
            ops.push("OFrames".into()); ob.push(r.frames as i64);
            let failed_flag = if class3(&r.class) == "runtime-error" && !ops.is_empty() && ops.iter().any(|x| x == "OFail" || x.starts_with("OHostCall") || x.starts_with("OExecute")) { 1 } else { 0 };
            if !stale_entry && !old_model_off { q_steps.push(format!("[{}]", ops.join("; "))); }
            if !stale_entry && !old_model_off { obs_steps.push(format!("[{}]", std::iter::once(failed_flag.to_string()).chain(std::iter::once("(-7)".to_string())).chain(ob.iter().map(|x| zc(*x))).collect::<Vec<_>>().join("; "))); }
            real_steps.push(format!("{}|{}|{}", class3(&r.class), esc(&r.output), if matches!(step, Step::Host { .. }) { esc(&r.value) } else { String::new() }));
            oracle_steps.push(format!("{}|{}|{}", match o.class { "ok" => "ok", "compile-error" => "compile-error", _ => "runtime-error" }, esc(&o.output), esc(&o.value)));
            let same = real_steps.last() == oracle_steps.last() || (matches!(step, Step::Input { .. }) && class3(&r.class) == "ok" && o.class == "ok" && r.output == o.output);
            if !same || stale_entry { break; }
        }
        aelys_runtime::verif::gc_mode_set(0, 0);
        let _ = std::env::set_current_dir(std::env::temp_dir());
        let _ = std::fs::remove_dir_all(&dir);
        let mut ks: Vec<String> = kinds.iter().map(|(k, v)| format!("{}={}", k, v)).collect();
        ks.sort();
        CaseOut { s_code: format!("[{}]", sx.code.join("; ")), s_steps: format!("[{}]", sx.steps.join("; ")), s_expect: format!("[{}]", sx.expect.join("; ")), s_ok: sx.ok, s_why: sx.why.clone(),
                  query: format!("[{}]", q_steps.join("; ")), observed: format!("[{}]", obs_steps.join("; ")), real_steps: real_steps.join(" ;; "),
                  oracle_steps: oracle_steps.join(" ;; "), source: srcs.join("=====\n"), problems, kinds: ks.join(","), stale_entry }
    }
}

#[cfg(vbxq_aelys_lang_verif)]
fn main() {
    use hxlib::runner::*;
    use hxlib::*;
    use imp::*;
    quiet_panics();
    let opt = arg_u64("--opt", 1) as u32;
    if let Some(file) = arg("--session") {
        let text = std::fs::read_to_string(&file).expect("read");
        let handle = std::thread::Builder::new().stack_size(256 << 20).spawn(move || {
            let mut vm = aelys_driver::new_vm_with_config(Default::default(), Vec::new()).unwrap();
            let mut handles: std::collections::HashMap<String, aelys_driver::CallableFunction> = std::collections::HashMap::new();
            for (i, p) in text.split("\n=====\n").enumerate() {
                let t = p.trim();
                let r = if let Some(rest) = t.strip_prefix("@call ").or_else(|| t.strip_prefix("@cached ")).or_else(|| t.strip_prefix("@callx ")).or_else(|| t.strip_prefix("@cachedx ")) {
                    // @callx / @cachedx: one argument too many
                    let mut it = rest.split_whitespace();
                    let name = it.next().unwrap_or("");
                    let a: i64 = it.next().and_then(|x| x.parse().ok()).unwrap_or(0);
                    host_call_n(&mut vm, name, a, t.starts_with("@cached"), t.starts_with("@callx") || t.starts_with("@cachedx"))
                } else if t == "@gc every" || t == "@gc default" {
                    aelys_runtime::verif::gc_mode_set(if t == "@gc every" { 2 } else { 0 }, 0);
                    StepOut { class: "ok".into(), output: String::new(), value: String::new(), detail: String::new(), frames: vm.verif_frames_len() }
                } else if let Some(name) = t.strip_prefix("@hold ") {
                    // the host takes a handle (get_function) and keeps it; `@callheld NAME ARG` calls through it later
                    let h = aelys_driver::get_function(&vm, name.trim());
                    let cls = if h.is_ok() { "ok" } else { "runtime:NotCallable" };
                    if let Ok(h) = h { handles.insert(name.trim().to_string(), h); }
                    StepOut { class: cls.into(), output: String::new(), value: String::new(), detail: String::new(), frames: vm.verif_frames_len() }
                } else if let Some(rest) = t.strip_prefix("@callheld ") {
                    let mut it = rest.split_whitespace();
                    let name = it.next().unwrap_or("").to_string();
                    let a: i64 = it.next().and_then(|x| x.parse().ok()).unwrap_or(0);
                    held_call(&mut vm, handles.get(&name), a)
                } else if let Some(rest) = t.strip_prefix("@set ") {
                    // the host binds a global by name (VM::set_global)
                    let mut it = rest.split_whitespace();
                    let name = it.next().unwrap_or("").to_string();
                    let a: i64 = it.next().and_then(|x| x.parse().ok()).unwrap_or(0);
                    vm.set_global(name, aelys_runtime::Value::int(a));
                    StepOut { class: "ok".into(), output: String::new(), value: String::new(), detail: String::new(), frames: vm.verif_frames_len() }
                } else if t == "@frames" {
                    StepOut { class: "frames".into(), output: String::new(), value: String::new(), detail: String::new(), frames: vm.verif_frames_len() }
                } else { repl_input(&mut vm, p, opt) };
                println!("{}\t{}\t{}\t{}\tframes={}\t{}", i, r.class, esc(&r.output), esc(&r.value), r.frames, esc(&r.detail).chars().take(160).collect::<String>());
            }
        }).unwrap();
        handle.join().unwrap();
        return;
    }
    let seed = arg_u64("--seed", 0);
    let n = arg_u64("--n", 100);
    let handle = std::thread::Builder::new().stack_size(256 << 20).spawn(move || {
        for i in 0..n {
            let case_seed = seed.wrapping_mul(1_000_003).wrapping_add(i);
            let o = if i % 5 == 4 { 0 } else { opt };
            let c = imp::run_case(case_seed, o);
            println!("CASE\t{}\t{}\t{}\t{}\t{}\t{}\t{}\t{}\t{}", case_seed, c.query, c.observed, c.real_steps, c.oracle_steps, esc(&c.source), esc(&c.problems.join(" | ")), c.kinds, c.stale_entry as u8);
            println!("SESS\t{}\t{}\t{}\t{}\t{}\t{}", case_seed, c.s_ok as u8, c.s_code, c.s_steps, c.s_expect, esc(&c.s_why));
        }
    }).unwrap();
    handle.join().unwrap();
}
#[cfg(not(vbxq_aelys_lang_verif))]
fn main() { eprintln!("built without hooks"); std::process::exit(2); }
