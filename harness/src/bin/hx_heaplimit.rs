//! C10 tie: every allocating primitive x sizes around the configured limit, each case in a CHILD
//! PROCESS (an allocator abort is then a signal, not a lost harness).
//!
//!   hx_heaplimit [--seed S] [--random N] [--opts 0,2] [--cap-mib M] [--corpus f1,f2]
//!       parent: prints one line per case
//!       <case id>\t<op>\t<size>\t<limit>\t<opt>\t<Coq query>\t<observation>\t<detail>
//!       observation = kind  delta_accounting  vm_growth_kib
//!         kind: 0 ok, 1 OutOfMemory, 2 InvalidAllocationSize, 3 TypeError (incl. byte-buffer size errors),
//!               5 panic (Rust panic inside the VM, caught), 6 abort / killed by signal, 7 timeout, 9 other
//!   hx_heaplimit child --limit L --opt O --cap-mib M --op OP --size N
//!       runs the three-input REPL session for (OP, N) on a fresh VM with max_heap_bytes = L and an
//!       address-space limit (RLIMIT_AS) of M MiB; prints `RESULT <kind> <accounting before> <after> <VmPeak kib before> <after> <detail>`
use hxlib::*;

const OPS: &[&str] = &["array_int", "array_float", "array_bool", "array_obj",
                       "vec_push", "vec_push_float", "vec_push_bool", "vec_push_obj",
                       "vec_reserve", "vec_reserve_float", "vec_reserve_bool", "vec_reserve_obj",
                       "manual_alloc", "manual_reuse", "bytes_alloc",
                       "string_repeat", "string_repeat_mb", "pad_left", "pad_right", "pad_left_mb", "pad_right_mb",
                       "concat_double", "vec_new_lit", "closures"];

/// (prelude, operation input).  The operation input is the same text for every size: the size is the
/// global `n` set by the prelude, so that the compiled code (charged to the heap) is identical and
/// accounting deltas are comparable between sizes.
fn program(op: &str, n: i128) -> Option<(String, String)> {
    // every global is used in the prelude itself: at -O2 an unused top-level `let` is deleted and later inputs would not compile
    // pc: a three-byte pad character, se: a six-byte / two-character repeat unit
    let pre = format!("let mut n = {}\nlet mut sx = \"0123456789abcdef\"\nlet mut pc = \"€\"\nlet mut se = \"€€\"\nlet mut used = 0\nused = sx.len() + pc.len() + se.len()\nused = n\nused\n", n);
    let body = match op {
        "array_int" => "let a = Array<Int>(n)\nused = a.len()\nused\n",
        "array_float" => "let a = Array<Float>(n)\nused = a.len()\nused\n",
        "array_bool" => "let a = Array<Bool>(n)\nused = a.len()\nused\n",
        "array_obj" => "let a = Array(n)\nused = a.len()\nused\n",
        "vec_push" => "let v = Vec<Int>[1]\nlet mut i = 0\nwhile i < n {\n  v.push(i)\n  i = i + 1\n}\nused = v.len()\nused\n",
        "vec_push_float" => "let v = Vec<Float>[1.5]\nlet mut i = 0\nwhile i < n {\n  v.push(2.5)\n  i = i + 1\n}\nused = v.len()\nused\n",
        "vec_push_bool" => "let v = Vec<Bool>[true]\nlet mut i = 0\nwhile i < n {\n  v.push(true)\n  i = i + 1\n}\nused = v.len()\nused\n",
        "vec_push_obj" => "let v = Vec[sx]\nlet mut i = 0\nwhile i < n {\n  v.push(sx)\n  i = i + 1\n}\nused = v.len()\nused\n",
        "vec_reserve" => "let v = Vec<Int>[1]\nv.reserve(n)\nused = v.capacity()\nused\n",
        "vec_reserve_float" => "let v = Vec<Float>[1.5]\nv.reserve(n)\nused = v.capacity()\nused\n",
        "vec_reserve_bool" => "let v = Vec<Bool>[true]\nv.reserve(n)\nused = v.capacity()\nused\n",
        "vec_reserve_obj" => "let v = Vec[sx]\nv.reserve(n)\nused = v.capacity()\nused\n",
        // the second allocation lands in the slot the free() has just released
        "manual_reuse" => "let a = alloc(n)\nfree(a)\nlet b = alloc(n)\nlet c = alloc(n)\nused = b + c\nused\n",
        "string_repeat_mb" => "let s = se.repeat(n)\nused = s.len()\nused\n",
        "pad_left_mb" => "let s = sx.pad_left(n, pc)\nused = s.len()\nused\n",
        "pad_right_mb" => "let s = sx.pad_right(n, pc)\nused = s.len()\nused\n",
        "manual_alloc" => "let p = alloc(n)\nused = p\nused\n",
        "bytes_alloc" => "needs std.bytes\nlet b = bytes.alloc(n)\nused = bytes.size(b)\nused\n",
        "string_repeat" => "let s = sx.repeat(n)\nused = s.len()\nused\n",
        "pad_left" => "let s = sx.pad_left(n, \" \")\nused = s.len()\nused\n",
        "pad_right" => "let s = sx.pad_right(n, \" \")\nused = s.len()\nused\n",
        "concat_double" => "let mut s = sx\nlet mut i = 0\nwhile i < n {\n  s = s + s\n  i = i + 1\n}\nused = s.len()\nused\n",
        "vec_new_lit" => "let v = Vec<Int>[1, 2, 3, 4]\nlet mut i = 0\nlet mut keep = Vec[v]\nwhile i < n {\n  keep.push(Vec<Int>[1, 2, 3, 4])\n  i = i + 1\n}\nused = keep.len()\nused\n",
        "closures" => "fn mk(k) {\n  return fn(x) { return x + k }\n}\nlet mut keep = Vec[mk(0)]\nlet mut i = 0\nwhile i < n {\n  keep.push(mk(i))\n  i = i + 1\n}\nused = keep.len()\nused\n",
        _ => return None,
    };
    Some((pre, body.to_string()))
}

#[repr(C)]
struct RLimit { cur: u64, max: u64 }
unsafe extern "C" { fn setrlimit(resource: i32, rlim: *const RLimit) -> i32; }
const RLIMIT_AS: i32 = 9;

fn vm_peak_kib() -> u64 {
    std::fs::read_to_string("/proc/self/status").ok().and_then(|s| {
        s.lines().find(|l| l.starts_with("VmPeak:")).and_then(|l| l.split_whitespace().nth(1).and_then(|x| x.parse().ok()))
    }).unwrap_or(0)
}

#[cfg(vbxq_aelys_lang_verif)]
fn child() {
    use hxlib::runner::*;
    let limit = arg_u64("--limit", 1 << 20);
    let opt = arg_u64("--opt", 0) as u32;
    let cap = arg_u64("--cap-mib", 3072);
    let op = arg("--op").unwrap_or_default();
    let size: i128 = arg("--size").and_then(|s| s.parse().ok()).unwrap_or(0);
    let lim = RLimit { cur: cap << 20, max: cap << 20 };
    unsafe { setrlimit(RLIMIT_AS, &lim); }
    quiet_panics();
    let (pre, body) = match program(&op, size) { Some(x) => x, None => { println!("RESULT 9 0 0 0 0 unknown-op"); return; } };
    let cfg = match aelys_runtime::VmConfig::new(limit) { Ok(c) => c, Err(e) => { println!("RESULT 9 0 0 0 0 config:{}", e); return; } };
    let mut vm = match aelys_driver::new_vm_with_config(cfg, Vec::new()) { Ok(v) => v, Err(e) => { println!("RESULT 9 0 0 0 0 newvm:{}", esc(&format!("{}", e))); return; } };
    let r0 = run_on_vm(&mut vm, &pre, opt, 50_000_000);
    if r0.class != "ok" { println!("RESULT 9 0 0 0 0 prelude:{}:{}", r0.class, esc(&r0.detail)); return; }
    let a0 = vm.heap().bytes_allocated() as u64 + vm.manual_heap().bytes_allocated() as u64;
    let p0 = vm_peak_kib();
    let r = run_on_vm(&mut vm, &body, opt, 200_000_000);
    let a1 = vm.heap().bytes_allocated() as u64 + vm.manual_heap().bytes_allocated() as u64;
    let p1 = vm_peak_kib();
    let kind = match r.class.as_str() {
        "ok" => 0, "runtime:OutOfMemory" => 1, "runtime:InvalidAllocationSize" => 2, "runtime:TypeError" => 3,
        "panic" => 5, "budget" => 7, _ => 9,
    };
    // the value is used afterwards (third input) when the operation succeeded
    let mut detail = format!("{}:{}", r.class, r.detail);
    if kind == 0 {
        let r2 = run_on_vm(&mut vm, "used\n", opt, 1_000_000);
        detail = format!("ok value={} used={}", r.value, r2.value);
    }
    println!("RESULT {} {} {} {} {} {}", kind, a0, a1, p0, p1, esc(&detail));
}

struct Case { op: String, size: i128, limit: u64, opt: u32 }

fn run_case(exe: &std::path::Path, c: &Case, cap_mib: u64, timeout_s: u64) -> (i64, i64, i64, i64, String) {
    use std::io::Read;
    use std::process::{Command, Stdio};
    let mut ch = match Command::new(exe).args(["child", "--limit", &c.limit.to_string(), "--opt", &c.opt.to_string(), "--cap-mib",
                                               &cap_mib.to_string(), "--op", &c.op, "--size", &c.size.to_string()])
        .stdout(Stdio::piped()).stderr(Stdio::piped()).spawn() { Ok(c) => c, Err(e) => return (9, 0, 0, 0, format!("spawn:{}", e)) };
    let t0 = std::time::Instant::now();
    let status = loop {
        match ch.try_wait() {
            Ok(Some(s)) => break Some(s),
            Ok(None) => {
                if t0.elapsed().as_secs() >= timeout_s { let _ = ch.kill(); let _ = ch.wait(); break None; }
                std::thread::sleep(std::time::Duration::from_millis(3));
            }
            Err(_) => break None,
        }
    };
    let mut out = String::new();
    if let Some(mut o) = ch.stdout.take() { let _ = o.read_to_string(&mut out); }
    let mut err = String::new();
    if let Some(mut e) = ch.stderr.take() { let _ = e.read_to_string(&mut err); }
    let status = match status { Some(s) => s, None => return (7, 0, 0, 0, "timeout".into()) };
    if let Some(line) = out.lines().find(|l| l.starts_with("RESULT ")) {
        let f: Vec<&str> = line.splitn(7, ' ').collect();
        if f.len() >= 6 {
            let kind: i64 = f[1].parse().unwrap_or(9);
            let a0: i64 = f[2].parse().unwrap_or(0);
            let a1: i64 = f[3].parse().unwrap_or(0);
            let p0: i64 = f[4].parse().unwrap_or(0);
            let p1: i64 = f[5].parse().unwrap_or(0);
            return (kind, a1 - a0, p1 - p0, a0, f.get(6).unwrap_or(&"").to_string());
        }
    }
    #[cfg(unix)]
    {
        use std::os::unix::process::ExitStatusExt;
        if let Some(sig) = status.signal() {
            let e = err.lines().find(|l| l.contains("memory allocation") || l.contains("panicked")).unwrap_or(err.lines().last().unwrap_or("")).to_string();
            return (6, 0, 0, 0, format!("signal {} {}", sig, runner_esc(&e)));
        }
    }
    (6, 0, 0, 0, format!("exit {:?} {}", status.code(), runner_esc(err.lines().last().unwrap_or(""))))
}
fn runner_esc(s: &str) -> String { s.replace('\t', " ").replace('\n', " ") }

fn sizes_for(op: &str, limit: u64, rng: &mut Rng, random: bool) -> Vec<i128> {
    let l = limit as i128;
    // bytes per unit of `n` for the operation
    let unit: i128 = match op {
        "array_bool" | "bytes_alloc" | "pad_left" | "pad_right" | "vec_reserve_bool" => 1,
        "pad_left_mb" | "pad_right_mb" => 3, "string_repeat_mb" => 6, "string_repeat" => 16, "manual_reuse" => 16, _ => 8 };
    if op == "concat_double" { return if random { vec![rng.range_i64(0, 24) as i128] } else { vec![-1, 0, 1, 10, 15, 16, 17, 20, 30] }; }
    if op.starts_with("vec_push") || op == "vec_new_lit" || op == "closures" {
        let per: i128 = if op == "vec_push_bool" { 1 } else if op.starts_with("vec_push") { 8 } else { 64 };
        // pushes up to and beyond the limit: the amortised doubling stops fitting, the exact fallback takes over, then OutOfMemory
        // (the model replays every push: most random counts are small, a third reaches into the region near the limit)
        return if random { vec![if rng.chance(2, 3) { rng.range_i64(0, 3000) } else { rng.range_i64(0, (l / per + 2000) as i64) } as i128] }
               else { vec![-1, 0, 1, 100, l / per / 2 + 1000, l / per - 20_000 / per, l / per] };
    }
    if random {
        return vec![match rng.below(7) {
            0 => rng.range_i64(-5, 5) as i128,
            1 => l / unit + rng.range_i64(-200, 200) as i128,
            2 => rng.range_i64(0, (l / unit) as i64) as i128,
            3 => (l - 700_000).max(0) / unit + rng.range_i64(-3000, 3000) as i128,
            4 => (1i128 << rng.range_i64(20, 46)) + rng.range_i64(-2, 2) as i128,
            // between limit/unit and limit: a multi-byte unit makes the result larger than the count suggests
            5 => rng.range_i64((l / unit) as i64, l as i64) as i128,
            _ => -(1i128 << rng.range_i64(1, 46)),
        }];
    }
    vec![-1, 0, 1, 2, 1000, l / unit / 2, l / unit - 100_000 / unit, l / unit - 1, l / unit, l / unit + 1, 2 * l / unit,
         l / 2, l - 200_000, l, 1 << 31, 100_000_000_000, (1 << 47) - 1, -(1 << 47)]
}

fn main() {
    if std::env::args().nth(1).as_deref() == Some("child") {
        #[cfg(vbxq_aelys_lang_verif)]
        child();
        return;
    }
    if std::env::args().nth(1).as_deref() == Some("sizes") {
        println!("AelysArray={} AelysVec={} AelysString={} Value={}", std::mem::size_of::<aelys_bytecode::object::AelysArray>(),
                 std::mem::size_of::<aelys_bytecode::object::AelysVec>(), std::mem::size_of::<aelys_bytecode::object::AelysString>(),
                 std::mem::size_of::<aelys_bytecode::Value>());
        return;
    }
    let exe = std::env::current_exe().expect("exe");
    let seed = arg_u64("--seed", 0);
    let random = arg_u64("--random", 0);
    let cap_mib = arg_u64("--cap-mib", 3072);
    let timeout = arg_u64("--timeout", 20);
    let opts: Vec<u32> = arg("--opts").unwrap_or("0,2".into()).split(',').filter_map(|s| s.parse().ok()).collect();
    let limits: Vec<u64> = arg("--limits").unwrap_or("1048576,2097152,16777216".into()).split(',').filter_map(|s| s.parse().ok()).collect();
    let only: Option<String> = arg("--op");
    let mut cases: Vec<Case> = vec![];
    let mut rng = Rng::new(seed);
    if let Some(list) = arg("--cases") {
        // explicit: op:size:limit:opt,...
        for it in list.split(',') {
            let f: Vec<&str> = it.split(':').collect();
            if f.len() == 4 { cases.push(Case { op: f[0].into(), size: f[1].parse().unwrap_or(0), limit: f[2].parse().unwrap_or(1 << 20), opt: f[3].parse().unwrap_or(0) }); }
        }
    } else {
        for op in OPS {
            if let Some(o) = &only { if o != op { continue; } }
            for (li, &limit) in limits.iter().enumerate() {
                for s in sizes_for(op, limit, &mut rng, false) {
                    // the structured grid runs at every limit for the boundary sizes; the long-running loops only at the smallest
                    if li > 0 && (op.starts_with("vec_push") || matches!(*op, "vec_new_lit" | "closures")) { continue; }
                    for &opt in &opts { cases.push(Case { op: op.to_string(), size: s, limit, opt }); }
                }
            }
        }
        for _ in 0..random {
            let op = *rng.pick(OPS);
            if let Some(o) = &only { if o != op { continue; } }
            let limit = if op.starts_with("vec_push") || matches!(op, "vec_new_lit" | "closures") { limits[0] } else { *rng.pick(&limits) };
            let s = sizes_for(op, limit, &mut rng, true)[0];
            let opt = *rng.pick(&opts);
            cases.push(Case { op: op.to_string(), size: s, limit, opt });
        }
    }
    // run in parallel (children are independent processes)
    let n = cases.len();
    let next = std::sync::atomic::AtomicUsize::new(0);
    let results: Vec<std::sync::Mutex<Option<(i64, i64, i64, i64, String)>>> = (0..n).map(|_| std::sync::Mutex::new(None)).collect();
    let workers = arg_u64("--jobs", 8) as usize;
    std::thread::scope(|sc| {
        for _ in 0..workers {
            sc.spawn(|| loop {
                let k = next.fetch_add(1, std::sync::atomic::Ordering::SeqCst);
                if k >= n { break; }
                let r = run_case(&exe, &cases[k], cap_mib, timeout);
                *results[k].lock().unwrap() = Some(r);
            });
        }
    });
    for (k, c) in cases.iter().enumerate() {
        let (kind, da, dp, a0, detail) = results[k].lock().unwrap().clone().unwrap();
        println!("{}\t{}\t{}\t{}\t{}\t{}\t{} {} {} {}\t{}", k, c.op, c.size, c.limit, c.opt, coq_op(&c.op), kind, da, dp, a0, detail);
    }
}
fn coq_op(op: &str) -> String {
    match op {
        "array_int" => "OArray 8".into(), "array_float" => "OArray 8".into(), "array_bool" => "OArray 1".into(), "array_obj" => "OArray 8".into(),
        "vec_push" | "vec_push_float" | "vec_push_obj" => "OVecPush 8".into(), "vec_push_bool" => "OVecPush 1".into(),
        "vec_reserve" | "vec_reserve_float" | "vec_reserve_obj" => "OVecReserve 8".into(), "vec_reserve_bool" => "OVecReserve 1".into(),
        "manual_alloc" => "OManual".into(), "manual_reuse" => "OManualReuse".into(),
        "bytes_alloc" => "OBytes".into(), "string_repeat" => "ORepeat 16".into(), "string_repeat_mb" => "ORepeat 6".into(),
        "pad_left" | "pad_right" => "OPad 16 16 1".into(), "pad_left_mb" | "pad_right_mb" => "OPad 16 16 3".into(),
        "concat_double" => "OConcatDouble 16".into(), "vec_new_lit" => "OVecLits".into(), "closures" => "OClosures".into(), o => format!("OUnknown_{}", o),
    }
}
