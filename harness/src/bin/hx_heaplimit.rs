//! C10 tie: every allocating primitive x sizes around the configured limit, each case in a CHILD
//! PROCESS (an allocator abort is then a signal, not a lost harness).
//!
//!   hx_heaplimit [--seed S] [--random N] [--opts 0,2] [--cap-mib M] [--corpus f1,f2]
//!       parent: prints one line per case
//!       <case id>\t<op>\t<size>\t<limit>\t<opt>\t<Coq query>\t<observation>\t<detail>
//!       observation = kind  delta_accounting  vm_growth_kib
//!         kind: 0 ok, 1 OutOfMemory, 2 InvalidAllocationSize, 3 TypeError (incl. byte-buffer size errors),
//!               5 panic (Rust panic inside the VM, caught), 6 abort / killed by signal, 7 timeout, 9 other
//!   hx_heaplimit child --limit L --opt O --cap-mib M --op OP --size N
//!       runs the three-input REPL session for (OP, N) on a fresh VM with max_heap_bytes = L and an
//!       address-space limit (RLIMIT_AS) of M MiB; prints `RESULT <kind> <accounting before> <after> <VmPeak kib before> <after> <detail>`
use hxlib::*;

const OPS: &[&str] = &["array_int", "array_float", "array_bool", "array_obj",
                       "vec_push", "vec_push_float", "vec_push_bool", "vec_push_obj",
                       "vec_reserve", "vec_reserve_float", "vec_reserve_bool", "vec_reserve_obj",
                       "vec_fill", "vec_fill_float", "vec_fill_bool", "vec_fill_obj",
                       "manual_alloc", "manual_reuse", "bytes_alloc",
                       "string_repeat", "string_repeat_mb", "pad_left", "pad_right", "pad_left_mb", "pad_right_mb",
                       "replace_sq", "join_sq", "str_literal", "churn", "churn_mix", "churn_over", "bytes_many", "bytes_clone", "bytes_resize", "bytes_cycle", "bytes_from_string", "fs_read_bytes", "net_udp_recv_from", "net_udp_recv", "net_recv_bytes", "net_recv",
                       "concat_double", "vec_new_lit", "closures", "string_derived"];

/// (prelude, operation input).  The operation input is the same text for every size: the size is the
/// global `n` set by the prelude, so that the compiled code (charged to the heap) is identical and
/// accounting deltas are comparable between sizes.
fn program(op: &str, n: i128, limit: u64) -> Option<(String, String)> {
    // every global is used in the prelude itself: at -O2 an unused top-level `let` is deleted and later inputs would not compile
    // pc: a three-byte pad character, se: a six-byte / two-character repeat unit
    let pre = format!("let mut n = {}\nlet mut sx = \"0123456789abcdef\"\nlet mut pc = \"€\"\nlet mut se = \"€€\"\nlet mut rsv = {}\nlet mut used = 0\nused = sx.len() + pc.len() + se.len() + rsv\nused = n\nused\n", n, fill_reserve(op, limit));
    if op.starts_with("net_") {
        // std.net receive natives against a loopback peer that lives in this process (see child): the peer answers with 13 bytes;
        // the receive buffer is built for the REQUESTED maximum n (net.recv: a 64 KiB chunk buffer)
        let port = NET_PORT.load(Ordering::SeqCst);
        let body = match op {
            "net_udp_recv_from" => format!("needs std.net as net\nlet s = net.udp_bind(\"127.0.0.1\", 0)\nnet.udp_send_to(s, \"hi\", \"127.0.0.1:{}\")\nlet d = net.udp_recv_from(s, n, 0)\nused = n\nused\n", port),
            "net_udp_recv" => format!("needs std.net as net\nlet s = net.udp_bind(\"127.0.0.1\", 0)\nnet.udp_connect(s, \"127.0.0.1\", {})\nnet.udp_send(s, \"hi\")\nlet d = net.udp_recv(s, n)\nused = n\nused\n", port),
            "net_recv_bytes" => format!("needs std.net as net\nlet s = net.connect(\"127.0.0.1\", {})\nlet d = net.recv_bytes(s, n)\nused = n\nused\n", port),
            _ => format!("needs std.net as net\nlet s = net.connect(\"127.0.0.1\", {})\nlet d = net.recv(s)\nused = n\nused\n", port),
        };
        return Some((pre, body));
    }
    if op == "str_literal" {
        // a string constant of n bytes in the source: charged when the compile heap is merged into the VM's heap
        let lit: String = std::iter::repeat('x').take(n.max(0) as usize).collect();
        return Some((pre, format!("let s = \"{}\"\nused = s.len()\nused\n", lit)));
    }
    let body = match op {
        "array_int" => "let a = Array<Int>(n)\nused = a.len()\nused\n",
        "array_float" => "let a = Array<Float>(n)\nused = a.len()\nused\n",
        "array_bool" => "let a = Array<Bool>(n)\nused = a.len()\nused\n",
        "array_obj" => "let a = Array(n)\nused = a.len()\nused\n",
        "vec_push" => "let v = Vec<Int>[1]\nlet mut i = 0\nwhile i < n {\n  v.push(i)\n  i = i + 1\n}\nused = v.len()\nused\n",
        "vec_push_float" => "let v = Vec<Float>[1.5]\nlet mut i = 0\nwhile i < n {\n  v.push(2.5)\n  i = i + 1\n}\nused = v.len()\nused\n",
        "vec_push_bool" => "let v = Vec<Bool>[true]\nlet mut i = 0\nwhile i < n {\n  v.push(true)\n  i = i + 1\n}\nused = v.len()\nused\n",
        "vec_push_obj" => "let v = Vec[sx]\nlet mut i = 0\nwhile i < n {\n  v.push(sx)\n  i = i + 1\n}\nused = v.len()\nused\n",
        "vec_reserve" => "let v = Vec<Int>[1]\nv.reserve(n)\nused = v.capacity()\nused\n",
        "vec_reserve_float" => "let v = Vec<Float>[1.5]\nv.reserve(n)\nused = v.capacity()\nused\n",
        "vec_reserve_bool" => "let v = Vec<Bool>[true]\nv.reserve(n)\nused = v.capacity()\nused\n",
        "vec_reserve_obj" => "let v = Vec[sx]\nv.reserve(n)\nused = v.capacity()\nused\n",
        // reserve close to the limit, then push: the pushes that fit are free, then the amortised doubling no longer fits
        // and every push grows the storage by exactly one element until the limit refuses
        "vec_fill" => "let v = Vec<Int>[1]\nv.reserve(rsv)\nlet mut i = 0\nwhile i < n {\n  v.push(i)\n  i = i + 1\n}\nused = v.len()\nused\n",
        "vec_fill_float" => "let v = Vec<Float>[1.5]\nv.reserve(rsv)\nlet mut i = 0\nwhile i < n {\n  v.push(2.5)\n  i = i + 1\n}\nused = v.len()\nused\n",
        "vec_fill_bool" => "let v = Vec<Bool>[true]\nv.reserve(rsv)\nlet mut i = 0\nwhile i < n {\n  v.push(true)\n  i = i + 1\n}\nused = v.len()\nused\n",
        "vec_fill_obj" => "let v = Vec[sx]\nv.reserve(rsv)\nlet mut i = 0\nwhile i < n {\n  v.push(sx)\n  i = i + 1\n}\nused = v.len()\nused\n",
        // the second allocation lands in the slot the free() has just released
        "manual_reuse" => "let a = alloc(n)\nfree(a)\nlet b = alloc(n)\nlet c = alloc(n)\nused = b + c\nused\n",
        "string_repeat_mb" => "let s = se.repeat(n)\nused = s.len()\nused\n",
        "pad_left_mb" => "let s = sx.pad_left(n, pc)\nused = s.len()\nused\n",
        "pad_right_mb" => "let s = sx.pad_right(n, pc)\nused = s.len()\nused\n",
        "manual_alloc" => "let p = alloc(n)\nused = p\nused\n",
        "bytes_alloc" => "needs std.bytes\nlet b = bytes.alloc(n)\nused = bytes.size(b)\nused\n",
        // byte buffers are data the program holds: n buffers of 64 KiB kept; a buffer and two clones; a small buffer resized to n;
        // alloc / free n times (nothing may accumulate); two buffers made from a string of 16 n bytes
        // fs.read_bytes(f, n) on a 13-byte file: the buffer of n bytes is a byte buffer -- checked against the limit before it is built
        "fs_read_bytes" => "needs std.fs as fs\nneeds std.bytes as by\nlet f = fs.open(\"/tmp/hx_c10_small.txt\", \"r\")\nlet b = fs.read_bytes(f, n)\nused = by.size(b)\nfs.close(f)\nused\n",
        "bytes_many" => "needs std.bytes\nlet mut i = 0\nlet mut t = 0\nwhile i < n {\n  let h = bytes.alloc(65536)\n  t = t + bytes.size(h)\n  i = i + 1\n}\nused = t\nused\n",
        "bytes_clone" => "needs std.bytes\nlet b = bytes.alloc(n)\nlet c = bytes.clone(b)\nlet d = bytes.clone(c)\nused = bytes.size(b) + bytes.size(c) + bytes.size(d)\nused\n",
        "bytes_resize" => "needs std.bytes\nlet b = bytes.alloc(1000)\nbytes.resize(b, n)\nused = bytes.size(b)\nused\n",
        "bytes_cycle" => "needs std.bytes\nlet mut i = 0\nwhile i < n {\n  let h = bytes.alloc(65536)\n  bytes.free(h)\n  i = i + 1\n}\nused = i\nused\n",
        "bytes_from_string" => "needs std.bytes\nlet s = sx.repeat(n)\nlet b = bytes.from_string(s)\nlet c = bytes.from_string(s)\nused = bytes.size(b) + bytes.size(c)\nused\n",
        "string_repeat" => "let s = sx.repeat(n)\nused = s.len()\nused\n",
        "pad_left" => "let s = sx.pad_left(n, \" \")\nused = s.len()\nused\n",
        "pad_right" => "let s = sx.pad_right(n, \" \")\nused = s.len()\nused\n",
        // results whose length is the PRODUCT of two strings the program holds
        "replace_sq" => "let a = \"a\".repeat(n)\nlet b = \"b\".repeat(n)\nlet r = a.replace(\"a\", b)\nused = r.len()\nused\n",
        "join_sq" => "let p = \"x\\n\".repeat(n)\nlet b = \"b\".repeat(n)\nlet r = p.join(b)\nused = r.len()\nused\n",
        // closures with a closed upvalue created and dropped across many collections, then two arrays of 45 % of the
        // limit each: they fit only if the accounting of the churned objects went back to where it started
        "churn" => "fn mk(k) {\n  return fn(x) { return x + k }\n}\nlet mut t = 0\nlet mut i = 0\nwhile i < n {\n  let c = mk(i)\n  t = t + c(1)\n  i = i + 1\n}\nlet a = Array<Int>(rsv)\nlet b = Array<Int>(rsv)\nused = a.len() + b.len() + t - t\nused\n",
        // the shape of the demo of seeded C10_r2_1: one array of 36 % of the limit, the churn, two more such arrays -- the
        // third can never fit (108 %), however often the collector ran in between
        "churn_over" => "fn mk(k) {\n  return fn(x) { return x + k }\n}\nlet k1 = Array<Int>(rsv)\nlet mut t = 0\nlet mut i = 0\nwhile i < n {\n  let c = mk(i)\n  t = t + c(1)\n  i = i + 1\n}\nlet a = Array<Int>(rsv)\nlet b = Array<Int>(rsv)\nused = k1.len() + a.len() + b.len() + t - t\nused\n",
        // the same with a string, an array and a growing vec created and dropped in every iteration as well
        "churn_mix" => "fn mk(k) {\n  return fn(x) { return x + k }\n}\nlet mut t = 0\nlet mut i = 0\nwhile i < n {\n  let c = mk(i)\n  let s = sx + sx\n  let ar = Array<Int>(8)\n  let v = Vec<Int>[1, 2]\n  v.push(i)\n  v.push(i)\n  v.push(i)\n  t = t + c(1) + s.len() + ar.len() + v.len()\n  i = i + 1\n}\nlet a = Array<Int>(rsv)\nlet b = Array<Int>(rsv)\nused = a.len() + b.len() + t - t\nused\n",
        // results of string natives that have no size pre-check of their own (the shared make_string helper is their only
        // guard): a checked string of 16 n bytes, then two derived strings of the same size
        "string_derived" => "let s = sx.repeat(n)\nlet t = s.to_upper()\nlet u = t.to_lower()\nused = s.len() + t.len() + u.len()\nused\n",
        "concat_double" => "let mut s = sx\nlet mut i = 0\nwhile i < n {\n  s = s + s\n  i = i + 1\n}\nused = s.len()\nused\n",
        "vec_new_lit" => "let v = Vec<Int>[1, 2, 3, 4]\nlet mut i = 0\nlet mut keep = Vec[v]\nwhile i < n {\n  keep.push(Vec<Int>[1, 2, 3, 4])\n  i = i + 1\n}\nused = keep.len()\nused\n",
        "closures" => "fn mk(k) {\n  return fn(x) { return x + k }\n}\nlet mut keep = Vec[mk(0)]\nlet mut i = 0\nwhile i < n {\n  keep.push(mk(i))\n  i = i + 1\n}\nused = keep.len()\nused\n",
        _ => return None,
    };
    Some((pre, body.to_string()))
}

// ---- order log: what the host allocator is asked for (requests of at least HOST_T bytes; for a realloc the
// increase) and what ensure_heap_capacity is asked (hook), in the order in which they happen.
// Fixed-size, lock-free, never allocates.
use std::alloc::{GlobalAlloc, Layout, System};
use std::sync::atomic::{AtomicU64, AtomicUsize, Ordering};
const HOST_T: usize = 64 * 1024;
const LOG_CAP: usize = 8192;
static LOG: [AtomicU64; LOG_CAP] = [const { AtomicU64::new(0) }; LOG_CAP];
static LOG_N: AtomicUsize = AtomicUsize::new(0);
static LOG_ON: AtomicUsize = AtomicUsize::new(0);
fn log_event(kind: u64, v: u64) {
    if LOG_ON.load(Ordering::Relaxed) == 0 { return; }
    let i = LOG_N.fetch_add(1, Ordering::Relaxed);
    if i < LOG_CAP { LOG[i].store((kind << 62) | (v & ((1 << 62) - 1)), Ordering::Relaxed); }
}
fn check_observer(additional: u64, fits: bool) { log_event(if fits { 2 } else { 3 }, additional); }
struct LoggingAlloc;
unsafe impl GlobalAlloc for LoggingAlloc {
    unsafe fn alloc(&self, l: Layout) -> *mut u8 { if l.size() >= HOST_T { log_event(1, l.size() as u64); } unsafe { System.alloc(l) } }
    unsafe fn alloc_zeroed(&self, l: Layout) -> *mut u8 { if l.size() >= HOST_T { log_event(1, l.size() as u64); } unsafe { System.alloc_zeroed(l) } }
    unsafe fn dealloc(&self, p: *mut u8, l: Layout) { unsafe { System.dealloc(p, l) } }
    unsafe fn realloc(&self, p: *mut u8, l: Layout, new_size: usize) -> *mut u8 {
        if new_size > l.size() && new_size - l.size() >= HOST_T { log_event(1, (new_size - l.size()) as u64); }
        unsafe { System.realloc(p, l, new_size) }
    }
}
#[global_allocator]
static GLOBAL: LoggingAlloc = LoggingAlloc;

/// elements reserved by the vec_fill operations: all but 150 000 bytes of the limit
fn fill_reserve(op: &str, limit: u64) -> i128 {
    if op == "churn_over" { return (limit as i128 * 36 / 100) / 8; }
    if op.starts_with("churn") { return (limit as i128 * 45 / 100) / 8; }
    if !op.starts_with("vec_fill") { return 0; }
    (limit as i128 - 150_000) / if op == "vec_fill_bool" { 1 } else { 8 }
}

#[repr(C)]
struct RLimit { cur: u64, max: u64 }
unsafe extern "C" { fn setrlimit(resource: i32, rlim: *const RLimit) -> i32; }
const RLIMIT_AS: i32 = 9;

fn vm_peak_kib() -> u64 {
    std::fs::read_to_string("/proc/self/status").ok().and_then(|s| {
        s.lines().find(|l| l.starts_with("VmPeak:")).and_then(|l| l.split_whitespace().nth(1).and_then(|x| x.parse().ok()))
    }).unwrap_or(0)
}

#[cfg(vbxq_aelys_lang_verif)]
static NET_PORT: std::sync::atomic::AtomicU64 = std::sync::atomic::AtomicU64::new(10000);
/// loopback peer for the std.net operations: answers every datagram / connection with 13 bytes
fn net_peer(udp: bool) -> u16 {
    if udp {
        let a = std::net::UdpSocket::bind("127.0.0.1:0").expect("udp bind on loopback");
        let port = a.local_addr().unwrap().port();
        std::thread::spawn(move || { let mut b = [0u8; 64]; while let Ok((_, src)) = a.recv_from(&mut b) { let _ = a.send_to(b"thirteen byte", src); } });
        port
    } else {
        let l = std::net::TcpListener::bind("127.0.0.1:0").expect("tcp listen on loopback");
        let port = l.local_addr().unwrap().port();
        std::thread::spawn(move || { let mut keep = vec![]; while let Ok((mut st, _)) = l.accept() { use std::io::Write; let _ = st.write_all(b"thirteen byte"); let _ = st.flush(); keep.push(st); } });
        port
    }
}
fn child() {
    use hxlib::runner::*;
    let limit = arg_u64("--limit", 1 << 20);
    let opt = arg_u64("--opt", 0) as u32;
    let cap = arg_u64("--cap-mib", 3072);
    let op = arg("--op").unwrap_or_default();
    let size: i128 = arg("--size").and_then(|s| s.parse().ok()).unwrap_or(0);
    let lim = RLimit { cur: cap << 20, max: cap << 20 };
    unsafe { setrlimit(RLIMIT_AS, &lim); }
    quiet_panics();
    if op.starts_with("net_") { NET_PORT.store(net_peer(op.starts_with("net_udp")) as u64, Ordering::SeqCst); }
    let (pre, body) = match program(&op, size, limit) { Some(x) => x, None => { println!("RESULT 9 0 0 0 0 unknown-op"); return; } };
    let mut cfg = match aelys_runtime::VmConfig::new(limit) { Ok(c) => c, Err(e) => { println!("RESULT 9 0 0 0 0 config:{}", e); return; } };
    if op.starts_with("net_") {
        cfg.capabilities.allow_net = true;
    }
    if op.starts_with("fs_") {
        cfg.capabilities.allow_fs = true;
        // children run in parallel: create the file atomically, and only when it is not there yet
        if std::fs::metadata("/tmp/hx_c10_small.txt").map(|m| m.len() != 13).unwrap_or(true) {
            let tmp = format!("/tmp/hx_c10_small.txt.{}", std::process::id());
            let _ = std::fs::write(&tmp, b"thirteen byte");
            let _ = std::fs::rename(&tmp, "/tmp/hx_c10_small.txt");
        }
    }
    let mut vm = match aelys_driver::new_vm_with_config(cfg, Vec::new()) { Ok(v) => v, Err(e) => { println!("RESULT 9 0 0 0 0 newvm:{}", esc(&format!("{}", e))); return; } };
    let r0 = run_on_vm(&mut vm, &pre, opt, 50_000_000);
    if r0.class != "ok" { println!("RESULT 9 0 0 0 0 prelude:{}:{}", r0.class, esc(&r0.detail)); return; }
    // start from a heap without garbage (and next_gc at its floor): the collector model of the string loop needs it
    vm.collect();
    let a0 = vm.heap().bytes_allocated() as u64 + vm.manual_heap().bytes_allocated() as u64;
    let p0 = vm_peak_kib();
    aelys_runtime::verif::heap_check_observer_set(Some(check_observer));
    LOG_N.store(0, Ordering::SeqCst);
    LOG_ON.store(1, Ordering::SeqCst);
    let r = run_on_vm(&mut vm, &body, opt, 200_000_000);
    LOG_ON.store(0, Ordering::SeqCst);
    aelys_runtime::verif::heap_check_observer_set(None);
    let a1 = vm.heap().bytes_allocated() as u64 + vm.manual_heap().bytes_allocated() as u64;
    let p1 = vm_peak_kib();
    // the accounting invariant, recomputed from the heap itself: bytes_allocated must be the sum of the estimates of the objects
    // that are on the heap (sweep subtracts the estimate an object has when it dies) -- now, and again after a collection
    fn heap_sum(vm: &aelys_runtime::VM) -> u64 {
        let h = vm.heap();
        (0..h.verif_slot_count()).filter_map(|i| h.get(aelys_bytecode::object::GcRef::new(i)))
            .map(|o| aelys_bytecode::Heap::estimate_object_size(o) as u64).sum()
    }
    // byte buffers the VM holds (resources), and the manual counter on its own
    let byt: u64 = (0..4096usize).filter_map(|h| match vm.get_resource(h) { Some(aelys_runtime::Resource::ByteBuffer(b)) => Some(b.data.len() as u64), _ => None }).sum();
    let man1 = vm.manual_heap().bytes_allocated() as u64;
    let (sum1, bytes1) = (heap_sum(&vm), vm.heap().bytes_allocated() as u64);
    vm.collect();
    let (sum2, bytes2) = (heap_sum(&vm), vm.heap().bytes_allocated() as u64);
    // summary of the order log: host requests, the largest, those NOT preceded by a granted limit check that covers
    // them (4 KiB slack), limit checks, refused limit checks, host requests after the first refused check
    let n_ev = LOG_N.load(Ordering::SeqCst).min(LOG_CAP);
    let (mut nhost, mut maxhost, mut uncovered, mut first_unc, mut nck, mut nfail, mut host_after_fail, mut max_ok) = (0u64, 0u64, 0u64, 0u64, 0u64, 0u64, 0u64, 0u64);
    for i in 0..n_ev {
        let e = LOG[i].load(Ordering::Relaxed);
        let (k, v) = (e >> 62, e & ((1 << 62) - 1));
        match k {
            1 => { nhost += 1; maxhost = maxhost.max(v); if v > max_ok + 4096 { uncovered += 1; if first_unc == 0 { first_unc = v; } } if nfail > 0 { host_after_fail += 1; } }
            2 => { nck += 1; max_ok = max_ok.max(v); }
            _ => { nck += 1; nfail += 1; }
        }
    }
    // the limit checks themselves (requested bytes, `!` = refused) when there are few: the per-iteration requests of the loops
    let mut cks: Vec<String> = vec![];
    if LOG_N.load(Ordering::SeqCst) <= 96 {
        for i in 0..n_ev { let e = LOG[i].load(Ordering::Relaxed); let (k, v) = (e >> 62, e & ((1 << 62) - 1));
            if k == 2 { cks.push(format!("{}", v)); } else if k == 3 { cks.push(format!("{}!", v)); } }
    }
    let ev = format!("EV:{}:{}:{}:{}:{}:{}:{}:{}:CK={}", nhost, maxhost, uncovered, first_unc, nck, nfail, host_after_fail, LOG_N.load(Ordering::SeqCst), cks.join(","));
    let ev = format!("{}:ACC={}/{}/{}/{}:BYT={}/{}", ev, sum1, bytes1, sum2, bytes2, byt, man1);
    let kind = match r.class.as_str() {
        "ok" => 0, "runtime:OutOfMemory" => 1, "runtime:InvalidAllocationSize" => 2, "runtime:TypeError" => 3,
        "panic" => 5, "budget" => 7, _ => 9,
    };
    // the value is used afterwards (third input) when the operation succeeded
    let mut detail = format!("{}:{}", r.class, r.detail);
    if kind == 0 {
        let r2 = run_on_vm(&mut vm, "used\n", opt, 1_000_000);
        detail = format!("ok value={} used={}", r.value, r2.value);
    }
    println!("RESULT {} {} {} {} {} {} {}", kind, a0, a1, p0, p1, ev, esc(&detail));
}

struct Case { op: String, size: i128, limit: u64, opt: u32 }

fn run_case(exe: &std::path::Path, c: &Case, cap_mib: u64, timeout_s: u64) -> (i64, i64, i64, i64, String) {
    use std::io::Read;
    use std::process::{Command, Stdio};
    let mut ch = match Command::new(exe).args(["child", "--limit", &c.limit.to_string(), "--opt", &c.opt.to_string(), "--cap-mib",
                                               &cap_mib.to_string(), "--op", &c.op, "--size", &c.size.to_string()])
        .stdout(Stdio::piped()).stderr(Stdio::piped()).spawn() { Ok(c) => c, Err(e) => return (9, 0, 0, 0, format!("spawn:{}", e)) };
    let t0 = std::time::Instant::now();
    let status = loop {
        match ch.try_wait() {
            Ok(Some(s)) => break Some(s),
            Ok(None) => {
                if t0.elapsed().as_secs() >= timeout_s { let _ = ch.kill(); let _ = ch.wait(); break None; }
                std::thread::sleep(std::time::Duration::from_millis(3));
            }
            Err(_) => break None,
        }
    };
    let mut out = String::new();
    if let Some(mut o) = ch.stdout.take() { let _ = o.read_to_string(&mut out); }
    let mut err = String::new();
    if let Some(mut e) = ch.stderr.take() { let _ = e.read_to_string(&mut err); }
    let status = match status { Some(s) => s, None => return (7, 0, 0, 0, "timeout".into()) };
    if let Some(line) = out.lines().find(|l| l.starts_with("RESULT ")) {
        let f: Vec<&str> = line.splitn(8, ' ').collect();
        if f.len() >= 7 {
            let kind: i64 = f[1].parse().unwrap_or(9);
            let a0: i64 = f[2].parse().unwrap_or(0);
            let a1: i64 = f[3].parse().unwrap_or(0);
            let p0: i64 = f[4].parse().unwrap_or(0);
            let p1: i64 = f[5].parse().unwrap_or(0);
            return (kind, a1 - a0, p1 - p0, a0, format!("{} {}", f[6], f.get(7).unwrap_or(&"")));
        }
    }
    #[cfg(unix)]
    {
        use std::os::unix::process::ExitStatusExt;
        if let Some(sig) = status.signal() {
            let e = err.lines().find(|l| l.contains("memory allocation") || l.contains("panicked")).unwrap_or(err.lines().last().unwrap_or("")).to_string();
            return (6, 0, 0, 0, format!("signal {} {}", sig, runner_esc(&e)));
        }
    }
    (6, 0, 0, 0, format!("exit {:?} {}", status.code(), runner_esc(err.lines().last().unwrap_or(""))))
}
fn runner_esc(s: &str) -> String { s.replace('\t', " ").replace('\n', " ") }

fn sizes_for(op: &str, limit: u64, rng: &mut Rng, random: bool) -> Vec<i128> {
    let l = limit as i128;
    // bytes per unit of `n` for the operation
    let unit: i128 = match op {
        "array_bool" | "bytes_alloc" | "pad_left" | "pad_right" | "vec_reserve_bool" => 1,
        "pad_left_mb" | "pad_right_mb" => 3, "string_repeat_mb" => 6, "string_repeat" => 16, "manual_reuse" => 16, "string_derived" => 48, _ => 8 };
    if op.starts_with("churn") {
        // about 292 bytes of garbage per iteration: the collector runs every ~3 500 iterations at the 1 MiB threshold
        return if random { vec![rng.range_i64(0, 60_000) as i128] } else { vec![-1, 0, 1, 2, 100, 3000, 4000, 10_000, 40_000, 100_000] };
    }
    if op == "bytes_many" || op == "bytes_cycle" {
        let q = l / 65536;
        return if random { vec![rng.range_i64(0, (2 * q + 8) as i64) as i128] } else { vec![-1, 0, 1, 2, q / 2, q - 2, q - 1, q, q + 1, 2 * q, 200] };
    }
    if op.starts_with("net_") {
        // up to the module's own cap of 16 MiB
        return if random { vec![if rng.chance(1, 2) { rng.range_i64(13, 16_777_216) } else { rng.range_i64(13, (l + 200_000) as i64) } as i128] }
               else { vec![13, 1000, 70_000, l / 2, l - 200_000, l - 10_000, l, l + 1, 2 * l, 16_000_000, 16_777_216] };
    }
    if op == "fs_read_bytes" {
        // up to the module's own cap of 16 MiB; above the limit the request must be refused before the buffer exists
        return if random { vec![if rng.chance(1, 2) { rng.range_i64(0, 16_777_216) } else { rng.range_i64(0, (l + 200_000) as i64) } as i128] }
               else { vec![0, 1, 5, 13, 14, 1000, 70_000, l / 2, l - 200_000, l - 1, l, l + 1, 2 * l, 16_000_000, 16_777_216] };
    }
    if op == "bytes_clone" || op == "bytes_resize" || op == "bytes_from_string" {
        let u: i128 = if op == "bytes_from_string" { 16 } else { 1 };
        return if random { vec![rng.range_i64(1, (l / u + 1000) as i64) as i128] }
               else { vec![1, 2, 1000, l / u / 4, l / u / 3 - 20_000 / u, l / u / 3 + 20_000 / u, l / u / 2, l / u - 200_000 / u, l / u, 2 * l / u, 100_000_000 / u] };
    }
    if op == "str_literal" {
        return if random { vec![rng.range_i64(0, (l + 2000) as i64) as i128] } else { vec![0, 1, 1000, l / 2, l - 100_000, l - 6000, l - 4000, l, l + 1000] };
    }
    if op == "bytes_alloc" && !random {
        // its own bound: MAX_ALLOC = 256 MiB, inclusive
        return vec![-1, 0, 1, 2, 1000, l / 2, l, 2 * l, (256 << 20) - 1, 256 << 20, (256 << 20) + 1, 1 << 31, 100_000_000_000, (1 << 47) - 1, -(1 << 47)];
    }
    if op == "replace_sq" || op == "join_sq" {
        // n * n crosses the limit at about sqrt(limit); 2n (the two operands) fits far beyond that
        let q = (l as f64).sqrt() as i128;
        return if random { vec![if rng.chance(1, 2) { rng.range_i64(0, (2 * q) as i64) } else { rng.range_i64(0, 120_000) } as i128] }
               else { vec![-1, 0, 1, 2, 100, q / 2, q - 30, q + 30, 2 * q, 20_000, 100_000] };
    }
    if op == "concat_double" { return if random { vec![rng.range_i64(0, 26) as i128] } else { vec![-1, 0, 1, 2, 10, 15, 16, 17, 18, 19, 20, 21, 24, 30] }; }
    if op.starts_with("vec_fill") {
        let e: i128 = if op == "vec_fill_bool" { 1 } else { 8 };
        let r = fill_reserve(op, limit);
        let room = 145_000 / e;      // about what is left after the reservation
        return if random { vec![r + rng.range_i64(-300, (150_000 / e + 300) as i64) as i128] }
               else { vec![-1, 0, 1, r - 1, r, r + 1, r + 2, r + room / 2, r + room - 2000 / e, r + 150_000 / e + 100, 2 * r] };
    }
    if op.starts_with("vec_push") || op == "vec_new_lit" || op == "closures" {
        let per: i128 = if op == "vec_push_bool" { 1 } else if op.starts_with("vec_push") { 8 } else { 64 };
        // plain push loops replay the doubling; the region near the limit is the business of vec_fill (quick tier) --
        // with --deep (thorough tier) the plain loops run up to the limit as well
        let deep = flag("--deep");
        let top = if deep || per != 1 { l / per + 2000 } else { 70_000 };
        return if random { vec![if rng.chance(2, 3) { rng.range_i64(0, 3000) } else { rng.range_i64(0, top as i64) } as i128] }
               else if deep || per != 1 { vec![-1, 0, 1, 2, 100, l / per / 2 + 1000, l / per - 20_000 / per, l / per] }
               else { vec![-1, 0, 1, 2, 100, 5000, 66_000] };
    }
    if random {
        return vec![match rng.below(7) {
            0 => rng.range_i64(-5, 5) as i128,
            1 => l / unit + rng.range_i64(-200, 200) as i128,
            2 => rng.range_i64(0, (l / unit) as i64) as i128,
            3 => (l - 700_000).max(0) / unit + rng.range_i64(-3000, 3000) as i128,
            4 => (1i128 << rng.range_i64(20, 46)) + rng.range_i64(-2, 2) as i128,
            // between limit/unit and limit: a multi-byte unit makes the result larger than the count suggests
            5 => rng.range_i64((l / unit) as i64, l as i64) as i128,
            _ => -(1i128 << rng.range_i64(1, 46)),
        }];
    }
    vec![-1, 0, 1, 2, 1000, l / unit / 2, l / unit - 100_000 / unit, l / unit - 1, l / unit, l / unit + 1, 2 * l / unit,
         l / 2, l - 200_000, l, 1 << 31, 100_000_000_000, (1 << 47) - 1, -(1 << 47)]
}

fn main() {
    if std::env::args().nth(1).as_deref() == Some("child") {
        #[cfg(vbxq_aelys_lang_verif)]
        child();
        return;
    }
    if std::env::args().nth(1).as_deref() == Some("args") {
        // from command-line flags to the limit in force: parse_vm_args on generated flag lists; every item carries its raw text and
        // its term in the Coq model (Model/HeapArgs.v)
        let mut rng = Rng::new(arg_u64("--seed", 0) ^ 0xA465);
        let sizes: &[(&str, Option<u64>)] = &[("2M", Some(2 << 20)), ("1M", Some(1 << 20)), ("1048576", Some(1 << 20)), ("1048575", Some(1048575)), ("4G", Some(4 << 30)),
            ("16K", Some(16384)), ("3m", Some(3 << 20)), ("1g", Some(1 << 30)), ("0", Some(0)), ("abc", None), ("99999999999G", None), ("2097152", Some(2 << 20)),
            ("64M", Some(64 << 20)), ("", None), ("-5M", None), ("5T", None), ("1024k", Some(1 << 20))];
        let item = |rng: &mut Rng, kind: u64| -> (String, String) {
            let sp = |rng: &mut Rng, key: &str, v: &str| if rng.chance(1, 2) { format!("-ae.{}={}", key, v) } else { format!("--ae-{}={}", key, v) };
            let b = |rng: &mut Rng| -> (&'static str, bool) { *rng.pick(&[("true", true), ("false", false), ("TRUE", true), ("False", false)]) };
            match kind {
                0 => { let (t, v) = *rng.pick(sizes); (sp(rng, "max-heap", t), match v { Some(x) => format!("FMaxHeap (Some {}%N)", x), None => "FMaxHeap None".into() }) }
                1 => { let (t, v) = b(rng); (sp(rng, "allow-fs", t), format!("FAllowFs {}", v)) }
                2 => { let (t, v) = b(rng); (sp(rng, "allow-net", t), format!("FAllowNet {}", v)) }
                3 => { let (t, v) = b(rng); (sp(rng, "allow-exec", t), format!("FAllowExec {}", v)) }
                4 => { let (t, v) = b(rng); (sp(rng, "trusted", t), format!("FTrusted {}", v)) }
                5 => ("--dev".into(), "FDev".into()),
                6 | 7 => {
                    let names = ["fs", "net", "exec", "custom", "gpu"];
                    let k = 1 + rng.below(3) as usize;
                    let pick: Vec<&str> = (0..k).map(|_| *rng.pick(&names)).collect();
                    let has = |n: &str| pick.contains(&n);
                    (format!("--{}-caps={}", if kind == 6 { "allow" } else { "deny" }, pick.join(",")),
                     format!("{} {} {} {} {}%N", if kind == 6 { "FAllowCaps" } else { "FDenyCaps" }, has("fs"), has("net"), has("exec"), k))
                }
                8 => (rng.pick(&["-ae.unknown=1", "-ae.trusted", "--ae-allow-fs=yes", "-ae.max-heap", "--ae-=1", "--allow-caps=", "--deny-caps=fs,,net"]).to_string(), "FBad".into()),
                _ => (rng.pick(&["prog.aelys", "--flag", "-x", "ae.max-heap=1M", "--trusted", "-ae", "--aemax-heap=1M"]).to_string(), "FProgram".into()),
            }
        };
        let mut lists: Vec<Vec<(String, String)>> = vec![vec![]];
        // structured: a max-heap flag together with every other kind of flag, in both orders and in the middle
        for other in 1..10u64 {
            for _ in 0..6 {
                let m = item(&mut rng, 0); let o = item(&mut rng, other); let m2 = item(&mut rng, 0);
                lists.push(vec![m.clone(), o.clone()]); lists.push(vec![o.clone(), m.clone()]); lists.push(vec![m, o, m2]);
            }
        }
        // the explicit combinations of the seeded change
        for (a, b) in [("-ae.max-heap=2M", "-ae.trusted=true"), ("--ae-trusted=true", "--ae-max-heap=2M"), ("-ae.max-heap=2M", "--ae-trusted=TRUE")] {
            lists.push(vec![(a.to_string(), if a.contains("max") { "FMaxHeap (Some 2097152%N)".into() } else { "FTrusted true".into() }),
                            (b.to_string(), if b.contains("max") { "FMaxHeap (Some 2097152%N)".into() } else { "FTrusted true".into() })]);
        }
        for _ in 0..arg_u64("--random", 300) {
            let n = rng.below(7);
            // mostly valid flags: errors end the parse
            lists.push((0..n).map(|_| { let k = if rng.chance(1, 12) { 8 } else { *rng.pick(&[0u64, 0, 0, 1, 2, 3, 4, 4, 5, 6, 7, 9]) }; item(&mut rng, k) }).collect());
        }
        for (k, l) in lists.iter().enumerate() {
            let raw: Vec<String> = l.iter().map(|x| x.0.clone()).collect();
            let obs = match aelys_runtime::parse_vm_args(&raw) {
                Ok(p) => format!("1; {}; {}; {}; {}; {}", p.config.max_heap_bytes, p.config.capabilities.allow_fs as u8, p.config.capabilities.allow_net as u8,
                                 p.config.capabilities.allow_exec as u8, p.config.allow_hot_reload as u8),
                Err(_) => "0; 0; 0; 0; 0; 0".into(),
            };
            println!("ARGS\t{}\t[{}]\t[{}]%N\t{}", k, l.iter().map(|x| x.1.clone()).collect::<Vec<_>>().join("; "), obs, raw.join(" "));
        }
        return;
    }
    if std::env::args().nth(1).as_deref() == Some("sizes") {
        println!("AelysArray={} AelysVec={} AelysString={} Value={}", std::mem::size_of::<aelys_bytecode::object::AelysArray>(),
                 std::mem::size_of::<aelys_bytecode::object::AelysVec>(), std::mem::size_of::<aelys_bytecode::object::AelysString>(),
                 std::mem::size_of::<aelys_bytecode::Value>());
        return;
    }
    let exe = std::env::current_exe().expect("exe");
    let seed = arg_u64("--seed", 0);
    let random = arg_u64("--random", 0);
    let cap_mib = arg_u64("--cap-mib", 3072);
    let timeout = arg_u64("--timeout", 20);
    let opts: Vec<u32> = arg("--opts").unwrap_or("0,2".into()).split(',').filter_map(|s| s.parse().ok()).collect();
    let limits: Vec<u64> = arg("--limits").unwrap_or("1048576,2097152,16777216".into()).split(',').filter_map(|s| s.parse().ok()).collect();
    let only: Option<String> = arg("--op");
    let mut cases: Vec<Case> = vec![];
    let mut rng = Rng::new(seed);
    if let Some(list) = arg("--cases") {
        // explicit: op:size:limit:opt,...
        for it in list.split(',') {
            let f: Vec<&str> = it.split(':').collect();
            if f.len() == 4 { cases.push(Case { op: f[0].into(), size: f[1].parse().unwrap_or(0), limit: f[2].parse().unwrap_or(1 << 20), opt: f[3].parse().unwrap_or(0) }); }
        }
    } else {
        for op in OPS {
            if let Some(o) = &only { if o != op { continue; } }
            for (li, &limit) in limits.iter().enumerate() {
                for s in sizes_for(op, limit, &mut rng, false) {
                    // the structured grid runs at every limit for the boundary sizes; the long-running loops only at the smallest
                    if li > 0 && op.starts_with("vec_push") || li > 1 && op.starts_with("vec_fill") || limit < (2 << 20) && op.starts_with("churn") { continue; }   // instruction budget: millions of pushes
                    for &opt in &opts { cases.push(Case { op: op.to_string(), size: s, limit, opt }); }
                }
            }
        }
        for _ in 0..random {
            let op = *rng.pick(OPS);
            if let Some(o) = &only { if o != op { continue; } }
            let limit = if op.starts_with("vec_push") { limits[0] } else if op.starts_with("vec_fill") { limits[rng.below(2.min(limits.len() as u64)) as usize] } else if op.starts_with("churn") { *limits.iter().filter(|&&l| l >= (2 << 20)).last().unwrap_or(&limits[0]) } else { *rng.pick(&limits) };
            let s = sizes_for(op, limit, &mut rng, true)[0];
            let opt = *rng.pick(&opts);
            cases.push(Case { op: op.to_string(), size: s, limit, opt });
        }
    }
    // run in parallel (children are independent processes)
    let n = cases.len();
    let next = std::sync::atomic::AtomicUsize::new(0);
    let results: Vec<std::sync::Mutex<Option<(i64, i64, i64, i64, String)>>> = (0..n).map(|_| std::sync::Mutex::new(None)).collect();
    let workers = arg_u64("--jobs", 8) as usize;
    std::thread::scope(|sc| {
        for _ in 0..workers {
            sc.spawn(|| loop {
                let k = next.fetch_add(1, std::sync::atomic::Ordering::SeqCst);
                if k >= n { break; }
                let r = run_case(&exe, &cases[k], cap_mib, timeout);
                *results[k].lock().unwrap() = Some(r);
            });
        }
    });
    for (k, c) in cases.iter().enumerate() {
        let (kind, da, dp, a0, detail) = results[k].lock().unwrap().clone().unwrap();
        let mut cop = coq_op(&c.op);
        if c.op.starts_with("vec_fill") || c.op.starts_with("churn") { cop = format!("{} {}", cop, fill_reserve(&c.op, c.limit)); }
        println!("{}\t{}\t{}\t{}\t{}\t{}\t{} {} {} {}\t{}", k, c.op, c.size, c.limit, c.opt, cop, kind, da, dp, a0, detail);
    }
}
fn coq_op(op: &str) -> String {
    match op {
        "array_int" => "OArray 8".into(), "array_float" => "OArray 8".into(), "array_bool" => "OArray 1".into(), "array_obj" => "OArray 8".into(),
        "vec_push" | "vec_push_float" | "vec_push_obj" => "OVecPush 8".into(), "vec_push_bool" => "OVecPush 1".into(),
        "vec_reserve" | "vec_reserve_float" | "vec_reserve_obj" => "OVecReserve 8".into(), "vec_reserve_bool" => "OVecReserve 1".into(),
        "vec_fill" | "vec_fill_float" | "vec_fill_obj" => "OVecFill 8".into(), "vec_fill_bool" => "OVecFill 1".into(),
        "manual_alloc" => "OManual".into(), "manual_reuse" => "OManualReuse".into(),
        "bytes_alloc" => "OBytes".into(), "bytes_many" => "OBytesMany 65536".into(), "bytes_clone" => "OBytesClone".into(), "bytes_resize" => "OBytesResize 1000".into(),
        "bytes_cycle" => "OBytesCycle 65536".into(), "fs_read_bytes" => "OFsRead 13".into(), "net_udp_recv_from" | "net_udp_recv" | "net_recv_bytes" => "ONetRecv 13".into(), "net_recv" => "ONetRecvAll 13".into(), "string_repeat" => "ORepeat 16".into(), "string_repeat_mb" => "ORepeat 6".into(),
        "pad_left" | "pad_right" => "OPad 16 16 1".into(), "pad_left_mb" | "pad_right_mb" => "OPad 16 16 3".into(),
        "str_literal" => "OLiteral".into(), "churn" => "OChurn".into(), "churn_mix" => "OChurnMix".into(), "churn_over" => "OChurnOver".into(),
        "replace_sq" => "OProductSq 1".into(), "join_sq" => "OProductSq 2".into(),
        "concat_double" => "OConcatDouble 16".into(), "vec_new_lit" => "OVecLits".into(), "closures" => "OClosures".into(), o => format!("OUnknown_{}", o),
    }
}
