//! C08 harness.  Two modes, one line per case on stdout (tab separated):
//!
//! --mode codec   contract tie between binary.rs and Model/Avbc.v
//!     Z <name> <size_of>                                   real element sizes
//!     W <func term> <hex of serialize(F)>                  model `write f` must equal the bytes
//!     N <func term> <result term of deserialize(serialize(F))>   model `alias (normalize f)`
//!     R <hex bytes> <result term of deserialize(bytes)> <mutation kind>   model `read dbg bytes`
//!     B <kind> <n> <len> <sum1> <sum2> <BSame|BDiff|BErr e>   big table-size cases
//!     D <what>                                             direct oracle failure (no model involved)
//! --mode run     observational tie: original vs reloaded .avbc vs reassembled .aasm
//!     I <prog> <opt> <strip> <callsites> <height> <nfuncs> <bytes> <opcodes>
//!     O <prog> <opt> <strip> <route> <class> <output> <value> <detail>
#[path = "../avbc_common.rs"]
mod avbc_common;

#[cfg(vbxq_aelys_lang_verif)]
fn main() {
    use aelys_bytecode::asm::{deserialize, disassemble_to_string, serialize, try_serialize};
    use aelys_bytecode::{Function, GlobalLayout, Heap, UpvalueDescriptor, Value};
    use avbc_common::routes::*;
    use avbc_common::*;
    use hxlib::runner::esc;
    use hxlib::*;
    use std::collections::BTreeSet;

    quiet_panics();
    let mode = arg("--mode").unwrap_or("codec".into());
    let seed = arg_u64("--seed", 0);
    let budget = arg_u64("--budget", 3_000_000);
    let file = arg("--file");
    let tmp = arg("--tmp").unwrap_or("/tmp".into());
    let progs: Vec<String> = match &file {
        Some(f) => std::fs::read_to_string(f).expect("read").split("\n=====\n").map(|s| s.to_string()).collect(),
        None => Vec::new(),
    };

    let handle = std::thread::Builder::new().stack_size(256 << 20).spawn(move || {
        let mut rng = Rng::new(seed);
        if mode == "codec" {
            println!("Z\tValue\t{}", std::mem::size_of::<Value>());
            println!("Z\tu32\t{}", std::mem::size_of::<u32>());
            println!("Z\tFunction\t{}", std::mem::size_of::<Function>());
            println!("Z\tUpvalueDescriptor\t{}", std::mem::size_of::<UpvalueDescriptor>());
            println!("Z\tLine\t{}", std::mem::size_of::<(u16, u32)>());
            println!("Z\tString\t{}", std::mem::size_of::<String>());
            let mut bases: Vec<Vec<u8>> = Vec::new();
            let mut emit = |f: &Function, heap: &Heap, bases: &mut Vec<Vec<u8>>| {
                let term = dump_func(f, heap);
                let bytes = match try_serialize(f, heap) {
                    Ok(b) => b,
                    Err(e) => { println!("W\t{}\tERR {}", term, werr_term(&e)); return; }
                };
                println!("W\t{}\t{}", term, hex(&bytes));
                println!("N\t{}\t{}", term, read_result_term(&bytes));
                // direct oracle, no model: reading back never fails and a second save is byte-identical
                let b2 = bytes.clone();
                match guarded(move || deserialize(&b2)).unwrap_or(Err(aelys_bytecode::asm::BinaryError::UnexpectedEof)) {
                    Ok((g, h2)) => {
                        let again = serialize(&g, &h2);
                        if again != bytes {
                            println!("D\tresave-differs\t{}", term);
                        }
                        if let Err(w) = structure_preserved(f, heap, &g, &h2) {
                            println!("D\tstructure-differs:{}\t{}", w, term);
                        }
                    }
                    Err(e) => println!("D\tread-back-fails:{}\t{}", err_term(&e), term),
                }
                if bytes.len() < 6000 {
                    bases.push(bytes);
                }
            };
            // compiler outputs
            let max_prog = arg_u64("--compiled", 40) as usize;
            for (i, p) in progs.iter().enumerate().take(max_prog) {
                let path = std::path::PathBuf::from(format!("{}/c08_{}.aelys", tmp, i));
                let _ = std::fs::write(&path, p);
                for (opt, strip) in [(0u32, false), (2, false), (2, true)] {
                    if let Ok((f, heap, _vm)) = compile(&path, p, opt, strip) {
                        if dump_func(&f, &heap).len() < 60_000 {
                            emit(&f, &heap, &mut bases);
                        }
                    }
                }
            }
            // hand-built functions
            for _ in 0..arg_u64("--hand", 300) {
                let mut heap = Heap::new();
                let f = gen_func(&mut rng, 0, &mut heap);
                emit(&f, &heap, &mut bases);
            }
            // mutants and raw bytes through the reader
            let nm = arg_u64("--mutants", 1500);
            for k in 0..nm {
                if bases.is_empty() { break; }
                let base = &bases[(k as usize * 7 + rng.below(5) as usize) % bases.len()];
                let (mut b, mut kind) = mutate(&mut rng, base);
                if rng.chance(1, 5) { let (b2, k2) = mutate(&mut rng, &b); b = b2; kind = k2; }
                if b.len() > 8000 { continue; }
                println!("R\t{}\t{}\t{}", hex(&b), read_result_term(&b), kind);
            }
            for _ in 0..arg_u64("--raw", 100) {
                let n = rng.below(40) as usize;
                let b: Vec<u8> = (0..n).map(|_| rng.below(256) as u8).collect();
                println!("R\t{}\t{}\traw", hex(&b), read_result_term(&b));
            }
            // table sizes at and beyond the format's limits, with real content
            let thorough = flag("--big-thorough");
            let mut bigs: Vec<(u32, usize)> = vec![(0, 65535), (0, 65536), (1, 65535), (1, 65536), (2, 65535), (2, 65536),
                (3, 4096), (3, 4097), (4, 256), (4, 257), (7, 65535), (7, 65536), (8, 64), (8, 65), (8, 66), (9, 65535), (9, 65536), (0, 65537)];
            if thorough { bigs.extend([(5, 1_000_000), (5, 1_000_001), (6, 1_000_000), (6, 1_000_001)]); }
            for (kind, n) in bigs {
                let mut heap = Heap::new();
                let mut f = Function::new(None, 0);
                match kind {
                    0 => f.lines = vec![(1u16, 0u32); n],
                    1 => f.global_layout = GlobalLayout::new(vec![String::new(); n]),
                    2 => f.constants = vec![Value::null(); n],
                    3 => f.nested_functions = (0..n).map(|_| Function::new(None, 0)).collect(),
                    4 => f.upvalue_descriptors = vec![UpvalueDescriptor { is_local: true, index: 0 }; n],
                    5 => f.set_bytecode(vec![5u32; n]),
                    6 => { let s = "a".repeat(n); f.constants = vec![Value::ptr(heap.intern_string(&s).index())]; }
                    7 => f.name = Some("a".repeat(n)),
                    8 => { for _ in 0..n { let mut outer = Function::new(None, 0); outer.nested_functions.push(f); f = outer; } }
                    _ => f.global_layout = GlobalLayout::new(vec!["a".repeat(n)]),
                }
                let before = if kind == 5 || kind == 6 { String::new() } else { dump_func(&f, &heap) };
                let bytes = match try_serialize(&f, &heap) {
                    Ok(b) => b,
                    Err(e) => { println!("B\t{}\t{}\t0\t0\t0\t(BWErr {})", kind, n, werr_term(&e)); continue; }
                };
                let (mut s1, mut s2) = (0u64, 0u64);
                for &x in &bytes { s1 = (s1 + x as u64) % 4294967291; s2 = (s2 + s1) % 4294967291; }
                let verdict = match deserialize(&bytes) {
                    Ok((g, h2)) => {
                        let same = if kind == 5 { g.bytecode.len() == n && g.bytecode.iter().all(|&w| w == 5) }
                                   else if kind == 6 { dump_func(&g, &h2) == dump_func(&f, &heap) }
                                   else { dump_func(&g, &h2) == before };
                        if same { "BSame".to_string() } else { "BDiff".to_string() }
                    }
                    Err(e) => format!("(BErr {})", err_term(&e)),
                };
                println!("B\t{}\t{}\t{}\t{}\t{}\t{}", kind, n, bytes.len(), s1, s2, verdict);
            }
        } else if mode == "aasm" {
            // ---------------------------------------------------------------- instruction text
            // A <word> <disassembly line, comment stripped, blanks collapsed> <reassembled words | ERR>
            use aelys_bytecode::asm::assemble;
            let mut words: Vec<u32> = Vec::new();
            for op in 0u32..=255 {
                for (a, b, c) in [(0u32, 0u32, 0u32), (1, 2, 3), (255, 255, 255), (7, 0, 1), (0, 128, 0), (3, 127, 255)] {
                    words.push((op << 24) | (a << 16) | (b << 8) | c);
                }
                for _ in 0..arg_u64("--per-op", 4) {
                    words.push((op << 24) | (rng.next_u64() as u32 & 0xFFFFFF));
                }
            }
            // S <code points of s> <code points of the text between the quotes> <code points of the name read back | ERR>
            let cps = |t: &str| t.chars().map(|c| (c as u32).to_string()).collect::<Vec<_>>().join(";");
            let pool: Vec<char> = vec!['a', 'Z', ' ', '"', '\\', '\n', '\r', '\t', '\0', '\u{1}', '\u{1f}', '\u{7f}', '\u{80}', '\u{85}', '\u{9f}', '\u{a0}',
                                       '\u{e9}', '\u{2028}', '\u{1F600}', 'x', 'n', '0', '{', '}', ';', '\'', '\u{10FFFF}'];
            for k in 0..arg_u64("--strings", 300) {
                let n = 1 + rng.below(8) as usize;
                let s: String = (0..n).map(|_| if k < 30 { pool[(k as usize) % pool.len()] } else if rng.chance(3, 4) { *rng.pick(&pool) }
                                             else { char::from_u32(rng.below(0x11_0000) as u32).unwrap_or('?') }).collect();
                let mut f = Function::new(Some(s.clone()), 0);
                f.set_bytecode(vec![23u32 << 24]);
                let text = disassemble_to_string(&f, None);
                // the literal may contain raw newlines: take everything between `.name "` and the `"` before `\n  .arity`
                let lit = text.split("  .name \"").nth(1).and_then(|r| r.split("\"\n  .arity").next()).unwrap_or("").to_string();
                let t2 = text.clone();
                let back = match guarded(move || assemble(&t2)) {
                    Ok(Ok((fs, _))) => fs.first().and_then(|g| g.name.clone()).map(|n| cps(&n)).unwrap_or_else(|| "NONE".into()),
                    _ => "ERR".into(),
                };
                println!("S\t{}\t{}\t{}", cps(&s), cps(&lit), back);
            }
            // T <items "arity:nested;..."> <model term of the rebuilt tree | None>
            fn dump_tree(f: &Function) -> String {
                format!("(Node {} [{}])", f.arity, f.nested_functions.iter().map(dump_tree).collect::<Vec<_>>().join("; "))
            }
            for k in 0..arg_u64("--trees", 200) {
                let n = 1 + rng.below(if k % 10 == 0 { 80 } else { 9 }) as usize;
                let mut items: Vec<(u8, u64)> = Vec::new();
                let mut open: i64 = 1;      // children still expected (consistent mode)
                for i in 0..n {
                    let c = if k % 3 == 0 { rng.below(4) }                                   // arbitrary counts
                            else if k % 10 == 0 { if i + 1 < n { 1 } else { 0 } }            // a chain
                            else { let left = (n - i - 1) as i64 - (open - 1); if left > 0 { rng.below((left as u64).min(3) + 1) } else { 0 } };
                    open += c as i64 - 1;
                    items.push((i as u8, c));
                }
                let mut text = String::from(".version 1\n");
                for (i, (a, c)) in items.iter().enumerate() {
                    text.push_str(&format!(".function {}\n  .arity {}\n  .registers 1\n  .nested {}\n  .code\n    0000: Return0\n", i, a, c));
                }
                let res = match guarded(move || assemble(&text)) {
                    Ok(Ok((fs, _))) => match fs.first() { Some(f) => format!("(Some (Some {}))", dump_tree(f)), None => "(Some None)".into() },
                    Ok(Err(_)) => "None".into(),
                    Err(_) => "PANIC".into(),
                };
                println!("T\t{}\t{}", items.iter().map(|(a, c)| format!("({}, {}%nat)", a, c)).collect::<Vec<_>>().join("; "), res);
            }
            for w in words {
                let op = w >> 24;
                let mut f = Function::new(None, 0);
                let mut code = vec![w];
                if op == 77 || op == 78 || op == 104 { code.extend([0u32, 0u32]); }
                f.set_bytecode(code);
                let text = disassemble_to_string(&f, None);
                let line = text.lines().find(|l| l.trim_start().starts_with("0000:")).unwrap_or("").to_string();
                let line = line.trim_start().trim_start_matches("0000:").split(';').next().unwrap_or("").split_whitespace().collect::<Vec<_>>().join(" ");
                let t2 = text.clone();
                let re = match guarded(move || assemble(&t2)) {
                    Ok(Ok((fs, _))) => match fs.first() { Some(g) => g.bytecode.iter().map(|x| x.to_string()).collect::<Vec<_>>().join(";"), None => "ERR".into() },
                    Ok(Err(_)) => "ERR".into(),
                    Err(_) => "PANIC".into(),
                };
                println!("A\t{}\t{}\t{}", w, line, re);
            }
        } else {
            // ---------------------------------------------------------------- observational
            for (i, p) in progs.iter().enumerate() {
                let path = std::path::PathBuf::from(format!("{}/c08_{}.aelys", tmp, i));
                let _ = std::fs::write(&path, p);
                let opts: Vec<u32> = arg("--opts").unwrap_or("0,2".into()).split(',').filter_map(|x| x.parse().ok()).collect();
                let configs: Vec<(u32, &str)> = opts.iter().flat_map(|&o| [(o, "false"), (o, "true"), (o, "names")]).collect();
                for (opt, strip) in configs {
                    let (mut f, heap, vm) = match compile(&path, p, opt, strip == "true") {
                        Ok(x) => x,
                        Err(e) => { println!("O\t{}\t{}\t{}\tcompile\tcompile-error\t\t\t{}", i, opt, strip, esc(&e)); continue; }
                    };
                    if strip == "names" {
                        // function names only (they serve error messages): global names stay
                        fn strip_names(f: &mut Function) { f.name = None; for g in &mut f.nested_functions { strip_names(g); } }
                        strip_names(&mut f);
                    }
                    let bytes = serialize(&f, &heap);
                    let text = disassemble_to_string(&f, Some(&heap));
                    // metadata
                    fn walk(f: &Function, sites: &mut usize, ops: &mut BTreeSet<u8>, n: &mut usize) -> usize {
                        *n += 1;
                        let w: Vec<u32> = f.bytecode.iter().copied().collect();
                        let mut k = 0;
                        while k < w.len() {
                            let op = (w[k] >> 24) as u8;
                            ops.insert(op);
                            if op == 77 || op == 78 || op == 104 { if op != 104 { *sites += 1; } k += 3; } else { k += 1; }
                        }
                        f.nested_functions.iter().map(|g| 1 + walk(g, sites, ops, n)).max().unwrap_or(0)
                    }
                    let (mut sites, mut ops, mut nf) = (0usize, BTreeSet::new(), 0usize);
                    let h = walk(&f, &mut sites, &mut ops, &mut nf);
                    println!("I\t{}\t{}\t{}\t{}\t{}\t{}\t{}\t{}", i, opt, strip, sites, h, nf, bytes.len(),
                             ops.iter().map(|o| o.to_string()).collect::<Vec<_>>().join(","));
                    let forig = f.clone();
                    let show = |route: &str, r: &hxlib::runner::Outcome| {
                        println!("O\t{}\t{}\t{}\t{}\t{}\t{}\t{}\t{}", i, opt, strip, route, r.class, esc(&r.output), esc(&r.value), esc(&r.detail));
                    };
                    let o = run_original(vm, f, heap, budget);
                    show("orig", &o);
                    let a = run_avbc(&path, &bytes, budget, &|_| {});
                    show("avbc", &a);
                    if (a.class.as_str(), a.output.as_str(), a.value.as_str()) != (o.class.as_str(), o.output.as_str(), o.value.as_str()) {
                        let a2 = run_avbc(&path, &bytes, budget, &|g| restore_slots(&forig, g));
                        show("avbc+slots", &a2);
                    }
                    let s = run_aasm(&path, &text, budget, &|_| {});
                    show("aasm", &s);
                    if (s.class.as_str(), s.output.as_str(), s.value.as_str()) != (o.class.as_str(), o.output.as_str(), o.value.as_str()) {
                        // interventions that separate the root causes of an assembly-text difference
                        let s2 = run_aasm(&path, &text, budget, &|g| {
                            // flat order restore: main + nested list as the CLI reconstructs it
                            let mut flat: Vec<&Function> = Vec::new();
                            fn coll<'a>(f: &'a Function, out: &mut Vec<&'a Function>) { out.push(f); for n in &f.nested_functions { coll(n, out); } }
                            coll(&forig, &mut flat);
                            let mut tmpf = Function::new(None, 0);
                            std::mem::swap(&mut tmpf, g);
                            let mut one = |orig: &Function, re: &mut Function| {
                                let nested = std::mem::take(&mut re.nested_functions);
                                let mut shallow = orig.clone();
                                shallow.nested_functions.clear();
                                restore_slots(&shallow, re);
                                re.nested_functions = nested;
                            };
                            if !flat.is_empty() { one(flat[0], &mut tmpf); }
                            for (k, n) in tmpf.nested_functions.iter_mut().enumerate() {
                                if k + 1 < flat.len() { one(flat[k + 1], n); }
                            }
                            std::mem::swap(&mut tmpf, g);
                        });
                        show("aasm+slots", &s2);
                    }
                }
            }
        }
    }).unwrap();
    handle.join().unwrap();
}
#[cfg(not(vbxq_aelys_lang_verif))]
fn main() { eprintln!("built without hooks"); std::process::exit(2); }
