//! C20 contract tie.  Two families of lines, `<tag>\t<meta>\t<Coq query>\t<observation>`:
//!   S  Rust std primitives the VM paths are built from (char::encode_utf8, len_utf8,
//!      str::chars().next()/nth()/count(), str::len) on structured scalars and strings, plus a
//!      complete checksum sweep of all 0x110000 - 2048 scalar values;
//!   P  generated Aelys programs run through the real pipeline (hxlib::runner::run_program) at
//!      -O0..-O3: the string is built as a literal or at run time in several ways, the program
//!      prints len, char_len, the for-each items and s[i]; s[-1], s[n], s[n+1] run as separate
//!      programs (a runtime error ends a program).
//!   G  <case id> <form> <escaped main program text>   (for replays; not a case)
//!   K  corpus programs (known class: string reaching a for-each compiled for Vec)
//! Observations are integer vectors (see obs format in coq/Model/Utf8Obs.v).
#[cfg(vbxq_aelys_lang_verif)]
mod imp {
    use hxlib::runner::*;
    use hxlib::*;

    /// Compile `source` the way run_with_vm_and_opt does (no `needs`) and count, in the
    /// disassembly of all functions, the opcodes that can serve a string:
    /// (StringForLoop, VecForLoop, StringLoadChar, VecLoadP, VecLoadI/F/B)
    fn compiled_ops(source: &str, opt: u32) -> Option<[usize; 5]> {
        use aelys_frontend::lexer::Lexer;
        use aelys_frontend::parser::Parser;
        let r = guarded(std::panic::AssertUnwindSafe(|| -> Option<[usize; 5]> {
            let vm = aelys_driver::new_vm_with_config(Default::default(), Vec::new()).ok()?;
            let src = aelys_syntax::Source::new("<verif>", source);
            let tokens = Lexer::with_source(src.clone()).scan().ok()?;
            let stmts = Parser::new(tokens, src.clone()).parse().ok()?;
            let module_aliases = vm.repl_module_aliases().clone();
            let mut known_globals = vm.repl_known_globals().clone();
            let known_native_globals = vm.repl_known_native_globals().clone();
            let symbol_origins = vm.repl_symbol_origins().clone();
            for b in ["alloc", "free", "load", "store", "type"] { known_globals.insert(b.to_string()); }
            let typed = aelys_sema::TypeInference::infer_program_with_imports(stmts, src.clone(), module_aliases.clone(), known_globals.clone()).ok()?;
            let mut optimizer = aelys_opt::Optimizer::new(opt_level(opt));
            let typed = optimizer.optimize(typed);
            let compiler = aelys_backend::Compiler::with_modules_and_globals(None, src.clone(), module_aliases, known_globals,
                known_native_globals, symbol_origins, vm.global_mutability().clone());
            let (function, heap, _) = compiler.compile_typed(&typed).ok()?;
            let text = aelys_bytecode::disassemble(&function, Some(&heap));
            let cnt = |w: &str| text.lines().filter(|l| l.split_whitespace().nth(1) == Some(w)).count();
            Some([cnt("StringForLoop"), cnt("VecForLoop"), cnt("StringLoadChar"), cnt("VecLoadP"),
                  cnt("VecLoadI") + cnt("VecLoadF") + cnt("VecLoadB")])
        }));
        r.ok().flatten()
    }

    fn join(v: &[i128]) -> String {
        v.iter().map(|x| x.to_string()).collect::<Vec<_>>().join(" ")
    }
    fn coq_list(v: &[u32]) -> String {
        format!("[{}]", v.iter().map(|x| x.to_string()).collect::<Vec<_>>().join("; "))
    }
    fn valid(c: u32) -> bool { char::from_u32(c).is_some() }

    // ---------------------------------------------------------------- std-level observations
    fn enc_obs(c: u32) -> Vec<i128> {
        let ch = char::from_u32(c).unwrap();
        let mut buf = [0u8; 4];
        let s = ch.encode_utf8(&mut buf);
        let mut o = vec![ch.len_utf8() as i128, s.len() as i128];
        o.extend(s.bytes().map(|b| b as i128));
        // decode with trailing bytes present
        let t = format!("{}A\u{e9}", ch);
        let d = t.chars().next().unwrap();
        o.push(d as u32 as i128);
        o
    }
    fn str_obs(s: &str) -> Vec<i128> {
        let n = s.chars().count();
        let mut o = vec![s.len() as i128, n as i128];
        o.extend(s.chars().map(|c| c as u32 as i128));
        for i in 0..n + 2 {
            o.push(match s.chars().nth(i) { Some(c) => c as u32 as i128, None => -1 });
        }
        o
    }
    fn sum_obs(lo: u32, hi: u32) -> Vec<i128> {
        let (mut a, mut b, mut d) = (0i128, 0i128, 0i128);
        for c in lo..hi {
            if let Some(ch) = char::from_u32(c) {
                let mut buf = [0u8; 4];
                let s = ch.encode_utf8(&mut buf);
                let mut pack = 0i128;
                for (k, x) in s.bytes().enumerate() { pack += (x as i128) << (8 * k); }
                a += pack * (c as i128 + 1);
                b += ch.len_utf8() as i128;
                let t = format!("{}z", ch);
                d += (t.chars().next().unwrap() as u32 as i128) * 3 + t.chars().count() as i128;
            }
        }
        vec![a, b, d]
    }

    // ---------------------------------------------------------------- string generator
    const BOUNDARY: [u32; 22] = [0, 1, 0x41, 0x7F, 0x80, 0xE9, 0x7FF, 0x800, 0xD7FF, 0xE000, 0xFFFD, 0xFFFF, 0x10000,
        0x10FFFF, 0x1F600, 0x301, 0x200D, 0xFE0F, 0xFEFF, 0x0A, 0x22, 0x5C];
    const ASCII_SPECIAL: [u32; 14] = [0x22, 0x5C, 0x7B, 0x7D, 0x27, 0x20, 0x23, 0x0A, 0x09, 0x0D, 0, 0x7F, 0x1B, 0x24];

    fn rand_scalar(r: &mut Rng) -> u32 {
        loop {
            let c = match r.below(10) {
                0 => *r.pick(&BOUNDARY),
                1 => *r.pick(&ASCII_SPECIAL),
                2 | 3 => r.range_i64(0x20, 0x7E) as u32,
                4 => r.range_i64(0x80, 0x7FF) as u32,
                5 => r.range_i64(0x800, 0xFFFF) as u32,
                6 => r.range_i64(0x10000, 0x10FFFF) as u32,
                7 => *r.pick(&[0x300u32, 0x301, 0x308, 0x20D7, 0x200D, 0xFE0F, 0x1F3FD, 0xE0067]),
                8 => *r.pick(&[0x1F468u32, 0x1F469, 0x1F467, 0x1F466, 0x2764, 0x1F48B, 0x1F3F3, 0x1F308]),
                _ => r.below(0x110000) as u32,
            };
            if valid(c) { return c; }
        }
    }

    pub fn gen_strings(r: &mut Rng, n_random: usize) -> Vec<Vec<u32>> {
        let mut v: Vec<Vec<u32>> = Vec::new();
        v.push(vec![]);
        for &b in &BOUNDARY { v.push(vec![b]); }
        // ordered pairs of width classes at their boundary values
        let cls: [u32; 8] = [0x7F, 0x80, 0x7FF, 0x800, 0xFFFF, 0x10000, 0x10FFFF, 0];
        for &a in &cls { for &b in &cls { v.push(vec![a, b]); } }
        v.push("caf\u{e9}\u{1F600}".chars().map(|c| c as u32).collect());
        v.push("cafe\u{301}".chars().map(|c| c as u32).collect());
        v.push(vec![0x1F468, 0x200D, 0x1F469, 0x200D, 0x1F467, 0x200D, 0x1F466]);
        v.push(vec![0x1F3F3, 0xFE0F, 0x200D, 0x1F308]);
        v.push(vec![0x61, 0, 0x62, 0, 0]);
        v.push(vec![0x7B, 0x7D, 0x7B, 0x7B, 0x22, 0x5C, 0x5C, 0x6E]);
        // longer than a register window / a byte counter
        v.push((0..70).map(|i| [0x61u32, 0xE9, 0x20AC, 0x1F600][i % 4]).collect());
        v.push((0..300).map(|i| [0x10FFFFu32, 0x7F, 0x800][i % 3]).collect());
        for _ in 0..n_random {
            let len = match r.below(8) { 0 => 0, 1 => 1, 2 => 2, 7 => r.range_i64(13, 40), _ => r.range_i64(3, 12) } as usize;
            v.push((0..len).map(|_| rand_scalar(r)).collect());
        }
        v
    }

    fn to_string(cs: &[u32]) -> String { cs.iter().map(|&c| char::from_u32(c).unwrap()).collect() }

    /// Aelys string literal body (without quotes) for the given scalars.
    fn lit(cs: &[u32], r: &mut Rng) -> String {
        let mut o = String::new();
        for &c in cs {
            let ch = char::from_u32(c).unwrap();
            match ch {
                '"' => o.push_str("\\\""),
                '\\' => o.push_str("\\\\"),
                '{' => o.push_str("{{"),
                '}' => o.push_str("}}"),
                '\n' => if r.chance(1, 2) { o.push_str("\\n") } else { o.push('\n') },
                '\t' => if r.chance(1, 2) { o.push_str("\\t") } else { o.push('\t') },
                '\r' => if r.chance(1, 2) { o.push_str("\\r") } else { o.push('\r') },
                '\0' => if r.chance(1, 2) { o.push_str("\\0") } else { o.push('\0') },
                '\'' => if r.chance(1, 2) { o.push_str("\\'") } else { o.push('\'') },
                c => o.push(c),
            }
        }
        o
    }

    pub const FORMS: [&str; 10] = ["lit", "cat_lit", "cat_var", "interp", "interp2", "chr_loop", "fn_ret", "param", "param_typed", "method_concat"];
    pub const IDX_FORMS: [&str; 3] = ["lit", "while", "range"];

    /// Lines that define the variable `sv` holding the string, and whether observation happens in a callee.
    fn construct(cs: &[u32], form: &str, r: &mut Rng) -> String {
        let k = if cs.is_empty() { 0 } else { r.below(cs.len() as u64 + 1) as usize };
        let (a, b) = cs.split_at(k);
        match form {
            "lit" | "param" | "param_typed" => format!("let sv = \"{}\"\n", lit(cs, r)),
            "cat_lit" => format!("let sv = \"{}\" + \"{}\"\n", lit(a, r), lit(b, r)),
            "cat_var" => format!("let pa = \"{}\"\nlet pb = \"{}\"\nlet sv = pa + pb\n", lit(a, r), lit(b, r)),
            "interp" => format!("let pa = \"{}\"\nlet sv = \"{{pa}}{}\"\n", lit(a, r), lit(b, r)),
            "interp2" => format!("let pa = \"{}\"\nlet pb = \"{}\"\nlet sv = \"{{pa}}{{pb}}\"\n", lit(a, r), lit(b, r)),
            "chr_loop" => {
                let codes: Vec<String> = cs.iter().map(|c| c.to_string()).collect();
                if cs.is_empty() { "let mut sv = \"\"\n".to_string() } else {
                    format!("let codes = Vec[{}]\nlet mut sv = \"\"\nfor cd in codes {{ sv = sv + chr(cd) }}\n", codes.join(", "))
                }
            }
            "fn_ret" => format!("fn mk(pp) {{ return pp + \"{}\" }}\nlet sv = mk(\"{}\")\n", lit(b, r), lit(a, r)),
            "method_concat" => format!("let pa = \"{}\"\nlet sv = pa.concat(\"{}\")\n", lit(a, r), lit(b, r)),
            _ => unreachable!(),
        }
    }

    fn pick_seps(cs: &[u32]) -> (char, char) {
        let cand = ['#', '|', '~', '^', '%', '@', '&', ';', ':', '!', '=', '+', '*', '?', '/', '<', '>', 'Z', 'Q', 'J', 'X', 'K'];
        let mut it = cand.iter().filter(|c| !cs.contains(&(**c as u32)));
        (*it.next().unwrap(), *it.next().unwrap())
    }

    /// statements that print the observations of variable `v` (n = true number of characters)
    fn observe(v: &str, n: usize, idx_form: &str, s1: char, s2: char) -> String {
        let mut o = String::new();
        o.push_str(&format!("print({v}.len()); print(\"{s1}\"); print({v}.char_len()); print(\"{s2}\")\n"));
        o.push_str(&format!("let mut cnt = 0\nfor it in {v} {{ print(it); print(\"{s1}\")\n cnt++ }}\n"));
        o.push_str(&format!("print(\"{s2}\"); print(cnt); print(\"{s2}\")\n"));
        match idx_form {
            "lit" => for i in 0..n { o.push_str(&format!("print({v}[{i}]); print(\"{s1}\")\n")); },
            "while" => o.push_str(&format!("let mut ix = 0\nwhile ix < {n} {{ print({v}[ix]); print(\"{s1}\")\n ix++ }}\n")),
            _ => o.push_str(&format!("for jx in 0..{v}.char_len() {{ print({v}[jx]); print(\"{s1}\") }}\n")),
        }
        o.push_str(&format!("print(\"{s2}\")\n"));
        o
    }

    fn wrap(cons: &str, body: &str, form: &str, local: bool) -> String {
        let inner = match form {
            "param" => format!("{cons}fn obs(u) {{\n{}}}\nobs(sv)\n", body.replace("sv", "u")),
            "param_typed" => format!("{cons}fn obs(u: string) {{\n{}}}\nobs(sv)\n", body.replace("sv", "u")),
            _ => format!("{cons}{body}"),
        };
        if local { format!("fn entry() {{\n{inner}}}\nentry()\n") } else { inner }
    }

    fn bytes_of(s: &str) -> Vec<i128> {
        let mut o = vec![s.len() as i128];
        o.extend(s.bytes().map(|b| b as i128));
        o
    }

    /// Observation vector of one (string, form, level): see Model/Utf8Obs.v prog_obs.
    fn run_case(cs: &[u32], main_src: &str, err_srcs: &[String], s1: char, s2: char, opt: u32, budget: u64) -> Vec<i128> {
        let n = cs.len();
        let r = run_program(main_src, opt, (0, 0), budget, None);
        if r.class != "ok" {
            return vec![-9, class_code(&r.class)];
        }
        let secs: Vec<&str> = r.output.split(s2).collect();
        // len s1 char_len | items (each followed by s1) | cnt | indexed (each followed by s1) | ""
        if secs.len() != 5 || !secs[4].is_empty() { return vec![-8, secs.len() as i128]; }
        let head: Vec<&str> = secs[0].split(s1).collect();
        if head.len() != 2 { return vec![-8, 100]; }
        let (Ok(len), Ok(clen)) = (head[0].parse::<i128>(), head[1].parse::<i128>()) else { return vec![-8, 101] };
        let items: Vec<&str> = if secs[1].is_empty() { vec![] } else {
            let Some(x) = secs[1].strip_suffix(s1) else { return vec![-8, 102] };
            x.split(s1).collect()
        };
        let Ok(cnt) = secs[2].parse::<i128>() else { return vec![-8, 103] };
        if cnt != items.len() as i128 { return vec![-8, 104]; }
        let idx: Vec<&str> = if secs[3].is_empty() { vec![] } else {
            let Some(x) = secs[3].strip_suffix(s1) else { return vec![-8, 105] };
            x.split(s1).collect()
        };
        let mut o = vec![len, clen, items.len() as i128];
        for it in &items { o.extend(bytes_of(it)); }
        // s[-1]
        o.extend(err_obs(&err_srcs[0], opt, budget));
        // s[0..n-1]: number of successful index prints, then each
        o.push(idx.len() as i128);
        for it in &idx { o.extend(bytes_of(it)); }
        let _ = n;
        for e in &err_srcs[1..] { o.extend(err_obs(e, opt, budget)); }
        o
    }

    /// statements calling the character natives on `sv` in the fixed order of Model/Utf8Obs.v nat_obs;
    /// style 0 = method syntax, 1 = qualified `string.f(sv, ..)`
    fn nat_program(n: usize, blen: usize, pad_lit: &str, s1: char, style: u64, needles: &[String]) -> String {
        let call = |f: &str, args: &str| if style == 0 { format!("sv.{}({})", f, args) }
                   else if args.is_empty() { format!("string.{}(sv)", f) } else { format!("string.{}(sv, {})", f, args) };
        let n = n as i64;
        let mut exprs: Vec<String> = Vec::new();
        for i in -1..=n + 1 { exprs.push(call("char_at", &i.to_string())); }
        for (a, l) in [(0, n), (1, 2), (n - 1, 5), (n, 1), (n + 1, 1), (0, 0), (-1, 2), (2, -1), (1, n)] {
            exprs.push(call("substr", &format!("{}, {}", a, l)));
        }
        exprs.push(call("reverse", ""));
        exprs.push(call("pad_left", &format!("{}, pd", n - 1)));
        exprs.push(call("pad_left", &format!("{}, pd", n + 2)));
        exprs.push(call("pad_right", &format!("{}, pd", n + 2)));
        exprs.push(call("pad_right", "0, pd"));
        for k in [-1, 0, 1, 2] { exprs.push(call("repeat", &k.to_string())); }
        exprs.push(call("chars", ""));
        exprs.push(call("split", "\"\""));
        exprs.push(call("concat", "pd"));
        let bl = blen as i64;
        for i in [-1, 0, bl - 1, bl] { exprs.push(call("byte_at", &i.to_string())); }
        for nd in needles { exprs.push(call("find", &format!("\"{}\"", nd))); }
        let mut o = format!("let pd = \"{}\"\n", pad_lit);
        for e in exprs { o.push_str(&format!("print({}); print(\"{}\")\n", e, s1)); }
        o
    }

    /// observation of the natives program: every printed field framed, the last four as integers
    fn run_nat(src: &str, s1: char, opt: u32, budget: u64) -> Vec<i128> {
        let r = run_program(src, opt, (0, 0), budget, None);
        if r.class != "ok" { return vec![-9, class_code(&r.class)]; }
        let Some(body) = r.output.strip_suffix(s1) else { return vec![-8, 1] };
        let fields: Vec<&str> = body.split(s1).collect();
        if fields.len() < 8 { return vec![-8, 2]; }
        let mut o = Vec::new();
        for f in &fields[..fields.len() - 8] { o.extend(bytes_of(f)); }
        for f in &fields[fields.len() - 8..] { match f.parse::<i128>() { Ok(v) => o.push(v), Err(_) => return vec![-8, 3] } }
        o
    }

    fn class_code(c: &str) -> i128 {
        match c {
            "runtime:IndexOutOfBounds" => -1,
            "compile-error" => -3,
            "panic" => -4,
            "budget" => -5,
            "runtime:TypeError" => -6,
            _ => -2,
        }
    }
    fn err_obs(src: &str, opt: u32, budget: u64) -> Vec<i128> {
        let r = run_program(src, opt, (0, 0), budget, None);
        if r.class == "ok" { let mut o = vec![-7]; o.extend(bytes_of(&r.output)); o } else { vec![class_code(&r.class)] }
    }

    pub fn main() {
        quiet_panics();
        let seed = arg_u64("--seed", 0);
        let n_random = arg_u64("--strings", 60) as usize;
        let forms_per = arg_u64("--forms", 3) as usize;
        let n_std = arg_u64("--std", 1500);
        let budget = arg_u64("--budget", 5_000_000);
        let opts: Vec<u32> = arg("--opts").unwrap_or("0,1,2,3".into()).split(',').filter_map(|s| s.parse().ok()).collect();
        let mut rng = Rng::new(seed);

        // ---- corpus programs (file: programs separated by a line `=====`, first line `// name`)
        if let Some(f) = arg("--corpus") {
            let text = std::fs::read_to_string(&f).expect("read corpus");
            for p in text.split("\n=====\n") {
                let name = p.lines().next().unwrap_or("").trim_start_matches('/').trim().to_string();
                for &o in &opts {
                    let r = run_program(p, o, (0, 0), budget, None);
                    let ops = compiled_ops(p, o).map(|a| format!("{},{},{},{},{}", a[0], a[1], a[2], a[3], a[4])).unwrap_or("?".into());
                    println!("K\t{}\t{}\t{}\t{}\t{}", name, o, r.class, esc(&r.output), ops);
                }
            }
            return;
        }

        // ---- S: std primitives
        if !flag("--no-std") {
            let mut scalars: Vec<u32> = Vec::new();
            for base in [0u32, 0x7F, 0x80, 0x7FF, 0x800, 0xD7FF, 0xE000, 0xFFFF, 0x10000, 0x3FFFF, 0x40000, 0xFFFFF, 0x100000, 0x10FFFF] {
                for d in -2i64..=2 {
                    let c = base as i64 + d;
                    if c >= 0 && valid(c as u32) { scalars.push(c as u32); }
                }
            }
            for _ in 0..n_std { scalars.push(rand_scalar(&mut rng)); }
            for &c in &scalars { println!("S\tenc\tQEnc {}\t{}", c, join(&enc_obs(c))); }
            let strs = gen_strings(&mut rng, n_std as usize / 2);
            for cs in &strs {
                let s = to_string(cs);
                let b: Vec<u32> = s.bytes().map(|x| x as u32).collect();
                println!("S\tstr\tQStr {}\t{}", coq_list(&b), join(&str_obs(&s)));
            }
            let step = 0x4000u32;
            let mut lo = 0u32;
            while lo < 0x110000 {
                println!("S\tsum\tQSum {} {}\t{}", lo, lo + step, join(&sum_obs(lo, lo + step)));
                lo += step;
            }
        }

        // ---- R: the three paths under garbage-collection schedules, with heap slots of one-character strings recycled by
        //      OTHER characters of the same UTF-8 length between two observations of the same string
        if !flag("--no-recycle") {
            let alphabets: [(&str, Vec<u32>, Vec<u32>); 5] = [
                ("ascii", (0x61..0x7Bu32).collect(), (0x41..0x5Bu32).collect()),
                ("greek/cyrillic", (0x3B1..0x3C9u32).filter(|c| *c != 0x3C2).collect(), (0x400..0x460u32).collect()),
                ("latin-1/greek", (0xC0..0x100u32).filter(|c| *c != 0xD7 && *c != 0xF7).collect(), (0x391..0x3A1u32).chain(0x3B1..0x3C1u32).collect()),
                ("kana/cjk", (0x3041..0x3090u32).collect(), (0x4E00..0x4E60u32).collect()),
                ("emoji", (0x1F600..0x1F640u32).collect(), (0x1F400..0x1F440u32).collect()),
            ];
            let n_rec = arg_u64("--recycle", 12) as usize;
            let schedules: Vec<(u8, u64)> = vec![(0, 0), (2, 0), (3, 2), (3, 5)];
            let ropts: Vec<u32> = arg("--recycle-opts").unwrap_or("0,2".into()).split(',').filter_map(|s| s.parse().ok()).collect();
            for rc in 0..n_rec {
                let (aname, a, b) = &alphabets[rc % alphabets.len()];
                let len = rng.range_i64(3, 10) as usize;
                // a few distinct characters, repeated: a character is produced again after others took its slot
                let pool: Vec<u32> = (0..rng.range_i64(2, 5)).map(|_| *rng.pick(&a[..])).collect();
                let cs: Vec<u32> = (0..len).map(|_| if rng.chance(2, 3) { *rng.pick(&pool[..]) } else { *rng.pick(&a[..]) }).collect();
                let other: Vec<u32> = (0..rng.range_i64(20, 60)).map(|_| *rng.pick(&b[..])).collect();
                let (s1, s2) = ('#', '|');
                let form = *rng.pick(&["lit", "cat_var", "method_concat", "param_typed"]);
                let cons = construct(&cs, form, &mut rng);
                let round = format!("print(sv.char_len()); print(\"{s2}\")\nfor it in sv {{ print(it); print(\"{s1}\") }}\nprint(\"{s2}\")\nfor jx in 0..sv.char_len() {{ print(sv[jx]); print(\"{s1}\") }}\nprint(\"{s2}\")\n");
                let churn = format!("let oth = \"{}\"\nlet mut seen = 0\nfor oc in oth {{ seen++ }}\nfor ox in 0..oth.char_len() {{ let och = oth[ox]\n seen++ }}\nlet mut junk = \"\"\nfor oj in 0..40 {{ junk = junk + \"xy\" }}\n",
                                    lit(&other, &mut rng));
                let body = format!("{round}{churn}{round}{churn}{round}");
                let src = wrap(&cons, &body, form, rng.chance(1, 3));
                println!("I\t{}\t{}\t{}", rc, aname, esc(&src));
                for &o in &ropts { for &g in &schedules {
                    let r = run_program(&src, o, g, budget * 4, None);
                    let obs: Vec<i128> = if r.class != "ok" { vec![-9, class_code(&r.class)] } else {
                        let secs: Vec<&str> = r.output.split(s2).collect();
                        if secs.len() != 10 || !secs[9].is_empty() { vec![-8, secs.len() as i128] } else {
                            let mut v = Vec::new();
                            for rd in 0..3 {
                                v.push(secs[rd * 3].parse::<i128>().unwrap_or(-77));
                                for k in 1..3 {
                                    let part = secs[rd * 3 + k];
                                    let fields: Vec<&str> = if part.is_empty() { vec![] } else { part.strip_suffix(s1).unwrap_or(part).split(s1).collect() };
                                    v.push(fields.len() as i128);
                                    for f in fields { v.extend(bytes_of(f)); }
                                }
                            }
                            v
                        }
                    };
                    println!("R\t{}:{}:{}:O{}:gc{}.{}\tQRecycle {}\t{}", rc, aname, form, o, g.0, g.1, coq_list(&cs), join(&obs));
                }}
            }
        }

        // ---- F: for-each / range loops inside functions whose loop body ends in `return`, followed by more code;
        //      called with the empty string, one-character and longer strings, at every level
        if !flag("--no-first") {
            let mut fstrs: Vec<Vec<u32>> = vec![vec![], vec![0x1D11E], vec![0xE9], vec![0x41], vec![0], vec![0x1D11E, 0xE9], vec![0x301, 0x61]];
            for _ in 0..arg_u64("--first", 20) {
                let len = rng.range_i64(0, 6) as usize;
                fstrs.push((0..len).map(|_| rand_scalar(&mut rng)).collect());
            }
            for (fi, cs) in fstrs.iter().enumerate() {
                let mut with_marker = cs.clone(); with_marker.extend("<none>".chars().map(|c| c as u32));
                let (s1, _) = pick_seps(&with_marker);
                let form = *rng.pick(&["lit", "cat_var", "method_concat", "fn_ret", "interp"]);
                let typed = rng.chance(1, 2);
                let p = if typed { "u: string" } else { "u" };
                let cons = construct(cs, form, &mut rng);
                let emptied = rng.chance(1, 3);      // the empty string made at run time
                let src = format!("fn first_item({p}) {{\n    for c in u {{\n        return c\n    }}\n    return \"<none>\"\n}}\n\
fn yields_nothing({p}) {{\n    for c in u {{\n        return 0\n    }}\n    return 1\n}}\n\
fn idx_first({p}) {{\n    for jx in 0..u.char_len() {{\n        return u[jx]\n    }}\n    return \"<none>\"\n}}\n\
fn count_after({p}) {{\n    let mut k = 0\n    for c in u {{\n        k++\n    }}\n    return k\n}}\n\
{cons}{mk}print(first_item(sv)); print(\"{s1}\"); print(idx_first(sv)); print(\"{s1}\"); print(first_item(em)); print(\"{s1}\")\n\
print(yields_nothing(sv)); print(\"{s1}\"); print(yields_nothing(em)); print(\"{s1}\"); print(count_after(sv)); print(\"{s1}\"); print(count_after(em)); print(\"{s1}\")\n",
                    mk = if emptied { "let em = sv.substr(sv.char_len(), 5)\n" } else { "let em = \"\"\n" });
                println!("J\t{}\t{}\t{}", fi, form, esc(&src));
                for &o in &opts {
                    let r = run_program(&src, o, (0, 0), budget, None);
                    let obs: Vec<i128> = if r.class != "ok" { vec![-9, class_code(&r.class)] } else {
                        match r.output.strip_suffix(s1) {
                            None => vec![-8, 1],
                            Some(b) => { let f: Vec<&str> = b.split(s1).collect();
                                if f.len() != 7 { vec![-8, f.len() as i128] } else {
                                    let mut v = Vec::new();
                                    for x in &f[..3] { v.extend(bytes_of(x)); }
                                    for x in &f[3..] { v.push(x.parse::<i128>().unwrap_or(-77)); }
                                    v } }
                        }
                    };
                    println!("F\t{}:{}:{}:{}:O{}\tQFirst {}\t{}", fi, form, if typed { "typed" } else { "untyped" }, if emptied { "substr-empty" } else { "lit-empty" }, o, coq_list(cs), join(&obs));
                }
            }
        }

        // ---- B: for-each bodies that are not straight-line code
        if !flag("--no-body") {
            let mut bstrs: Vec<Vec<u32>> = vec![vec![], vec![0x41], vec![0x1F600], "日本語 text ünï 😀".chars().map(|c| c as u32).collect(),
                "aébécédé".chars().map(|c| c as u32).collect(), vec![0x61, 0x61, 0x61], vec![0x20AC, 0x61, 0x20AC, 0x1F600, 0x61]];
            for _ in 0..arg_u64("--body", 25) {
                let len = rng.range_i64(1, 12) as usize;
                let pool: Vec<u32> = (0..rng.range_i64(2, 6)).map(|_| loop { let c = rand_scalar(&mut rng); if c >= 0x20 && c != 0x7F { break c; } }).collect();
                bstrs.push((0..len).map(|_| *rng.pick(&pool[..])).collect());
            }
            for (bi, cs) in bstrs.iter().enumerate() {
                let n = cs.len();
                let pivot: u32 = if n == 0 || rng.chance(1, 5) { 0x78 } else { cs[n / 2] };
                let ds: Vec<u32> = if rng.chance(1, 2) || n == 0 { vec![0x61, 0xE9, 0x78] } else { cs.iter().rev().take(4).cloned().collect() };
                let mut all = cs.clone(); all.extend(ds.iter()); all.push(pivot);
                let (s1, _) = pick_seps(&all);
                let form = *rng.pick(&["lit", "cat_var", "method_concat", "fn_ret", "interp", "param_typed"]);
                let cons = construct(cs, form, &mut rng);
                let body = format!("let tv = \"{t}\"\nlet pv = \"{p}\"\n\
let mut items = 0\nlet mut wide = 0\nfor c1 in sv {{\n    items = items + 1\n    if c1.len() == 1 {{ continue }}\n    wide = wide + 1\n}}\nprint(items); print(\"{s1}\"); print(wide); print(\"{s1}\")\n\
let mut kk = 0\nlet mut acc = \"\"\nfor c2 in sv {{\n    kk++\n    if kk % 2 == 0 {{ continue }}\n    acc = acc + c2\n}}\nprint(kk); print(\"{s1}\"); print(acc); print(\"{s1}\")\n\
let mut ne = 0\nlet mut tot = 0\nfor c3 in sv {{\n    tot++\n    if c3 == pv {{ continue }}\n    ne++\n}}\nprint(tot); print(\"{s1}\"); print(ne); print(\"{s1}\")\n\
let mut pre = \"\"\nlet mut seen = 0\nfor c4 in sv {{\n    if c4 == pv {{ break }}\n    seen++\n    pre = pre + c4\n}}\nprint(seen); print(\"{s1}\"); print(pre); print(\"{s1}\")\n\
let mut pairs = 0\nlet mut outer = 0\nfor oa in sv {{\n    if oa.len() > 2 {{ continue }}\n    for ib in tv {{\n        if ib == oa {{ continue }}\n        pairs++\n    }}\n    outer++\n}}\nprint(pairs); print(\"{s1}\"); print(outer); print(\"{s1}\")\n\
let mut viaf = \"\"\nfor c6 in sv {{\n    let getc = fn() {{ return c6 }}\n    viaf = viaf + getc()\n}}\nprint(viaf); print(\"{s1}\")\n\
print(find_pos(sv, pv)); print(\"{s1}\"); print(find_pos(sv, \"\\0\")); print(\"{s1}\")\n\
let mut total = 0\nlet mut bytes = 0\nfor c8 in sv {{\n    let a1 = c8.len()\n    let a2 = a1 * 2\n    let a3 = helper3(a1, a2)\n    let a4 = a3 - a2\n    total = total + a3\n    if a3 > 100 {{ continue }}\n    bytes = bytes + a4\n}}\nprint(total); print(\"{s1}\"); print(bytes); print(\"{s1}\")\n",
                    t = lit(&ds, &mut rng), p = lit(&[pivot], &mut rng));
                let local = rng.chance(1, 3);
                let src = format!("fn find_pos(u, q) {{\n    let mut i = 0\n    for c7 in u {{\n        if c7 == q {{ return i }}\n        i++\n    }}\n    return -1\n}}\nfn helper3(a, b) {{ return a + b }}\n{}",
                                  wrap(&cons, &body, form, local));
                println!("L\t{}\t{}\t{}", bi, form, esc(&src));
                for &o in &opts {
                    let r = run_program(&src, o, (0, 0), budget, None);
                    let obs: Vec<i128> = if r.class != "ok" { vec![-9, class_code(&r.class)] } else {
                        match r.output.strip_suffix(s1) {
                            None => vec![-8, 1],
                            Some(b) => { let f: Vec<&str> = b.split(s1).collect();
                                if f.len() != 15 { vec![-8, f.len() as i128] } else {
                                    let mut v = Vec::new();
                                    for (k, x) in f.iter().enumerate() {
                                        if k == 3 || k == 7 || k == 10 { v.extend(bytes_of(x)); } else { v.push(x.parse::<i128>().unwrap_or(-77)); }
                                    }
                                    v } }
                        }
                    };
                    println!("B\t{}:{}:{}:O{}\tQBody {} {} [{}]\t{}", bi, form, if local { "local" } else { "global" }, o, coq_list(cs), coq_list(&ds), pivot, join(&obs));
                }
            }
        }

        // ---- P: programs
        if flag("--no-prog") { return; }
        let strs = gen_strings(&mut rng, n_random);
        let total = strs.len();
        let mut case_id = 0usize;
        for (si, cs) in strs.iter().enumerate() {
            let n = cs.len();
            let (s1, s2) = pick_seps(cs);
            // long strings: fewer forms (they cost n index programs)
            let nf = if n > 60 { 1 } else if si < total - n_random { forms_per.max(2) } else { forms_per };
            let mut chosen: Vec<&str> = Vec::new();
            // every string is seen as a literal at least once for the fixed set
            if si < total - n_random { chosen.push("lit"); }
            while chosen.len() < nf {
                let f = *rng.pick(&FORMS);
                if !chosen.contains(&f) { chosen.push(f); }
            }
            for form in chosen {
                let idx_form = *rng.pick(&IDX_FORMS);
                let local = rng.chance(1, 3);
                let cons = construct(cs, form, &mut rng);
                // an immutable top-level constant named like the loop variables, declared before the loops: the loops' own
                // variables must shadow it at every optimisation level
                let collide = rng.chance(1, 2);
                // the constants stand directly before the loops: at top level, inside `fn entry()`, or inside `fn obs(u)`
                let main_src = wrap(&cons, &format!("{}{}", if collide { "let it = \"?\"\nlet jx = 0\n" } else { "" }, observe("sv", n, idx_form, s1, s2)), form, local);
                let mut err_srcs = Vec::new();
                for (k, i) in [-1i64, n as i64, n as i64 + 1].iter().enumerate() {
                    let body = if k == 0 && rng.chance(1, 2) { "let neg = 0 - 1\nprint(sv[neg])\n".to_string() }
                               else if rng.chance(1, 3) { format!("let ii = {}\nprint(sv[ii])\n", i) }
                               else { format!("print(sv[{}])\n", i) };
                    err_srcs.push(wrap(&cons, &body, form, local));
                }
                println!("G\t{}\t{}/{}/{}\t{}", case_id, form, idx_form, if local { "local" } else { "global" }, esc(&main_src));
                // the character natives on the same string (not for the two long strings: n + 30 calls per program)
                if n <= 60 {
                    let pads: [&[u32]; 7] = [&[0x2A], &[0xE9], &[0x1F600], &[], &[0x61, 0x62], &[0x20AC, 0x78], &[0x30]];
                    let ps: Vec<u32> = rng.pick(&pads[..]).to_vec();
                    let mut both = cs.clone(); both.extend(ps.iter());
                    let (n1, _) = pick_seps(&both);
                    let style = rng.below(2);
                    let blen = to_string(cs).len();
                    let mut zz = cs.clone(); zz.push(122);
                    let needle_cs: [Vec<u32>; 4] = [cs.iter().skip(n / 2).take(1).cloned().collect(), cs[n.saturating_sub(2)..].to_vec(), vec![], zz];
                    let needles: Vec<String> = needle_cs.iter().map(|x| lit(x, &mut rng)).collect();
                    let nat_src = wrap(&cons, &nat_program(n, blen, &lit(&ps, &mut rng), n1, style, &needles), form, local);
                    println!("H\t{}\t{}\t{}", case_id, form, esc(&nat_src));
                    for &o in &opts {
                        let obs = run_nat(&nat_src, n1, o, budget);
                        println!("N\t{}:{}:{}:style{}:O{}\tQNat {} {}\t{}", case_id, form, if local { "local" } else { "global" }, style, o,
                                 coq_list(cs), coq_list(&ps), join(&obs));
                    }
                }
                for &o in &opts {
                    let obs = run_case(cs, &main_src, &err_srcs, s1, s2, o, budget);
                    // which for-each opcode did the compiler select for the string?  (chr_loop has one genuine Vec loop)
                    let ops = compiled_ops(&main_src, o);
                    let (sel, opss) = match ops {
                        Some(a) => (if a[0] >= 1 { "SelString" } else { "SelDynamic" }, format!("{},{},{},{},{}", a[0], a[1], a[2], a[3], a[4])),
                        None => ("SelString", "?".to_string()),
                    };
                    println!("P\t{}:{}:{}:{}:O{}:{}\tQProg {} {}\t{}", case_id, form, idx_form, if local && collide { "local+const" } else if local { "local" } else if collide { "global+const" } else { "global" }, o, opss,
                             sel, coq_list(cs), join(&obs));
                }
                case_id += 1;
            }
        }
    }
}

#[cfg(vbxq_aelys_lang_verif)]
fn main() {
    let h = std::thread::Builder::new().stack_size(256 << 20).spawn(imp::main).unwrap();
    h.join().unwrap();
}
#[cfg(not(vbxq_aelys_lang_verif))]
fn main() { eprintln!("built without hooks"); std::process::exit(2); }
