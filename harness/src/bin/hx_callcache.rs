//! C05 tie (observational, histories).
//!
//! Generates seeded random histories of definitions, rebindings (function <-> closure <->
//! native <-> non-callable) and calls from several call sites (top level and function bodies),
//! as (a) one program, (b) a multi-input REPL session sharing one VM, (c) a program that goes
//! through serialize/deserialize before it runs.  Every user function body prints its own tag;
//! natives are identified by what they return.  For each session one line is printed:
//!
//!   CASE \t mode \t <Coq term: list (list event)> \t <observed> \t <spec> \t <escaped source>
//!
//! observed/spec = per input `[status; number of tags; first 24 tags]`.  `spec` is computed by
//! a reference interpreter of the property itself (a call runs what the name denotes now); it
//! does not know about caches, slots or patching.  The Coq term carries the call sites with
//! the slot ids read from the real compiled bytecode and the real heap indices of the
//! callees, so the Coq model can predict what the cache protocol does.
//!
//! `--session FILE [--opt N] [--dump]` replays a hand-written session (inputs separated by a
//! line `=====`) and prints one line per input.
#[cfg(vbxq_aelys_lang_verif)]
mod imp {
    use aelys_bytecode::object::ObjectKind;
    use aelys_bytecode::{Function, GcRef};
    use aelys_runtime::VM;
    use hxlib::runner::*;
    use hxlib::*;
    use std::collections::{HashMap, HashSet};

    pub const TAG_ABS: u64 = 1;
    pub const TAG_FLOOR: u64 = 2;
    pub const TAG_TYPE: u64 = 3;
    pub const TAG_UNKNOWN: u64 = 999;
    pub const BUILTINS: &[&str] = &["alloc", "free", "load", "store", "type"];

    /// (offset, opcode, global index, cache word 1, cache word 2)
    pub fn scan_sites(bc: &[u32]) -> Vec<(usize, u8, u8, u32, u32)> {
        let mut v = Vec::new();
        let mut i = 0;
        while i < bc.len() {
            let op = (bc[i] >> 24) as u8;
            if (op == 77 || op == 78 || op == 104) && i + 2 < bc.len() {
                v.push((i, op, ((bc[i] >> 8) & 0xFF) as u8, bc[i + 1], bc[i + 2]));
                i += 3;
            } else {
                i += 1;
            }
        }
        v
    }

    #[derive(Clone, Debug)]
    pub struct RawSite { pub op: u8, pub callee: String, pub slot: u32 }

    /// call sites of one function (own code only), `io::println` wrappers dropped
    pub fn sites_of(f: &Function) -> Vec<RawSite> {
        let names = f.global_layout.names();
        scan_sites(f.bytecode.as_slice()).into_iter().filter_map(|(_, op, idx, _w1, w2)| {
            let callee = names.get(idx as usize).cloned().unwrap_or_default();
            if callee == "io::println" { return None; }
            Some(RawSite { op, callee, slot: w2 & 0xFFFF })
        }).collect()
    }

    pub fn live_functions(vm: &VM) -> Vec<(usize, usize, Option<String>)> {
        let heap = vm.heap();
        let live = heap.object_count();
        let (mut seen, mut idx) = (0usize, 0usize);
        let mut out = Vec::new();
        while seen < live && idx < 10_000_000 {
            if let Some(obj) = heap.get(GcRef::new(idx)) {
                seen += 1;
                if let ObjectKind::Function(f) = &obj.kind {
                    out.push((idx, f.function.bytecode.as_ptr() as usize, f.function.name.clone()));
                }
            }
            idx += 1;
        }
        out
    }

    // ------------------------------------------------------------------ generated language
    #[derive(Clone, Debug, PartialEq)]
    pub enum Rhs { Name(String), Closure(u64), NonCallable,
                   /// a function literal without captures: a plain function object that only the assigned global refers to
                   Lambda(u64) }
    #[derive(Clone, Debug, PartialEq)]
    pub enum Stmt {
        DefFn { name: String, tag: u64, body: Vec<String> },
        LetMut { name: String, rhs: Rhs },
        Assign { name: String, rhs: Rhs },
        Call { name: String },
    }

    pub fn tag_text(t: u64) -> String { format!("T{}", t - 10) }

    pub fn render(stmts: &[Stmt]) -> String {
        let mut s = String::new();
        for st in stmts {
            match st {
                Stmt::DefFn { name, tag, body } => {
                    s.push_str(&format!("fn {}(x) {{ println(\"{}\"); ", name, tag_text(*tag)));
                    for c in body { s.push_str(&format!("println({}(-2.5)); ", c)); }
                    s.push_str("return \".\" }\n");
                }
                Stmt::LetMut { name, rhs } | Stmt::Assign { name, rhs } => {
                    let kw = if matches!(st, Stmt::LetMut { .. }) { "let mut " } else { "" };
                    match rhs {
                        Rhs::Name(n) => s.push_str(&format!("{}{} = {}\n", kw, name, n)),
                        Rhs::NonCallable => s.push_str(&format!("{}{} = 5\n", kw, name)),
                        Rhs::Closure(t) => s.push_str(&format!(
                            "if true {{ let mut cap = \"{}\"; {} = fn(x) {{ println(cap); return \".\" }} }}\n", tag_text(*t), name)),
                        Rhs::Lambda(t) => s.push_str(&format!("{}{} = fn(x) {{ println(\"{}\"); return \".\" }}\n", kw, name, tag_text(*t))),
                    }
                }
                Stmt::Call { name } => s.push_str(&format!("println({}(-2.5))\n", name)),
            }
        }
        s
    }

    // ------------------------------------------------------------------ reference interpreter (the property)
    #[derive(Clone, Debug)]
    pub enum SVal { Fn { tag: u64, body: Vec<String> }, Clo(u64), Nat(u64), Other }

    pub struct Spec { pub env: HashMap<String, SVal> }
    impl Spec {
        pub fn new() -> Self {
            let mut env = HashMap::new();
            env.insert("abs".to_string(), SVal::Nat(TAG_ABS));
            env.insert("floor".to_string(), SVal::Nat(TAG_FLOOR));
            env.insert("type".to_string(), SVal::Nat(TAG_TYPE));
            Spec { env }
        }
        /// returns status (0 ok, 1 error, 2 stack overflow)
        fn call(&self, name: &str, frames: usize, out: &mut Vec<u64>) -> u64 {
            match self.env.get(name) {
                Some(SVal::Nat(t)) => { out.push(*t); 0 }
                Some(SVal::Clo(t)) => { if frames >= 1024 { return 2; } out.push(*t); 0 }
                Some(SVal::Fn { tag, body }) => {
                    if frames >= 1024 { return 2; }
                    out.push(*tag);
                    for c in body {
                        let r = self.call(c, frames + 1, out);
                        if r != 0 { return r; }
                    }
                    0
                }
                _ => 1,
            }
        }
        pub fn run_input(&mut self, stmts: &[Stmt]) -> (u64, Vec<u64>) {
            let mut out = Vec::new();
            for st in stmts {
                match st {
                    Stmt::DefFn { name, tag, body } => { self.env.insert(name.clone(), SVal::Fn { tag: *tag, body: body.clone() }); }
                    Stmt::LetMut { name, rhs } | Stmt::Assign { name, rhs } => {
                        let v = match rhs {
                            Rhs::Name(n) => self.env.get(n).cloned().unwrap_or(SVal::Other),
                            Rhs::Closure(t) | Rhs::Lambda(t) => SVal::Clo(*t),
                            Rhs::NonCallable => SVal::Other,
                        };
                        self.env.insert(name.clone(), v);
                    }
                    Stmt::Call { name } => {
                        let r = self.call(name, 1, &mut out);
                        if r != 0 { return (r, out); }
                    }
                }
            }
            (0, out)
        }
    }

    // ------------------------------------------------------------------ generator
    pub struct Gen {
        pub rng: Rng,
        pub next_tag: u64,
        pub leafs: Vec<String>, pub mids: Vec<String>, pub tops: Vec<String>,
        pub vs: Vec<String>, pub ws: Vec<String>,
        pub type_rebound: bool,
    }
    impl Gen {
        pub fn new(seed: u64) -> Self {
            Gen { rng: Rng::new(seed), next_tag: 11, leafs: vec![], mids: vec![], tops: vec![], vs: vec![], ws: vec![], type_rebound: false }
        }
        pub fn fresh_tag(&mut self) -> u64 { let t = self.next_tag; self.next_tag += 1; t }
        fn pick(&mut self, xs: &[String]) -> String { xs[self.rng.below(xs.len() as u64) as usize].clone() }
        fn leaf_rhs(&mut self, allow_closure: bool) -> Rhs {
            let r = self.rng.below(100);
            if r < 40 && !self.leafs.is_empty() { let l = self.leafs.clone(); Rhs::Name(self.pick(&l)) }
            else if r < 55 { Rhs::Name("abs".into()) }
            else if r < 65 { Rhs::Name("floor".into()) }
            else if r < 72 { Rhs::Name("type".into()) }
            else if r < 95 && allow_closure { Rhs::Closure(self.fresh_tag()) }
            else if r < 97 { Rhs::NonCallable }
            else if !self.leafs.is_empty() { let l = self.leafs.clone(); Rhs::Name(self.pick(&l)) }
            else { Rhs::Name("abs".into()) }
        }
        /// one input; `first`: nothing is defined yet; `allow_redef`: later REPL input
        pub fn input(&mut self, nstmts: usize, allow_redef: bool, native_rebind: bool) -> Vec<Stmt> {
            let mut out: Vec<Stmt> = Vec::new();
            let mut defd: HashSet<String> = HashSet::new();       // fn names defined in this input
            let mut frozen: HashSet<String> = HashSet::new();     // vars that received a closure in this input
            let mut noncallable_called = false;
            for _ in 0..nstmts {
                if noncallable_called { break; }
                // the staleness pattern itself: a body site is warmed, its callee's binding changes, the site runs again
                if self.rng.chance(1, 8) && !self.leafs.is_empty() && (self.mids.len() < 3 || !self.vs.is_empty()) {
                    let v = if !self.vs.is_empty() && self.rng.chance(2, 3) { let l = self.vs.clone(); self.pick(&l) }
                            else if self.vs.len() < 3 { let name = format!("v{}", self.vs.len());
                                   let rhs = if self.rng.chance(5, 6) { let l = self.leafs.clone(); Rhs::Name(self.pick(&l)) } else { self.leaf_rhs(false) };
                                   self.vs.push(name.clone()); out.push(Stmt::LetMut { name: name.clone(), rhs }); name }
                            else { let l = self.vs.clone(); self.pick(&l) };
                    if frozen.contains(&v) { continue; }
                    let m = if self.mids.len() < 3 { format!("m{}", self.mids.len()) } else { let l = self.mids.clone(); self.pick(&l) };
                    if !defd.contains(&m) && (allow_redef || !self.mids.contains(&m)) {
                        if !self.mids.contains(&m) { self.mids.push(m.clone()); }
                        defd.insert(m.clone());
                        let tag = self.fresh_tag();
                        let mut body = vec![v.clone()];
                        if self.rng.chance(1, 2) { let l = self.leafs.clone(); body.push(self.pick(&l)); }
                        out.push(Stmt::DefFn { name: m.clone(), tag, body });
                    }
                    out.push(Stmt::Call { name: m.clone() });
                    // mostly user functions / closures here: natives put the site into the (known) CallGlobalNative class
                    let mut rhs = self.leaf_rhs(true);
                    for _ in 0..4 {
                        let native = matches!(&rhs, Rhs::Name(n) if n == "abs" || n == "floor" || n == "type");
                        if !native || self.rng.chance(1, 6) { break; }
                        rhs = self.leaf_rhs(true);
                    }
                    if matches!(rhs, Rhs::Closure(_)) { frozen.insert(v.clone()); }
                    out.push(Stmt::Assign { name: v.clone(), rhs });
                    out.push(Stmt::Call { name: m });
                    continue;
                }
                let r = self.rng.below(100);
                if r < 12 || self.leafs.is_empty() {
                    // leaf definition (new or, across inputs, redefinition)
                    let name = if allow_redef && !self.leafs.is_empty() && self.rng.chance(1, 2) {
                        let l = self.leafs.clone(); self.pick(&l)
                    } else if self.leafs.len() < 3 { format!("l{}", self.leafs.len()) } else { continue };
                    if defd.contains(&name) { continue; }
                    if !self.leafs.contains(&name) { self.leafs.push(name.clone()); }
                    defd.insert(name.clone());
                    let tag = self.fresh_tag();
                    out.push(Stmt::DefFn { name, tag, body: vec![] });
                } else if r < 26 {
                    let name = if allow_redef && !self.mids.is_empty() && self.rng.chance(1, 2) {
                        let l = self.mids.clone(); self.pick(&l)
                    } else if self.mids.len() < 3 { format!("m{}", self.mids.len()) } else { continue };
                    if defd.contains(&name) { continue; }
                    let mut pool = self.leafs.clone(); pool.extend(self.vs.clone());
                    if self.rng.chance(1, 8) { pool.push("abs".into()); pool.push("type".into()); }
                    let n = 1 + self.rng.below(2) as usize;
                    let body: Vec<String> = (0..n).map(|_| self.pick(&pool)).collect();
                    if !self.mids.contains(&name) { self.mids.push(name.clone()); }
                    defd.insert(name.clone());
                    let tag = self.fresh_tag();
                    out.push(Stmt::DefFn { name, tag, body });
                } else if r < 34 && !self.mids.is_empty() {
                    let name = if allow_redef && !self.tops.is_empty() && self.rng.chance(1, 2) {
                        let l = self.tops.clone(); self.pick(&l)
                    } else if self.tops.len() < 2 { format!("t{}", self.tops.len()) } else { continue };
                    if defd.contains(&name) { continue; }
                    let mut pool = self.mids.clone(); pool.extend(self.ws.clone()); pool.extend(self.vs.clone());
                    let n = 1 + self.rng.below(2) as usize;
                    let body: Vec<String> = (0..n).map(|_| self.pick(&pool)).collect();
                    if !self.tops.contains(&name) { self.tops.push(name.clone()); }
                    defd.insert(name.clone());
                    let tag = self.fresh_tag();
                    out.push(Stmt::DefFn { name, tag, body });
                } else if r < 42 && self.vs.len() < 3 {
                    let name = format!("v{}", self.vs.len());
                    let rhs = self.leaf_rhs(false);
                    self.vs.push(name.clone());
                    out.push(Stmt::LetMut { name, rhs });
                } else if r < 46 && self.ws.len() < 2 && !self.mids.is_empty() {
                    let name = format!("w{}", self.ws.len());
                    let m = self.mids.clone();
                    let rhs = Rhs::Name(self.pick(&m));
                    self.ws.push(name.clone());
                    out.push(Stmt::LetMut { name, rhs });
                } else if r < 62 && !self.vs.is_empty() {
                    let v = self.vs.clone();
                    let name = self.pick(&v);
                    if frozen.contains(&name) { continue; }
                    let rhs = self.leaf_rhs(true);
                    if matches!(rhs, Rhs::Closure(_)) { frozen.insert(name.clone()); }
                    out.push(Stmt::Assign { name, rhs });
                } else if r < 68 && !self.ws.is_empty() {
                    let w = self.ws.clone();
                    let name = self.pick(&w);
                    let m = self.mids.clone();
                    let rhs = Rhs::Name(self.pick(&m));
                    out.push(Stmt::Assign { name, rhs });
                } else if r < 70 && native_rebind && !self.leafs.is_empty() {
                    // rebinding the builtin native name itself (its call sites are emitted as CallGlobalNative)
                    let l = self.leafs.clone();
                    let rhs = Rhs::Name(self.pick(&l));
                    self.type_rebound = true;
                    out.push(Stmt::Assign { name: "type".into(), rhs });
                } else {
                    let mut pool: Vec<String> = Vec::new();
                    pool.extend(self.leafs.clone()); pool.extend(self.mids.clone()); pool.extend(self.mids.clone());
                    pool.extend(self.tops.clone()); pool.extend(self.tops.clone());
                    pool.extend(self.vs.clone()); pool.extend(self.ws.clone());
                    if self.rng.chance(1, 10) { pool.push("abs".into()); pool.push("floor".into()); pool.push("type".into()); }
                    if pool.is_empty() { continue; }
                    let name = self.pick(&pool);
                    out.push(Stmt::Call { name });
                }
            }
            out
        }
    }

    // ------------------------------------------------------------------ running + model query
    pub struct Names { pub ids: HashMap<String, u64>, pub order: Vec<String> }
    impl Names {
        pub fn id(&mut self, n: &str) -> u64 {
            if let Some(i) = self.ids.get(n) { return *i; }
            let i = self.order.len() as u64;
            self.ids.insert(n.to_string(), i);
            self.order.push(n.to_string());
            i
        }
    }
    /// the global a source name resolves to in the compiled code
    pub fn global_of(name: &str) -> String {
        match name { "abs" => "math::abs".into(), "floor" => "math::floor".into(), n => n.to_string() }
    }
    pub fn emitted_native(callee: &str) -> bool { callee.contains("::") || BUILTINS.contains(&callee) }

    #[derive(Clone, Copy, Debug, PartialEq)]
    pub enum MVal { Ptr(usize), Null, Other }
    pub fn mval_of(vm: &VM, name: &str) -> MVal {
        match vm.get_global(name) {
            None => MVal::Null,
            Some(v) => match v.as_ptr() { Some(p) => MVal::Ptr(p), None => if v.is_null() { MVal::Null } else { MVal::Other } },
        }
    }
    pub fn kind_of(vm: &VM, p: usize) -> &'static str {
        match vm.heap().get(GcRef::new(p)) {
            Some(o) => match &o.kind { ObjectKind::Function(_) => "KFn", ObjectKind::Closure(_) => "KClo", ObjectKind::Native(_) => "KNat", _ => "?" },
            None => "?",
        }
    }
    pub fn coq_gval(v: MVal) -> String {
        match v { MVal::Ptr(p) => format!("(GPtr {})", p), MVal::Null => "GNull".into(), MVal::Other => "GOther".into() }
    }

    pub fn parse_output(out: &str) -> Vec<u64> {
        let mut v = Vec::new();
        for line in out.lines() {
            let l = line.trim_end();
            if l == "." { continue; }
            if let Some(n) = l.strip_prefix('T').and_then(|x| x.parse::<u64>().ok()) { v.push(n + 10); }
            else if l == "2.5" { v.push(TAG_ABS); }
            else if l == "-3" { v.push(TAG_FLOOR); }
            else if l == "float" { v.push(TAG_TYPE); }
            else { v.push(TAG_UNKNOWN); }
        }
        v
    }
    pub fn status_of(class: &str) -> u64 {
        match class {
            "ok" => 0,
            "runtime:StackOverflow" => 2,
            "compile-error" => 6,
            "panic" => 5,
            "budget" => 7,
            c if c.starts_with("runtime:") => 1,
            _ => 8,
        }
    }
    pub fn obs_term(status: u64, tags: &[u64]) -> String {
        let mut v = vec![status.to_string(), tags.len().to_string()];
        v.extend(tags.iter().take(24).map(|t| t.to_string()));
        format!("[{}]", v.join("; "))
    }

    pub struct Session {
        pub names: Names,
        pub next_site: u64,
        pub table: HashMap<String, MVal>,     // harness bookkeeping of what each global holds (real pointers)
        pub known_ptrs: HashSet<usize>,
        pub seen_tops: HashSet<(usize, usize)>,
        pub problems: Vec<String>,
        pub kinds_seen: HashSet<&'static str>,
    }

    impl Session {
        pub fn new() -> Self {
            Session { names: Names { ids: HashMap::new(), order: vec![] }, next_site: 0, table: HashMap::new(),
                      known_ptrs: HashSet::new(), seen_tops: HashSet::new(), problems: vec![], kinds_seen: HashSet::new() }
        }
        /// events that describe the natives every VM starts with
        pub fn prelude(&mut self, vm: &VM) -> Vec<String> {
            let mut ev = Vec::new();
            for (g, tag) in [("math::abs", TAG_ABS), ("math::floor", TAG_FLOOR), ("type", TAG_TYPE)] {
                match mval_of(vm, g) {
                    MVal::Ptr(p) => {
                        let id = self.names.id(g);
                        ev.push(format!("Alloc {} (mkObj KNat {} [])", p, tag));
                        ev.push(format!("SetGlobal {} (GPtr {})", id, p));
                        self.table.insert(g.to_string(), MVal::Ptr(p));
                        self.known_ptrs.insert(p);
                    }
                    _ => self.problems.push(format!("native {} not found in the VM", g)),
                }
            }
            for (i, a, _) in live_functions(vm) { self.seen_tops.insert((i, a)); }
            ev
        }

        /// After the real run of one input: find the unit's top-level function, read the call
        /// sites, and produce the model events of this input.  `top`: the unit's root function
        /// when the caller has it (reload mode), else it is looked up in the VM heap.
        /// `orig_slots`: slot ids before serialisation (reload mode), by function name.
        pub fn events_for_input(&mut self, vm: &VM, stmts: &[Stmt], failed: bool, top: Option<&Function>,
                                orig: Option<&HashMap<String, Vec<RawSite>>>) -> Vec<String> {
            let mut ev: Vec<String> = Vec::new();
            // --- locate the unit's functions
            let mut per_fn: HashMap<String, Vec<RawSite>> = HashMap::new();   // "" = top level
            let root_owned;
            let root: Option<&Function> = match top {
                Some(f) => Some(f),
                None => {
                    let cands: Vec<(usize, usize)> = live_functions(vm).into_iter()
                        .filter(|(i, a, n)| n.is_none() && !self.seen_tops.contains(&(*i, *a))).map(|(i, a, _)| (i, a)).collect();
                    for c in &cands { self.seen_tops.insert(*c); }
                    if cands.len() != 1 {
                        self.problems.push(format!("expected one new top-level function, found {}", cands.len()));
                        None
                    } else {
                        root_owned = match vm.heap().get(GcRef::new(cands[0].0)) {
                            Some(o) => match &o.kind { ObjectKind::Function(f) => Some(f.function.clone()), _ => None },
                            None => None,
                        };
                        root_owned.as_ref()
                    }
                }
            };
            if let Some(r) = root {
                per_fn.insert(String::new(), sites_of(r));
                for n in &r.nested_functions {
                    if let Some(name) = &n.name { if name != "<lambda>" { per_fn.insert(name.clone(), sites_of(n)); } }
                    if !n.nested_functions.is_empty() && n.name.as_deref() != Some("<lambda>") {
                        self.problems.push("unexpected nested function inside a generated function".into());
                    }
                }
            }
            // in reload mode the pre-serialisation slot ids are supplied; the post-reload ones are checked to be 0
            let pre = |fname: &str, k: usize, cur: &RawSite| -> RawSite {
                match orig.and_then(|o| o.get(fname)).and_then(|v| v.get(k)) { Some(s) => s.clone(), None => cur.clone() }
            };
            // --- slots: read from 77/78; sites patched 77->104 get the unit's missing slot numbers
            let mut all: Vec<(String, usize)> = Vec::new();
            let mut fnames: Vec<String> = per_fn.keys().cloned().collect();
            fnames.sort();
            let mut used: HashSet<u32> = HashSet::new();
            let mut need: Vec<(String, usize)> = Vec::new();
            let mut resolved: HashMap<(String, usize), (bool, u32)> = HashMap::new();   // (native?, slot)
            for f in &fnames {
                for (k, s0) in per_fn[f].iter().enumerate() {
                    let s = pre(f, k, s0);
                    all.push((f.clone(), k));
                    if emitted_native(&s.callee) { resolved.insert((f.clone(), k), (true, 0)); }
                    else if s.op == 104 { need.push((f.clone(), k)); }
                    else {
                        // (a site that was de-specialised from 104 back to 77 carries slot id 0, so ids may repeat)
                        used.insert(s.slot);
                        resolved.insert((f.clone(), k), (false, s.slot));
                    }
                }
            }
            // a site that now holds 104 but was emitted as 77 lost its slot id when it was patched; it never touched
            // the cache (the 77 path writes no entry for a native), so any id that collides with nothing will do
            let mut free = (0u32..).filter(|x| !used.contains(x) && *x >= 60000);
            for key in need {
                let s = free.next().unwrap();
                resolved.insert(key, (false, s));
            }
            // --- site ids: bodies of the functions defined by this input in statement order, then the top level
            let mut decls: Vec<String> = Vec::new();
            let mut sid_of: HashMap<(String, usize), u64> = HashMap::new();
            let mut order: Vec<String> = stmts.iter().filter_map(|s| if let Stmt::DefFn { name, .. } = s { Some(name.clone()) } else { None }).collect();
            order.push(String::new());
            let mut retire: Vec<u64> = Vec::new();
            for f in &order {
                let n = per_fn.get(f).map(|v| v.len()).unwrap_or(0);
                for k in 0..n {
                    let s = pre(f, k, &per_fn[f][k]);
                    let (nat, slot) = resolved[&(f.clone(), k)];
                    let sid = self.next_site; self.next_site += 1;
                    sid_of.insert((f.clone(), k), sid);
                    let gid = self.names.id(&s.callee);
                    decls.push(format!("mkDecl {} {} {}", nat, slot, gid));
                    if f.is_empty() { retire.push(sid); }
                }
            }
            ev.push(format!("NewUnit [{}] 0", decls.join("; ")));
            if orig.is_some() {
                let sids: Vec<String> = sid_of.values().map(|x| x.to_string()).collect();
                ev.push(format!("SaveReload [{}]", sids.join("; ")));
                for f in &fnames { for s in &per_fn[f] { if s.op != 104 && s.slot != 0 { self.problems.push("RELOAD-SLOTS-KEPT".into()); } } }
            }
            // --- statements
            let mut top_k = 0usize;
            let check_callees = |me: &mut Session, f: &str, want: &[String]| {
                let got: Vec<String> = per_fn.get(f).map(|v| v.iter().map(|s| s.callee.clone()).collect()).unwrap_or_default();
                let want: Vec<String> = want.iter().map(|n| global_of(n)).collect();
                if got != want { me.problems.push(format!("call sites of {:?} are {:?}, generated {:?}", f, got, want)); }
            };
            let top_calls: Vec<String> = stmts.iter().filter_map(|s| if let Stmt::Call { name } = s { Some(name.clone()) } else { None }).collect();
            check_callees(self, "", &top_calls);
            let mut unknown_ptr = 900_000usize;
            for st in stmts {
                match st {
                    Stmt::DefFn { name, tag, body } => {
                        check_callees(self, name, body);
                        // after a failed input the by-name map was not updated: the object (if it was created) is unknown
                        let v = if failed { MVal::Null } else { mval_of(vm, name) };
                        let p = match v { MVal::Ptr(p) => p, _ => { unknown_ptr += 1; unknown_ptr } };
                        let kind = if p >= 900_000 { "KFn" } else { kind_of(vm, p) };
                        self.kinds_seen.insert(kind);
                        let sids: Vec<String> = (0..body.len()).filter_map(|k| sid_of.get(&(name.clone(), k)).map(|x| x.to_string())).collect();
                        // a heap index that held another object before: a collection freed it in between
                        if self.known_ptrs.contains(&p) { ev.push(format!("Collect [{}]", p)); }
                        ev.push(format!("Alloc {} (mkObj {} {} [{}])", p, kind, tag, sids.join("; ")));
                        let gid = self.names.id(name);
                        ev.push(format!("SetGlobal {} (GPtr {})", gid, p));
                        self.table.insert(name.clone(), MVal::Ptr(p));
                        self.known_ptrs.insert(p);
                    }
                    Stmt::LetMut { name, rhs } | Stmt::Assign { name, rhs } => {
                        let gid = self.names.id(&global_of(name));
                        let v = match rhs {
                            Rhs::Name(n) => self.table.get(&global_of(n)).copied().unwrap_or(MVal::Null),
                            Rhs::NonCallable => MVal::Other,
                            Rhs::Closure(t) | Rhs::Lambda(t) => {
                                let v = if failed { MVal::Null } else { mval_of(vm, name) };
                                let p = match v { MVal::Ptr(p) => p, _ => { unknown_ptr += 1; unknown_ptr } };
                                let kind = if p >= 900_000 { "KClo" } else { kind_of(vm, p) };
                                self.kinds_seen.insert(kind);
                                if self.known_ptrs.contains(&p) { ev.push(format!("Collect [{}]", p)); }
                                ev.push(format!("Alloc {} (mkObj {} {} [])", p, kind, t));
                                self.known_ptrs.insert(p);
                                MVal::Ptr(p)
                            }
                        };
                        ev.push(format!("SetGlobal {} {}", gid, coq_gval(v)));
                        self.table.insert(global_of(name), v);
                    }
                    Stmt::Call { .. } => {
                        match sid_of.get(&(String::new(), top_k)) {
                            Some(sid) => ev.push(format!("Call {}", sid)),
                            None => ev.push("Call 999999".into()),
                        }
                        top_k += 1;
                    }
                }
            }
            if !retire.is_empty() {
                ev.push(format!("Retire [{}]", retire.iter().map(|x| x.to_string()).collect::<Vec<_>>().join("; ")));
            }
            ev
        }
    }

    /// compile one program the way driver/src/api/repl.rs does, without running it
    pub fn compile_like_repl(vm: &mut VM, source: &str, opt: u32) -> Result<(Function, aelys_bytecode::Heap), String> {
        use aelys_backend::Compiler;
        use aelys_frontend::lexer::Lexer;
        use aelys_frontend::parser::Parser;
        use aelys_opt::Optimizer;
        use aelys_sema::TypeInference;
        use aelys_syntax::Source;
        let src = Source::new("<verif>", source);
        let tokens = Lexer::with_source(src.clone()).scan().map_err(|e| format!("{}", e))?;
        let stmts = Parser::new(tokens, src.clone()).parse().map_err(|e| format!("{}", e))?;
        let module_aliases = vm.repl_module_aliases().clone();
        let mut known_globals = vm.repl_known_globals().clone();
        let known_native_globals = vm.repl_known_native_globals().clone();
        let symbol_origins = vm.repl_symbol_origins().clone();
        for b in BUILTINS { known_globals.insert(b.to_string()); }
        let typed = TypeInference::infer_program_with_imports(stmts, src.clone(), module_aliases.clone(), known_globals.clone())
            .map_err(|e| format!("type inference: {} errors", e.len()))?;
        let mut optimizer = Optimizer::new(opt_level(opt));
        let typed = optimizer.optimize(typed);
        let existing = vm.global_mutability().clone();
        let compiler = Compiler::with_modules_and_globals(None, src.clone(), module_aliases, known_globals, known_native_globals, symbol_origins, existing);
        let (function, heap, _new) = compiler.compile_typed(&typed).map_err(|e| format!("{}", e))?;
        Ok((function, heap))
    }

    pub fn sites_by_name(root: &Function) -> HashMap<String, Vec<RawSite>> {
        let mut m = HashMap::new();
        m.insert(String::new(), sites_of(root));
        for n in &root.nested_functions {
            if let Some(name) = &n.name { if name != "<lambda>" { m.insert(name.clone(), sites_of(n)); } }
        }
        m
    }

    /// serialize -> deserialize -> fresh VM (cli/src/cli/commands/run.rs:run_avbc_file, first half)
    pub fn reload_prepare(function: &Function, heap: &aelys_bytecode::Heap) -> Result<(VM, Function, aelys_bytecode::Heap), String> {
        let bytes = aelys_bytecode::asm::serialize(function, heap);
        let (f2, h2) = aelys_bytecode::asm::deserialize(&bytes).map_err(|e| format!("{}", e))?;
        let vm = aelys_driver::new_vm_with_config(Default::default(), Vec::new()).map_err(|e| format!("{}", e))?;
        Ok((vm, f2, h2))
    }
    /// merge heap -> alloc -> execute (second half); afterwards the indexed globals are copied to the
    /// by-name map so that the harness can read which objects the names denote
    pub fn reload_execute(vm: &mut VM, mut f2: Function, mut h2: aelys_bytecode::Heap, budget: u64) -> (Outcome, Option<Function>) {
        use aelys_runtime::verif;
        verif::sink_install();
        verif::budget_set(budget);
        let mut keep: Option<Function> = None;
        let names: Vec<String> = f2.global_layout.names().to_vec();
        let r = guarded(std::panic::AssertUnwindSafe(|| {
            let remap = vm.merge_heap(&mut h2).map_err(aelys_common::error::AelysError::Runtime)?;
            f2.remap_constants(&remap);
            keep = Some(f2.clone());
            let func_ref = vm.alloc_function(f2.clone()).map_err(aelys_common::error::AelysError::Runtime)?;
            let v = vm.execute(func_ref).map_err(aelys_common::error::AelysError::Runtime)?;
            let s = vm.value_to_string(v);
            Ok((v, s))
        }));
        let out = verif::sink_take();
        verif::budget_set(u64::MAX);
        let o = classify(r, out);
        if o.class == "ok" { vm.sync_globals_to_hashmap(&names); }
        (o, keep)
    }
    pub fn run_reloaded(function: &Function, heap: &aelys_bytecode::Heap, budget: u64) -> Outcome {
        match reload_prepare(function, heap) {
            Ok((mut vm, f2, h2)) => reload_execute(&mut vm, f2, h2, budget).0,
            Err(e) => Outcome { class: "deserialize-error".into(), output: String::new(), value: String::new(), detail: e },
        }
    }

    // ------------------------------------------------------------------ whole programs with their own oracle ("script" mode)
    /// Programs that the event model does not describe (captured locals, nested lambdas, imports, the WHOLE-PROGRAM
    /// optimizer of `aelys run`): generated from parameterised shapes together with the tag sequence the property requires;
    /// run as a script (run_program_script), as files with an import (run_file_with_config_and_opt) or as two REPL inputs.
    pub fn script_case(seed: u64, opt: u32) -> CaseOut {
        let mut r = Rng::new(seed ^ 0x5c21_97);
        let mut tagn = 10u64;
        let mut tag = |t: &mut u64| { *t += 1; *t };
        let names = ["op", "relay", "pick", "conv", "emit"];
        let nm = names[r.below(names.len() as u64) as usize].to_string();
        let shape = r.below(8);
        let budget = 3_000_000u64;
        let mut expected: Vec<u64> = Vec::new();
        let src: String;
        let out: Outcome;
        let leaf = |n: &str, t: u64| format!("fn {}(x) {{ return \"{}\" }}", n, tag_text(t));
        let lam = |t: u64| format!("fn(x) {{ return \"{}\" }}", tag_text(t));
        if shape == 0 || shape == 1 {
            // (a) one name for a global function and for a local / parameter of an enclosing function that closures capture and
            // call; the captured one is reassigned between calls.  shape 1: the global comes from an earlier REPL input
            let (ta, tb, tc, td) = (tag(&mut tagn), tag(&mut tagn), tag(&mut tagn), tag(&mut tagn));
            let global = match r.below(3) { 0 => leaf(&nm, ta), 1 => format!("let mut {} = {}", nm, lam(ta)), _ => format!("let {} = {}", nm, lam(ta)) };
            let mut defs = String::new();
            defs.push_str(&format!("fn make() {{\n    let {} = {}\n    return fn(x) {{ return {}(x) }}\n}}\n", nm, lam(tb), nm));
            defs.push_str(&format!("fn make_rebound() {{\n    let mut {} = {}\n    let call = fn(x) {{ return {}(x) }}\n    {} = {}\n    return call\n}}\n", nm, lam(tb), nm, nm, lam(tc)));
            defs.push_str(&format!("fn with_param({}) {{\n    return fn(x) {{ return {}(x) }}\n}}\n", nm, nm));
            defs.push_str(&format!("fn twice() {{\n    let mut {} = {}\n    let call = fn(x) {{ return {}(x) }}\n    println(call(-2.5))\n    {} = {}\n    println(call(-2.5))\n    return call\n}}\n", nm, lam(tb), nm, nm, lam(tc)));
            defs.push_str(&format!("let h = make()\nlet k = make_rebound()\nlet p = with_param({})\n", lam(td)));
            let mut calls = String::new();
            let n = 3 + r.below(5);
            for _ in 0..n {
                match r.below(5) {
                    0 => { calls.push_str(&format!("println({}(-2.5))\n", nm)); expected.push(ta); }
                    1 => { calls.push_str("println(h(-2.5))\n"); expected.push(tb); }
                    2 => { calls.push_str("println(k(-2.5))\n"); expected.push(tc); }
                    3 => { calls.push_str("println(p(-2.5))\n"); expected.push(td); }
                    _ => { calls.push_str("let w = twice()\nprintln(w(-2.5))\n"); expected.extend([tb, tc, tc]); }
                }
            }
            if shape == 0 {
                src = format!("{}\n{}{}", global, defs, calls);
                out = run_program_script(&src, opt, (0, 0), budget, None).0;
            } else {
                let mut vm = aelys_driver::new_vm_with_config(Default::default(), Vec::new()).unwrap();
                let a = run_on_vm(&mut vm, &format!("{}\n", global), opt.min(1), budget);
                let b = run_on_vm(&mut vm, &format!("{}{}", defs, calls), opt.min(1), budget);
                src = format!("{}\n=====\n{}{}", global, defs, calls);
                out = Outcome { class: if a.class == "ok" { b.class.clone() } else { a.class.clone() }, output: format!("{}{}", a.output, b.output), value: String::new(), detail: format!("{}{}", a.detail, b.detail) };
            }
        } else if shape == 2 {
            // (b) a name bound by an import; a caller declared first and called BEFORE and AFTER the name is redefined by a
            // trivial function further down, after effectful statements, with padding declarations in between
            let (ta, tb) = (tag(&mut tagn), tag(&mut tagn));
            let dir = std::env::temp_dir().join(format!("hx_cc_{}_{}", std::process::id(), seed));
            let _ = std::fs::create_dir_all(&dir);
            let _ = std::fs::write(dir.join("utils.aelys"), format!("pub {}\n", leaf(&nm, ta)));
            let mut m = format!("needs {} from utils\n", nm);
            for i in 0..r.below(2) { m.push_str(&format!("let early{} = {}\n", i, i)); }
            m.push_str(&format!("fn show(x) {{ return {}(x) }}\n", nm));
            let before = 1 + r.below(2);
            for _ in 0..before { m.push_str("println(show(-2.5))\n"); expected.push(ta); }
            for i in 0..r.below(3) { m.push_str(&format!("let mid{} = {}\n", i, i)); }
            m.push_str(&format!("{}\n", leaf(&nm, tb)));
            for i in 0..r.below(4) { if r.chance(1, 2) { m.push_str(&format!("let pad{} = {}\n", i, i)); } else { m.push_str(&format!("fn padf{}(x) {{ return x }}\n", i)); } }
            let after = 1 + r.below(2);
            for _ in 0..after { m.push_str("println(show(-2.5))\n"); expected.push(tb); }
            if r.chance(1, 2) { m.push_str(&format!("println({}(-2.5))\n", nm)); expected.push(tb); }
            let path = dir.join("main.aelys");
            let _ = std::fs::write(&path, &m);
            src = format!("// utils.aelys: pub {}\n{}", leaf(&nm, ta), m);
            aelys_runtime::verif::sink_install();
            aelys_runtime::verif::budget_set(budget);
            let res = guarded(std::panic::AssertUnwindSafe(|| {
                let v = aelys_driver::run_file_with_config_and_opt(&path, Default::default(), Vec::new(), opt_level(opt))?;
                Ok((v, String::new()))
            }));
            let o = aelys_runtime::verif::sink_take();
            aelys_runtime::verif::budget_set(u64::MAX);
            out = classify(res, o);
            let _ = std::fs::remove_dir_all(&dir);
        } else if shape == 6 {
            // (f) a session: top-level LAMBDAS (in a global, in an array, passed along, nested in a named function, with a named
            // function nested inside) call a top-level function / read a top-level constant of THEIR OWN input; a later input
            // rebinds both; calls from an input and from the host
            let (ta, tb, tc, td) = (tag(&mut tagn), tag(&mut tagn), tag(&mut tagn), tag(&mut tagn));
            let (f, k) = (nm.clone(), format!("{}_k", nm));
            let mut vm = aelys_driver::new_vm_with_config(Default::default(), Vec::new()).unwrap();
            let mut in1 = format!("fn {f}(x) {{ return \"{}\" }}\nlet {k} = \"{}\"\n", tag_text(ta), tag_text(tc));
            in1.push_str(&format!("let g = fn(x) {{ return {f}(x) }}\nlet q = fn(x) {{ return {k} }}\nlet arr = [fn(x) {{ return {f}(x) }}, fn(x) {{ return {k} }}]\n"));
            in1.push_str(&format!("fn outer(x) {{ let inner = fn(y) {{ return {f}(y) }}\n return inner(x) }}\nlet mk = fn(x) {{ fn named(y) {{ return {f}(y) }}\n return named(x) }}\n"));
            in1.push_str(&format!("fn pass(cb, x) {{ return cb(x) }}\nlet mut kept = null\nfn keep(cb) {{ kept = cb\n return \".\" }}\nprintln(keep(fn(x) {{ return {f}(x) }}))\n"));
            in1.push_str(&format!("println(g(1))\nprintln(q(1))\nprintln(pass(fn(x) {{ return {f}(x) }}, 1))\n"));
            expected.extend([ta, tc, ta]);
            let in2 = if r.chance(1, 2) { format!("fn {f}(x) {{ return \"{}\" }}\nlet {k} = \"{}\"\n", tag_text(tb), tag_text(td)) }
                      else { format!("let {k} = \"{}\"\nfn {f}(x) {{ return \"{}\" }}\n", tag_text(td), tag_text(tb)) };
            let mut in3 = String::new();
            for _ in 0..(4 + r.below(4)) {
                match r.below(7) {
                    0 => { in3.push_str("println(g(1))\n"); expected.push(tb); }
                    1 => { in3.push_str("println(q(1))\n"); expected.push(td); }
                    2 => { in3.push_str("println(arr[0](1))\n"); expected.push(tb); }
                    3 => { in3.push_str("println(arr[1](1))\n"); expected.push(td); }
                    4 => { in3.push_str("println(outer(1))\n"); expected.push(tb); }
                    5 => { in3.push_str("println(mk(1))\n"); expected.push(tb); }
                    _ => { in3.push_str("println(kept(1))\n"); expected.push(tb); }
                }
            }
            let lvl = opt.min(3);
            let a = run_on_vm(&mut vm, &in1, lvl, budget);
            let b = run_on_vm(&mut vm, &in2, lvl, budget);
            let c = run_on_vm(&mut vm, &in3, lvl, budget);
            let mut o = format!("{}{}{}", a.output, b.output, c.output);
            // host calls of the lambdas
            for (h, t) in [("g", tb), ("q", td)] {
                let v = aelys_driver::call_function(&mut vm, h, &[aelys_runtime::Value::int(1)]);
                o.push_str(&match v { Ok(v) => vm.value_to_string(v), Err(_) => "host-call-failed".to_string() }); o.push('\n');
                expected.push(t);
            }
            let cls = [&a, &b, &c].iter().map(|x| x.class.clone()).find(|c| c != "ok").unwrap_or("ok".into());
            src = format!("{}=====\n{}=====\n{}=====\n@call g 1\n@call q 1\n", in1, in2, in3);
            out = Outcome { class: cls, output: o, value: String::new(), detail: format!("{}{}{}", a.detail, b.detail, c.detail) };
        } else if shape == 7 {
            // (g) two closures from ONE frame share a mutable callee variable, with a capture of an earlier-declared local in
            // between (capture order high, low, high); after the frame returned one closure rebinds the callee, the other calls it
            let (ta, tb) = (tag(&mut tagn), tag(&mut tagn));
            let m = format!("let mut c1 = null\nlet mut c2 = null\nfn mk() {{\n    let low = 0\n    let mut {nm} = fn(x) {{ return \"{}\" }}\n    c1 = fn(x) {{ return {nm}(x) }}\n    let peek = fn(x) {{ return low }}\n    c2 = fn(x) {{ {nm} = fn(y) {{ return \"{}\" }}\n        return \".\" }}\n    return peek\n}}\nlet p = mk()\nprintln(c1(1))\nprintln(c2(1))\nprintln(c1(1))\nprintln(p(1) + 1)\n", tag_text(ta), tag_text(tb));
            src = m;
            expected.extend([ta, tb, 999]);
            out = run_program_script(&src, opt, (0, 0), budget, None).0;
        } else if shape == 4 {
            // (d) a local, a parameter, a captured variable and a top-level definition named like a VM builtin, called with the
            // builtin's own number of arguments: the call runs what the name denotes there, not the intrinsic
            let (bn, ar) = [("type", 1), ("alloc", 1), ("free", 1), ("load", 2), ("store", 3)][r.below(5) as usize];
            let params = ["a", "b", "c"][..ar].join(", ");
            let args = ["1", "2", "3"][..ar].join(", ");
            let (ta, tb, tc, td) = (tag(&mut tagn), tag(&mut tagn), tag(&mut tagn), tag(&mut tagn));
            let l = |t: u64| format!("fn({}) {{ return \"{}\" }}", params, tag_text(t));
            let mut m = String::new();
            m.push_str(&format!("fn t1() {{\n    let {} = {}\n    return {}({})\n}}\n", bn, l(ta), bn, args));
            m.push_str(&format!("fn t2({}) {{ return {}({}) }}\n", bn, bn, args));
            m.push_str(&format!("fn t3() {{\n    let {} = {}\n    return fn(y) {{ return {}({}) }}\n}}\nlet k3 = t3()\n", bn, l(tc), bn, args));
            let top = r.chance(1, 2);
            if top { m.push_str(&format!("let {} = {}\n", bn, l(td))); }
            for _ in 0..(3 + r.below(4)) {
                match r.below(if top { 4 } else { 3 }) {
                    0 => { m.push_str("println(t1())\n"); expected.push(ta); }
                    1 => { m.push_str(&format!("println(t2({}))\n", l(tb))); expected.push(tb); }
                    2 => { m.push_str("println(k3(0))\n"); expected.push(tc); }
                    _ => { m.push_str(&format!("println({}({}))\n", bn, args)); expected.push(td); }
                }
            }
            src = m;
            out = if r.chance(1, 2) { run_program_script(&src, opt, (0, 0), budget, None).0 }
                  else { let mut vm = aelys_driver::new_vm_with_config(Default::default(), Vec::new()).unwrap(); run_on_vm(&mut vm, &src, opt.min(1), budget) };
        } else if shape == 5 {
            // (e) the program defines a global under the name of an imported symbol (a string method known without an import,
            // or a function imported by name from std.math in an earlier REPL input): calls run the program's definition and
            // the library function stays what it was
            let (ta, tb) = (tag(&mut tagn), tag(&mut tagn));
            let mut vm = aelys_driver::new_vm_with_config(Default::default(), Vec::new()).unwrap();
            if r.chance(1, 2) {
                let sn = ["count", "trim", "reverse", "repeat", "find", "lines", "contains"][r.below(7) as usize];
                let def = if r.chance(1, 2) { format!("let {} = fn(x) {{ return \"{}\" }}", sn, tag_text(ta)) } else { format!("fn {}(x) {{ return \"{}\" }}", sn, tag_text(ta)) };
                let inner = format!("fn via(x) {{ return {}(x) }}", sn);
                src = format!("{}\n{}\nprintln({}(1))\nprintln(via(1))\nlet mut alias = {}\nprintln(alias(1))\n", def, inner, sn, sn);
                expected.extend([ta, ta, ta]);
                out = run_on_vm(&mut vm, &src, opt.min(1), budget);
            } else {
                let inputs = ["needs floor from std.math\n".to_string(), format!("fn floor(x) {{ return \"{}\" }}\n", tag_text(tb)), "println(floor(-2.5))\n".to_string(), "needs std.math as mm\n".to_string(),
                              "println(mm.floor(-2.5))\n".to_string()];
                let mut o = String::new(); let mut cls = "ok".to_string(); let mut det = String::new();
                for i in &inputs { let x = run_on_vm(&mut vm, i, opt.min(1), budget); o.push_str(&x.output); if x.class != "ok" && cls == "ok" { cls = x.class.clone(); det = x.detail.clone(); } }
                src = inputs.join("=====\n");
                expected.extend([tb, TAG_FLOOR]);
                out = Outcome { class: cls, output: o, value: String::new(), detail: det };
            }
        } else {
            // (c) a capturing closure in a global that itself creates nested lambdas, called several times from ONE site
            let (ta, tb) = (tag(&mut tagn), tag(&mut tagn));
            let n = 3 + r.below(4);
            let inner = if r.chance(1, 2) { "let g = fn(y) { return y + 1 }".to_string() } else { "fn g(y) { return y + 1 }".to_string() };
            src = format!("fn make() {{\n    let mut c = 0\n    return fn(x) {{\n        c += 1\n        {}\n        if g(c) == c + 1 {{ return \"{}\" }}\n        return \"{}\"\n    }}\n}}\nlet {}{} = make()\nfor i in 0..{} {{ println({}(i)) }}\n",
                         inner, tag_text(ta), tag_text(tb), if r.chance(1, 2) { "mut " } else { "" }, nm, n, nm);
            for _ in 0..n { expected.push(ta); }
            out = run_program_script(&src, opt, (0, 0), budget, None).0;
        }
        let st = status_of(&out.class);
        CaseOut { query: "[]".into(), observed: format!("[{}]", obs_term(st, &parse_output(&out.output))), spec: format!("[{}]", obs_term(0, &expected)),
                  source: src, problems: vec![], kinds: vec![], ncalls: expected.len() }
    }

    pub struct CaseOut { pub query: String, pub observed: String, pub spec: String, pub source: String, pub problems: Vec<String>, pub kinds: Vec<&'static str>, pub ncalls: usize }

    pub fn run_case(mode: &str, seed: u64, opt: u32) -> CaseOut {
        let mut g = Gen::new(seed);
        let mut spec = Spec::new();
        let mut sess = Session::new();
        let mut inputs_src: Vec<String> = Vec::new();
        let mut q_inputs: Vec<String> = Vec::new();
        let mut obs: Vec<String> = Vec::new();
        let mut spec_obs: Vec<String> = Vec::new();
        let mut ncalls = 0usize;
        let native_rebind = g.rng.chance(1, 6);
        let budget = 3_000_000u64;
        if mode == "repl" {
            let mut vm = aelys_driver::new_vm_with_config(Default::default(), Vec::new()).unwrap();
            let mut prelude = sess.prelude(&vm);
            // what the session consists of: scripted inputs of two directed scenarios, then random inputs
            enum Plan { Scripted(Vec<Stmt>), Random(bool), GcEvery, GcDefault, RebindToReusedIndex }
            let mut plan: Vec<Plan> = Vec::new();
            let df = |g: &mut Gen, name: &str, body: Vec<&str>| -> Stmt { let tag = g.fresh_tag(); Stmt::DefFn { name: name.to_string(), tag, body: body.iter().map(|x| x.to_string()).collect() } };
            let call = |n: &str| Stmt::Call { name: n.to_string() };
            let nm = |n: &str| Rhs::Name(n.to_string());
            let flavour = g.rng.below(8);
            let mut reuse_old: Option<MVal> = None;
            if flavour == 0 {
                // one function under two globals, the body sites of two units share a slot id, one global is rebound:
                // the site of the rebound global must not run the entry that the other site has just written
                g.leafs = vec!["l0".into(), "l1".into()]; g.vs = vec!["v0".into(), "v1".into()]; g.mids = vec!["m0".into(), "m1".into()];
                let a = vec![df(&mut g, "l0", vec![]), df(&mut g, "l1", vec![]), Stmt::LetMut { name: "v0".into(), rhs: nm("l0") }, Stmt::LetMut { name: "v1".into(), rhs: nm("l0") },
                             df(&mut g, "m0", vec!["v0"]), call("m0")];
                let b = vec![df(&mut g, "m1", vec!["v1"]), Stmt::Assign { name: "v0".into(), rhs: nm("l1") }, call("m1"), call("m0")];
                plan.push(Plan::Scripted(a)); plan.push(Plan::Scripted(b));
            } else if flavour == 1 {
                // a warmed body site, its callee rebound and collected, a new function allocated (collections at every
                // safepoint) and bound to the same global -- if it got the heap index of the old callee, the site must
                // still run the new function
                g.leafs = vec!["l0".into(), "l1".into()]; g.vs = vec!["v0".into()]; g.mids = vec!["m0".into()];
                let a = vec![df(&mut g, "l0", vec![]), df(&mut g, "l1", vec![]), Stmt::LetMut { name: "v0".into(), rhs: nm("l0") },
                             call("l0"), call("l1"), call("l0"), df(&mut g, "m0", vec!["v0"]), call("m0")];
                let b = vec![df(&mut g, "l0", vec![]), Stmt::Assign { name: "v0".into(), rhs: nm("l1") }];
                let zs: Vec<String> = (0..6).map(|i| format!("z{}", i)).collect();
                let c: Vec<Stmt> = zs.iter().map(|z| df(&mut g, z, vec![])).collect();
                g.leafs.extend(zs);
                plan.push(Plan::Scripted(a)); plan.push(Plan::GcEvery); plan.push(Plan::Scripted(b)); plan.push(Plan::Scripted(c));
                plan.push(Plan::RebindToReusedIndex); plan.push(Plan::Scripted(vec![call("m0")])); plan.push(Plan::GcDefault);
            } else if flavour == 2 {
                // a plain function object that only the global v0 refers to, a warmed body site; v0 rebound THROUGH A NON-OBJECT
                // value (no object replaces an object), the function collected, new functions allocated and the one that got
                // its heap index bound to v0: the site must run the new function (heap indices cannot tell the two apart)
                // (slot ids restart in every unit and function bodies are numbered first: three functions with a call site
                // come before m0, so that the few top-level sites of the later inputs do not overwrite the slot of m0's site)
                g.leafs = vec!["l0".into()]; g.vs = vec!["v0".into()]; g.mids = vec!["m1".into(), "m2".into(), "m3".into(), "m0".into()];
                let t = g.fresh_tag();
                let a = vec![df(&mut g, "l0", vec![]), df(&mut g, "m1", vec!["l0"]), df(&mut g, "m2", vec!["l0"]), df(&mut g, "m3", vec!["l0"]),
                             Stmt::LetMut { name: "v0".into(), rhs: Rhs::Lambda(t) }, df(&mut g, "m0", vec!["v0"]), call("m0"), call("m0")];
                let b = vec![Stmt::Assign { name: "v0".into(), rhs: Rhs::NonCallable }];
                let zs: Vec<String> = (0..6).map(|i| format!("z{}", i)).collect();
                let c: Vec<Stmt> = zs.iter().map(|z| df(&mut g, z, vec![])).collect();
                g.leafs.extend(zs);
                plan.push(Plan::Scripted(a)); plan.push(Plan::GcEvery); plan.push(Plan::Scripted(b)); plan.push(Plan::Scripted(c));
                plan.push(Plan::RebindToReusedIndex); plan.push(Plan::Scripted(vec![call("m0")])); plan.push(Plan::GcDefault);
            }
            let first_random = plan.is_empty();
            let ninputs = (if first_random { 2 } else { 1 }) + g.rng.below(if first_random { 6 } else { 4 }) as usize;
            for i in 0..ninputs { plan.push(Plan::Random(i == 0 && first_random)); }
            let mut first_scripted = true;
            for step in plan {
                let stmts: Vec<Stmt> = match step {
                    Plan::GcEvery => { aelys_runtime::verif::gc_mode_set(2, 0); continue; }
                    Plan::GcDefault => { aelys_runtime::verif::gc_mode_set(0, 0); continue; }
                    Plan::Scripted(st) => { if first_scripted { first_scripted = false; } st }
                    Plan::RebindToReusedIndex => {
                        let z = (0..6).map(|i| format!("z{}", i)).find(|z| reuse_old.is_some() && sess.table.get(z).copied() == reuse_old).unwrap_or_else(|| "z0".to_string());
                        vec![Stmt::Assign { name: "v0".into(), rhs: Rhs::Name(z) }]
                    }
                    Plan::Random(first) => {
                        let n = 1 + g.rng.below(5) as usize;
                        g.input(if first { n + 3 } else { n }, !first, native_rebind)
                    }
                };
                if stmts.is_empty() { continue; }
                ncalls += stmts.iter().filter(|s| matches!(s, Stmt::Call { .. })).count();
                let src = render(&stmts);
                let r = run_on_vm(&mut vm, &src, opt, budget);
                let (ss, stags) = spec.run_input(&stmts);
                let mut ev = std::mem::take(&mut prelude);
                let st = status_of(&r.class);
                ev.extend(sess.events_for_input(&vm, &stmts, st != 0, None, None));
                if flavour == 1 && reuse_old.is_none() { reuse_old = sess.table.get("l0").copied(); }
                if flavour == 2 && reuse_old.is_none() { reuse_old = sess.table.get("v0").copied(); }
                q_inputs.push(format!("[{}]", ev.join("; ")));
                obs.push(obs_term(st, &parse_output(&r.output)));
                spec_obs.push(obs_term(ss, &stags));
                inputs_src.push(src);
                if st != 0 || ss != 0 { break; }
            }
            aelys_runtime::verif::gc_mode_set(0, 0);
        } else {
            // one program; "reload": compiled, serialised, deserialised, run in a fresh VM
            let n = 6 + g.rng.below(10) as usize;
            let stmts = g.input(n, false, native_rebind);
            ncalls += stmts.iter().filter(|s| matches!(s, Stmt::Call { .. })).count();
            let src = render(&stmts);
            let (ss, stags) = spec.run_input(&stmts);
            spec_obs.push(obs_term(ss, &stags));
            if mode == "unit" {
                let mut vm = aelys_driver::new_vm_with_config(Default::default(), Vec::new()).unwrap();
                let mut ev = sess.prelude(&vm);
                let r = run_on_vm(&mut vm, &src, opt, budget);
                ev.extend(sess.events_for_input(&vm, &stmts, status_of(&r.class) != 0, None, None));
                q_inputs.push(format!("[{}]", ev.join("; ")));
                obs.push(obs_term(status_of(&r.class), &parse_output(&r.output)));
            } else {
                let mut cvm = aelys_driver::new_vm_with_config(Default::default(), Vec::new()).unwrap();
                match compile_like_repl(&mut cvm, &src, opt) {
                    Err(e) => { sess.problems.push(format!("compile failed: {}", e)); obs.push(obs_term(6, &[])); q_inputs.push("[]".into()); }
                    Ok((function, heap)) => {
                        let orig = sites_by_name(&function);
                        match reload_prepare(&function, &heap) {
                            Ok((mut vm, f2, h2)) => {
                                let mut ev = sess.prelude(&vm);
                                let (r, kept) = reload_execute(&mut vm, f2, h2, budget);
                                match kept {
                                    Some(k) => { ev.extend(sess.events_for_input(&vm, &stmts, status_of(&r.class) != 0, Some(&k), Some(&orig))); q_inputs.push(format!("[{}]", ev.join("; "))); }
                                    None => { sess.problems.push("reload failed before execution".into()); q_inputs.push("[]".into()); }
                                }
                                obs.push(obs_term(status_of(&r.class), &parse_output(&r.output)));
                            }
                            Err(e) => { sess.problems.push(format!("reload failed: {}", e)); q_inputs.push("[]".into()); obs.push(obs_term(8, &[])); }
                        }
                    }
                }
            }
            inputs_src.push(src);
        }
        let mut kinds: Vec<&'static str> = sess.kinds_seen.iter().copied().collect();
        kinds.sort();
        CaseOut { query: format!("[{}]", q_inputs.join("; ")), observed: format!("[{}]", obs.join("; ")), spec: format!("[{}]", spec_obs.join("; ")),
                  source: inputs_src.join("=====\n"), problems: sess.problems, kinds, ncalls }
    }
}

#[cfg(vbxq_aelys_lang_verif)]
fn main() {
    use hxlib::runner::*;
    use hxlib::*;
    quiet_panics();
    let opt = arg_u64("--opt", 1) as u32;
    if let Some(file) = arg("--session") {
        let dump = flag("--dump");
        let reload = flag("--reload");
        let text = std::fs::read_to_string(&file).expect("read");
        let handle = std::thread::Builder::new().stack_size(256 << 20).spawn(move || {
            let mut vm = aelys_driver::new_vm_with_config(Default::default(), Vec::new()).unwrap();
            for (i, p) in text.split("\n=====\n").enumerate() {
                // `@gc every` / `@gc default`: collect at every safepoint from here on / as the VM decides
                if p.trim() == "@gc every" { aelys_runtime::verif::gc_mode_set(2, 0); println!("{}\tgc-every", i); continue; }
                if p.trim() == "@gc default" { aelys_runtime::verif::gc_mode_set(0, 0); println!("{}\tgc-default", i); continue; }
                let r = if reload {
                    let mut cvm = aelys_driver::new_vm_with_config(Default::default(), Vec::new()).unwrap();
                    match imp::compile_like_repl(&mut cvm, p, opt) {
                        Ok((f, h)) => imp::run_reloaded(&f, &h, 3_000_000),
                        Err(e) => Outcome { class: "compile-error".into(), output: String::new(), value: String::new(), detail: e },
                    }
                } else { run_on_vm(&mut vm, p, opt, 3_000_000) };
                let tags = imp::parse_output(&r.output);
                let raw: String = esc(&r.output).chars().take(200).collect();
                println!("{}\t{}\t{}\t{}\t{}\t{}", i, r.class, imp::obs_term(imp::status_of(&r.class), &tags), esc(&r.value), esc(&r.detail), raw);
                if dump {
                    for (idx, _a, name) in imp::live_functions(&vm) {
                        if let Some(o) = vm.heap().get(aelys_bytecode::GcRef::new(idx)) {
                            if let aelys_bytecode::object::ObjectKind::Function(f) = &o.kind {
                                println!("   fn@{} {:?} layout {:?}", idx, name, f.function.global_layout.names());
                                for s in imp::scan_sites(f.function.bytecode.as_slice()) {
                                    println!("       off {} op {} idx {} w1 {:#x} w2 {:#x}", s.0, s.1, s.2, s.3, s.4);
                                }
                            }
                        }
                    }
                }
            }
        }).unwrap();
        handle.join().unwrap();
        return;
    }
    if let Some(dir) = arg("--files") {
        // run DIR/main.aelys the way `aelys run` does (imports resolved next to it); one line: class, escaped output, detail
        let path = std::path::Path::new(&dir).join("main.aelys");
        aelys_runtime::verif::sink_install();
        aelys_runtime::verif::budget_set(3_000_000);
        let res = guarded(std::panic::AssertUnwindSafe(|| {
            let v = aelys_driver::run_file_with_config_and_opt(&path, Default::default(), Vec::new(), opt_level(opt))?;
            Ok((v, String::new()))
        }));
        let o = aelys_runtime::verif::sink_take();
        aelys_runtime::verif::budget_set(u64::MAX);
        let out = classify(res, o);
        println!("0\t{}\t{}\t{}", out.class, esc(&out.output), esc(&out.detail).chars().take(200).collect::<String>());
        return;
    }
    let seed = arg_u64("--seed", 0);
    let n = arg_u64("--n", 200);
    let handle = std::thread::Builder::new().stack_size(256 << 20).spawn(move || {
        for i in 0..n {
            // 50% REPL sessions, 30% single programs, 20% save/reload
            // above OptimizationLevel::Basic every input is optimised as a whole program: no multi-input sessions there
            // (the REPL compiles at Basic), single programs and save/reload only
            let mode = if opt >= 2 { match i % 10 { 0..=3 => "unit", 4..=6 => "reload", _ => "script" } } else { match i % 10 { 0..=3 => "repl", 4..=5 => "unit", 6..=7 => "reload", _ => "script" } };
            let case_seed = seed.wrapping_mul(1_000_003).wrapping_add(i);
            let o = if i % 7 == 3 { 0 } else { opt };
            let c = if mode == "script" { imp::script_case(case_seed, o) } else { imp::run_case(mode, case_seed, o) };
            println!("CASE\t{}\t{}\t{}\t{}\t{}\t{}\t{}\t{}\t{}", mode, case_seed, c.query, c.observed, c.spec, esc(&c.source),
                     esc(&c.problems.join(" | ")), c.kinds.join(","), c.ncalls);
        }
    }).unwrap();
    handle.join().unwrap();
}
#[cfg(not(vbxq_aelys_lang_verif))]
fn main() { eprintln!("built without hooks"); std::process::exit(2); }
