// Register-pool correspondence: drives the compiler's own pool functions (alloc_register,
// free_register, alloc_consecutive_registers_for_call, alloc_consecutive_from, free_dead_locals)
// through the hook aelys_backend::verif::pool_script.
// Input (--file): one script per line:  used registers (comma separated, may be empty) | ops
//   ops separated by ';':  a | f<r> | c<n> | m<start>,<n> | l<r>,<dead 0/1>,<captured 0/1> | d
// Output per script:  <line index>\t<res>:<used,...>;<res>:<used,...>;...
#[cfg(vbxq_aelys_lang_verif)]
fn main() {
    use aelys_backend::verif::{pool_script, PoolOp};
    use hxlib::*;
    quiet_panics();
    let file = arg("--file").expect("--file");
    let text = std::fs::read_to_string(&file).expect("read");
    for (i, line) in text.lines().enumerate() {
        let (u, o) = line.split_once('|').unwrap_or((line, ""));
        let used: Vec<u8> = u.split(',').filter_map(|s| s.trim().parse().ok()).collect();
        let nums = |s: &str| -> Vec<u8> { s.split(',').filter_map(|x| x.trim().parse().ok()).collect() };
        let ops: Vec<PoolOp> = o.split(';').filter_map(|t| {
            let t = t.trim();
            let (k, rest) = t.split_at(t.len().min(1));
            let n = nums(rest);
            Some(match k {
                "a" => PoolOp::Alloc,
                "f" => PoolOp::Free(*n.first()?),
                "c" => PoolOp::AllocCall(*n.first()?),
                "m" => PoolOp::AllocFrom(*n.first()?, *n.get(1)?),
                "l" => PoolOp::Local { register: *n.first()?, dead: *n.get(1)? == 1, captured: *n.get(2)? == 1 },
                "d" => PoolOp::FreeDead,
                _ => return None,
            })
        }).collect();
        let r = std::panic::catch_unwind(|| pool_script(&used, &ops));
        match r {
            Ok(steps) => {
                let s: Vec<String> = steps.iter().map(|(r, u)| format!("{}:{}", r, u.iter().map(|x| x.to_string()).collect::<Vec<_>>().join(","))).collect();
                println!("{}\t{}", i, s.join(";"));
            }
            Err(_) => println!("{}\tpanic", i),
        }
    }
}
#[cfg(not(vbxq_aelys_lang_verif))]
fn main() { eprintln!("built without hooks"); std::process::exit(2); }
