//! C03 harness: heap-graph audit at every collection + GC-schedule differential.
//!
//! For every program (corpus file first, then seeded generated ones) and every GC schedule the
//! program is run through the real pipeline (hxlib::runner::run_program) with a callback
//! installed at the begin/end of `VM::collect` (hook `verif::gc_audit_install`).  The callback
//! takes the read-only heap audit (`VM::verif_heap_audit`, `verif_roots`, `verif_free_list`,
//! `verif_safepoint_site`, `verif::pending_fn`) before marking and after sweeping and
//!   * applies the direct oracle to EVERY collection (lines `X`),
//!   * prints a sample of the collections as Coq queries for the model tie (lines `D`).
//!
//! Output lines (tab separated, strings escaped with hxlib::runner::esc):
//!   P  prog class source
//!   S  prog sched                 (a run starts; if the process dies the last S names the run)
//!   R  prog sched class output value detail collections nested_losses pending_seen exposure running_closure_losses only_frame_rooted stale_register_ptrs cache_ptrs
//!   F  prog sched feature=count;...  (which parts of the model the collections of this run exercised)
//!   X  prog sched coll signature detail
//!   D  prog sched coll depth,ip,op  <Coq gcq term>  <Coq observation term>
#[cfg(vbxq_aelys_lang_verif)]
mod imp {
    use aelys_runtime::verif::{self, AuditFn, AuditFrame, AuditObj, AuditVmState};
    use aelys_runtime::VM;
    use hxlib::runner::*;
    use hxlib::*;
    use std::cell::RefCell;
    use std::collections::{BTreeMap, BTreeSet};
    use std::rc::Rc;

    // ------------------------------------------------------------------ program generator
    pub struct Gen {
        pub rng: Rng,
        uniq: u32,
    }

    const LITS: [&str; 8] = ["a", "bc", "-", "xyz", "0", "__", "q", "long-literal-"];

    #[derive(Clone, Copy, PartialEq, Eq)]
    pub enum Class {
        Plain,
        FnArgs,
        Nested,
        Closure,
        Mixed,
        SelfRepl,
        Asm,
        Session,
    }
    impl Class {
        pub fn name(self) -> &'static str {
            match self {
                Class::Plain => "plain",
                Class::FnArgs => "fnargs",
                Class::Nested => "nested",
                Class::Closure => "closure",
                Class::Mixed => "mixed",
                Class::SelfRepl => "selfrepl",
                Class::Asm => "asm",
                Class::Session => "session",
            }
        }
    }

    impl Gen {
        pub fn new(seed: u64) -> Self {
            Gen { rng: Rng::new(seed), uniq: 0 }
        }
        fn lit(&mut self) -> String {
            format!("\"{}\"", self.rng.pick(&LITS))
        }
        fn svar(&mut self) -> String {
            format!("s{}", self.rng.below(3))
        }
        fn vvar(&mut self) -> String {
            format!("v{}", self.rng.below(2))
        }
        fn fresh(&mut self, p: &str) -> String {
            self.uniq += 1;
            format!("{}{}", p, self.uniq)
        }
        /// a string-valued expression over the fixed variables
        fn sexpr(&mut self, cls: Class, depth: u32) -> String {
            let fns = cls == Class::FnArgs || cls == Class::Mixed;
            let nest = cls == Class::Nested || cls == Class::Mixed;
            let clo = cls == Class::Closure || cls == Class::Mixed;
            let n = self.rng.below(if depth > 1 { 4 } else { 14 });
            match n {
                0 => self.lit(),
                1 | 2 => self.svar(),
                3 => format!("a0[{}]", self.rng.below(3)),
                4 | 5 => format!("{} + {}", self.sexpr(cls, depth + 1), self.sexpr(cls, depth + 1)),
                6 => {
                    let v = self.vvar();
                    format!("{}[{} % {}.len()]", v, self.rng.below(7), v)
                }
                7 if fns => match self.rng.below(4) {
                    0 => format!("cat3({}, {}, {})", self.sexpr(cls, depth + 1), self.svar(), self.lit()),
                    1 => format!("rep({}, {})", self.svar(), self.rng.below(3)),
                    2 => if self.rng.chance(1, 2) { format!("nest(2, {})[1][0]", self.svar()) } else { format!("nest(1, {})[1][1]", self.svar()) },
                    _ => format!("build({}, {})", self.sexpr(cls, depth + 1), self.rng.below(5)),
                },
                8 if nest => match self.rng.below(4) {
                    0 => format!("greet({})", self.sexpr(cls, depth + 1)),
                    1 => format!("outer({})", self.svar()),
                    2 => format!("deep2({})", self.svar()),
                    _ => "konst()".to_string(),
                },
                9 if clo => match self.rng.below(5) {
                    0 => format!("f0({})", self.sexpr(cls, depth + 1)),
                    1 => format!("f1({})", self.svar()),
                    2 => format!("fs[{}]({})", self.rng.below(2), self.sexpr(cls, depth + 1)),
                    3 => if self.rng.chance(1, 2) { format!("mk2({})({})({})", self.svar(), self.svar(), self.lit()) } else { format!("mk_live({})", self.svar()) },
                    _ => format!("mk_pre({})({})", self.svar(), self.lit()),
                },
                12 => format!("w0[1][{}]", self.rng.below(3)),
                13 => "w0[0][0]".to_string(),
                _ => format!("{} + {}", self.svar(), self.lit()),
            }
        }
        fn simple_stmt(&mut self, cls: Class) -> String {
            let fns = cls == Class::FnArgs || cls == Class::Mixed;
            let clo = cls == Class::Closure || cls == Class::Mixed;
            match self.rng.below(14) {
                12 => format!("w0.push({})", self.sexpr(cls, 0)),
                13 => format!("w0[0].push({})", self.sexpr(cls, 1)),
                0 | 1 | 2 => format!("{} = {}", self.svar(), self.sexpr(cls, 0)),
                3 | 4 => format!("{}.push({})", self.vvar(), self.sexpr(cls, 0)),
                5 => format!("a0[{}] = {}", self.rng.below(3), self.sexpr(cls, 0)),
                6 => {
                    let g = self.fresh("g");
                    match self.rng.below(3) {
                        0 => format!("let {} = Vec[{}, {}]", g, self.sexpr(cls, 1), self.lit()),
                        1 => format!("let {} = Array[{}, {}]", g, self.lit(), self.sexpr(cls, 1)),
                        _ => format!("let {} = {}", g, self.sexpr(cls, 0)),
                    }
                }
                7 => format!("println({})", self.sexpr(cls, 1)),
                8 => {
                    let v = self.vvar();
                    format!("if {}.len() > 2 {{ {} = {}.pop() + {} }}", v, self.svar(), v, self.lit())
                }
                9 if fns => format!("n0 = n0 + fill({}, {}, {})", self.vvar(), self.svar(), self.rng.below(6)),
                10 if clo => match self.rng.below(3) {
                    0 => "n0 = n0 + c0()".to_string(),
                    1 => format!("n0 = n0 + acc0({})", self.sexpr(cls, 1)),
                    _ => {
                        let t = self.fresh("t");
                        format!("let {} = mk_counter()\nn0 = n0 + {}() + {}()", t, t, t)
                    }
                },
                11 if self.rng.chance(1, 2) => {
                    // a fresh string and a fresh Vec are parked in manual memory ONLY, allocations follow, then they
                    // are loaded back (buffer slots are roots since /repo 474d1a4)
                    let b = self.fresh("mb");
                    let t = self.fresh("t");
                    let mut mid = String::new();
                    for _ in 0..1 + self.rng.below(3) {
                        mid.push_str(&format!("{} = {} + {}\n", self.svar(), self.svar(), self.lit()));
                    }
                    format!("let {b} = alloc(3)\nstore({b}, 0, {} + {})\nstore({b}, 1, Vec[{}, {} + {}])\nstore({b}, 2, 7)\n{mid}let {t} = load({b}, 1)\nprintln(load({b}, 0))\nprintln({t}.len() + load({b}, 2))\nprintln({t}[1])\nfree({b})",
                            self.svar(), self.lit(), self.lit(), self.svar(), self.lit())
                }
                11 => {
                    // manually managed buffer holding ints
                    let b = self.fresh("buf");
                    let n = 1 + self.rng.below(4);
                    format!("let {b} = alloc({})\nstore({b}, 0, {})\n{} = {} + {}\nn0 = n0 + load({b}, 0)\nfree({b})",
                            n + 1, self.rng.below(50), self.svar(), self.svar(), self.lit())
                }
                _ => format!("println({}.len())", self.vvar()),
            }
        }
        fn stmt(&mut self, cls: Class, out: &mut Vec<String>) {
            if self.rng.chance(1, 9) {
                // a call site executed several times with ONE global assignment after its first execution
                // (the site is specialised, the cache is cleared, the site is re-specialised on the miss
                // path and then runs on the fast path); the callee keeps a fresh string only in a local
                // across allocations; callee = global function or global closure
                let k = self.fresh("");
                let n = 1 + self.rng.below(4);
                let lit = self.rng.pick(&LITS).to_string();
                let rounds = 3 + self.rng.below(3);
                let when = 1 + self.rng.below(2);
                let def = if self.rng.chance(1, 2) {
                    format!("fn label{k}(name) {{\n    let open = \"<{lit}\" + name\n    let mut g = \"\"\n    let mut j = 0\n    while j < {n} {{\n        g = g + \"y\"\n        j = j + 1\n    }}\n    let close = name + \">\"\n    return open + \"|\" + close + g\n}}")
                } else {
                    format!("fn mklabel{k}(pre) {{\n    return fn(name) {{\n        let open = pre + name\n        let mut g = \"\"\n        let mut j = 0\n        while j < {n} {{\n            g = g + \"y\"\n            j = j + 1\n        }}\n        let close = name + \">\"\n        return open + \"|\" + close + g\n    }}\n}}\nlet label{k} = mklabel{k}(\"<{lit}\")")
                };
                out.push(format!("{def}\nlet mut round{k} = 0\nfor r{k} in 0..{rounds} {{\n    if r{k} == {when} {{\n        round{k} = round{k} + 1\n    }}\n    println(label{k}(\"item\"))\n}}\nprintln(round{k})"));
                return;
            }
            match self.rng.below(10) {
                0 | 1 => {
                    let i = self.fresh("i");
                    let c = 2 + self.rng.below(9);
                    let mut body = Vec::new();
                    for _ in 0..1 + self.rng.below(3) {
                        body.push(format!("    {}", self.simple_stmt(cls).replace('\n', "\n    ")));
                    }
                    // keep string sizes bounded: doubling in a loop would otherwise reach the heap limit
                    for k in 0..3 {
                        body.push(format!("    if s{k}.len() > 300 {{ s{k} = \"t\" + \"r\" }}"));
                    }
                    out.push(format!(
                        "let mut {i} = 0\nwhile {i} < {c} {{\n{}\n    {i} = {i} + 1\n}}",
                        body.join("\n")
                    ));
                }
                2 => {
                    let q = self.fresh("q");
                    let c = 1 + self.rng.below(20);
                    let v = self.vvar();
                    let e = self.sexpr(cls, 1);
                    out.push(format!("for {q} in 0..{c} {{\n    {v}.push({e})\n}}"));
                }
                _ => out.push(self.simple_stmt(cls)),
            }
        }

        /// Programs in which the function/closure that is running becomes unreachable from every
        /// variable while it is still running (self-replacing handlers in a global, a Vec slot, an
        /// upvalue, a caller's local; nested two and three frames deep), then allocates, then uses its
        /// own constants / captured variables.
        fn selfrepl_program(&mut self) -> String {
            let mut p: Vec<String> = Vec::new();
            p.push("fn churn(n) {\n    let mut s = \"\"\n    let mut i = 0\n    while i < n {\n        s = s + \"x\"\n        i++\n    }\n    return s\n}".into());
            let nt = 2 + self.rng.below(3);
            for _ in 0..nt {
                let k = self.fresh("");
                let n = 1 + self.rng.below(6);
                let lit = self.rng.pick(&LITS).to_string();
                let calls = 2 + self.rng.below(2);
                match self.rng.below(9) {
                    0 => {
                        // global slot, plain function
                        p.push(format!("let mut h{k} = fn(a) {{\n    let nxt = fn(b) {{ return \"{lit}-later\" + b }}\n    h{k} = nxt\n    let g = churn({n})\n    return \"{lit}-first\" + a + g\n}}"));
                        for c in 0..calls { p.push(format!("println(h{k}(\"{c}\"))")); }
                    }
                    1 => {
                        // Vec slot
                        p.push(format!("let hs{k} = Vec[]\nlet mut first{k} = fn(v, a) {{\n    let nxt = fn(w, b) {{ return \"{lit}-second\" + b }}\n    v[0] = nxt\n    let g = churn({n})\n    return \"{lit}-slot\" + a + g\n}}\nhs{k}.push(first{k})\nlet repl{k} = fn(v, a) {{ return \"unused\" }}\nfirst{k} = repl{k}"));
                        for c in 0..calls { p.push(format!("println(hs{k}[0](hs{k}, \"{c}\"))")); }
                    }
                    2 => {
                        // upvalue slot
                        p.push(format!("fn mk{k}() {{\n    let mut h = fn() {{ return \"init\" }}\n    h = fn() {{\n        h = fn() {{ return \"{lit}-replaced\" }}\n        let mut g = \"\"\n        let mut i = 0\n        while i < {n} {{\n            g = g + \"y\"\n            i++\n        }}\n        return \"{lit}-up\" + g\n    }}\n    return fn() {{ return h() }}\n}}\nlet call{k} = mk{k}()"));
                        for _ in 0..calls { p.push(format!("println(call{k}())")); }
                    }
                    3 => {
                        // caller's local, reassigned after the call returns and while the callee's result is pending
                        p.push(format!("fn driver{k}() {{\n    let mut f = fn(a) {{ return \"{lit}-plain\" + a }}\n    let r = f(churn({n}))\n    f = fn(a) {{ return \"{lit}-other\" + a }}\n    return r + f(churn(2))\n}}"));
                        for _ in 0..calls { p.push(format!("println(driver{k}())")); }
                    }
                    4 => {
                        // global slot, capturing closure that reinstalls itself
                        p.push(format!("let mut cur{k} = fn(n) {{ return \"base\" }}\nfn install{k}(tag) {{\n    cur{k} = fn(n) {{\n        install{k}(tag + \"+\")\n        let g = churn(n)\n        return \"{lit}-ran:\" + tag + g\n    }}\n    return 0\n}}\ninstall{k}(\"{lit}\")"));
                        for c in 0..calls { p.push(format!("println(cur{k}({}))", 1 + c)); }
                    }
                    5 => {
                        // two self-replacing handlers nested: collection happens three frames deep
                        p.push(format!("let mut inner{k} = fn(d) {{\n    let nxt = fn(e) {{ return \"{lit}-i2\" }}\n    inner{k} = nxt\n    return \"{lit}-i1\" + churn(d)\n}}\nlet mut outer{k} = fn(d) {{\n    let nxt = fn(e) {{ return \"{lit}-o2\" }}\n    outer{k} = nxt\n    return \"{lit}-o1\" + inner{k}(d) + churn(2)\n}}"));
                        for _ in 0..calls { p.push(format!("println(outer{k}({n}))")); }
                    }
                    7 | 8 => {
                        // a chain of 2..4 capturing closures in globals; each unregisters itself and calls the
                        // next, the last one allocates: during those collections SEVERAL running closures are
                        // referenced by nothing but their own frames (registers of the setup calls scrubbed)
                        let d = 2 + self.rng.below(3);
                        let mut t = String::new();
                        for j in 1..=d {
                            t.push_str(&format!("let mut hc{k}_{j} = null\n"));
                        }
                        for j in 1..=d {
                            if j < d {
                                t.push_str(&format!("fn mkc{k}_{j}(tag) {{\n    let label = \"{lit}{j}:\" + tag\n    return fn() {{\n        hc{k}_{j} = 0\n        let inner = hc{k}_{}()\n        return inner + \"|\" + label\n    }}\n}}\n", j + 1));
                            } else {
                                t.push_str(&format!("fn mkc{k}_{j}(tag) {{\n    let label = \"{lit}{j}:\" + tag\n    return fn() {{\n        hc{k}_{j} = 0\n        let g = churn({n})\n        return label + g\n    }}\n}}\n"));
                            }
                        }
                        t.push_str(&format!("fn setup{k}() {{\n"));
                        // creation order decides which closure has the lower heap index
                        let order: Vec<u64> = if self.rng.chance(1, 2) { (1..=d).collect() } else { (1..=d).rev().collect() };
                        for j in order {
                            t.push_str(&format!("    hc{k}_{j} = mkc{k}_{j}(\"{j}\")\n"));
                        }
                        t.push_str("    return 0\n}\n");
                        t.push_str(&format!("fn scrub{k}(x, depth) {{\n    let a = x + 1\n    let b = a + 2\n    let c = b + 3\n    let d = c + 4\n    let e = d + 5\n    let f = e + 6\n    let g = f + 7\n    let h = g + 8\n    if depth > 0 {{\n        return scrub{k}(h, depth - 1) + a + b + c + d + e + f + g\n    }}\n    return a + b + c + d + e + f + g + h\n}}\n"));
                        t.push_str(&format!("fn run{k}() {{\n    return hc{k}_1()\n}}\nsetup{k}()\nprintln(scrub{k}(1, {}))\nprintln(run{k}())", 2 + self.rng.below(4)));
                        p.push(t);
                    }
                    _ => {
                        // one-shot initialiser that replaces itself by a named function and recurses through the slot
                        p.push(format!("fn fb{k}(d) {{ return \"{lit}-fb\" }}\nlet mut once{k} = fn(d) {{\n    once{k} = fb{k}\n    if d > 0 {{\n        return \"{lit}-lvl\" + churn({n}) + once{k}(0)\n    }}\n    return \"zero\"\n}}\nfn wrap{k}(d) {{\n    return once{k}(d) + churn(2)\n}}"));
                        for c in 0..calls { p.push(format!("println(wrap{k}({}))", 2 - (c % 2))); }
                    }
                }
            }
            p.join("\n")
        }

        /// Sessions that go on after a runtime error: an outer function captures a fresh string in a closure that
        /// escapes through a heap object (array / vec element, or a global), then fails some frames deeper (reached
        /// through `deep` nested frames so that its registers lie far up); the following inputs allocate, then use
        /// the closure.
        fn session_program(&mut self) -> String {
            let k = self.fresh("");
            let lit = self.rng.pick(&LITS).to_string();
            let depth = 2 + self.rng.below(12);
            let boom = 1 + self.rng.below(4);
            let fail = match self.rng.below(3) {
                0 => "return 1 / (d - d)".to_string(),
                1 => "let e = [1]\n        return e[d + 5]".to_string(),
                _ => "let z = null\n        return z(d)".to_string(),
            };
            let escape = self.rng.below(3);
            let (decl, put, get) = match escape {
                0 => (format!("let box{k} = [fn() {{ return \"none\" }}]"), format!("box{k}[0] = fn() {{ return s }}"), format!("box{k}[0]()")),
                1 => (format!("let box{k} = Vec[]"), format!("box{k}.push(fn() {{ return s }})"), format!("box{k}[0]()")),
                _ => (format!("let mut box{k} = fn() {{ return \"none\" }}"), format!("box{k} = fn() {{ return s }}"), format!("box{k}()")),
            };
            let rounds = 2 + self.rng.below(5);
            let mut t = String::new();
            t.push_str(&format!("{decl}\nfn boom{k}(d) {{\n    if d > {boom} {{\n        {fail}\n    }}\n    return boom{k}(d + 1)\n}}\nfn outer{k}(n) {{\n    let s = \"{lit}item-\" + n\n    {put}\n    return boom{k}(0)\n}}\nfn deep{k}(j, n) {{\n    if j == 0 {{ return outer{k}(n) }}\n    let a = j + 1\n    let b = a + 1\n    let c = b + 1\n    return deep{k}(j - 1, n) + a + b + c\n}}\nprintln(\"defined\")"));
            t.push_str("\n//// next-input\n");
            t.push_str(&format!("deep{k}({depth}, \"7\")"));
            t.push_str("\n//// next-input\n");
            t.push_str(&format!("let mut p{k} = \"0123456789abcdef\"\nlet mut i{k} = 0\nwhile i{k} < {rounds} {{\n    p{k} = p{k} + p{k}\n    i{k} = i{k} + 1\n}}\nprintln(p{k}.len())"));
            t.push_str("\n//// next-input\n");
            t.push_str(&format!("println({get})\nprintln({get} + \"|again\")"));
            t
        }

        /// Assembly programs (bytecode the compiler never emits): a closure with few registers forwards its
        /// argument by TailCallUpval -- the frame is reused in place -- to a plain function with MORE registers
        /// that keeps a fresh string in a high register while a loop allocates; returns that string.
        fn asm_program(&mut self) -> String {
            let regs = 7 + self.rng.below(6);            // callee registers 7..12
            let holder = 5 + self.rng.below(regs - 7 + 1); // 5 ..= regs-2 ... kept below the two temporaries
            let t1 = regs - 2;
            let t2 = regs - 1;
            let holder = holder.min(t1 - 1);
            let small = 3 + self.rng.below(2);           // forwarding closure: 3 or 4 registers
            let loops = 2 + self.rng.below(5);
            let arg = self.rng.pick(&LITS).to_string();
            format!("; Aelys Assembly (.aasm)\n; generated: TailCallUpval from a {small}-register closure into a {regs}-register function, fresh string held in r{holder}\n\n.version 1\n\n.function 0\n  .arity 0\n  .registers 4\n  .nested 1\n\n  .globals\n    0: \"make\"\n    1: \"f\"\n\n  .constants\n    0: func @1 \"make\"\n    1: string \"{arg}\"\n\n  .code\n    0000: LoadK     r0, 0\n    0001: SetGlobalIdx 0, r0\n    0002: CallGlobal r1, 0, 0\n    0005: SetGlobalIdx 1, r1\n    0006: LoadK     r2, 1\n    0007: CallGlobal r1, 1, 1\n    0010: Return    r1\n\n.function 1\n  .name \"make\"\n  .arity 0\n  .registers 3\n  .nested 3\n\n  .constants\n    0: func @1 \"<lambda>\"\n    1: func @2 \"<lambda>\"\n    2: func @3 \"<lambda>\"\n\n  .code\n    0000: LoadK     r0, 0\n    0001: MakeClosure r1, k1, 1\n    0002: LoadK     r2, 2\n    0003: Move      r0, r2\n    0004: Move      r2, r1\n    0005: CloseUpvals r0\n    0006: Return    r2\n    0007: Return0\n    0008: CloseUpvals r0\n\n.function 2\n  .name \"<lambda>\"\n  .arity 1\n  .registers 2\n\n  .constants\n    0: string \"\"\n\n  .code\n    0000: LoadK     r1, 0\n    0001: Return    r1\n\n.function 3\n  .name \"<lambda>\"\n  .arity 1\n  .registers {small}\n\n  .upvalues\n    0: local 0\n\n  .code\n    0000: Move      r2, r0\n    0001: TailCallUpval r1, upval[0], 1\n\n.function 4\n  .name \"<lambda>\"\n  .arity 1\n  .registers {regs}\n\n  .constants\n    0: string \"0123456789abcdef\"\n    1: string \"item-\"\n    2: string \"junk-\"\n\n  .code\n    0000: LoadK     r1, 0\n    0001: LoadI     r2, 0\n    0002: LoadI     r3, 1\n    0003: LoadI     r4, 2\n    0004: LoadK     r{holder}, 1\n    0005: Add       r{holder}, r{holder}, r0\n  L0:\n    0006: LoadI     r{t2}, {loops}\n    0007: LtII      r{t1}, r2, r{t2}\n    0008: JumpIfNot r{t1}, L1\n    0009: Add       r{t1}, r1, r1\n    0010: Move      r1, r{t1}\n    0011: LoadI     r{t2}, 1\n    0012: AddII     r{t1}, r2, r{t2}\n    0013: Move      r2, r{t1}\n    0014: Jump      L0\n  L1:\n    0015: LoadK     r{t1}, 2\n    0016: Add       r{t1}, r{t1}, r0\n    0017: Move      r1, r{t1}\n    0018: Move      r{t1}, r{holder}\n    0019: Return    r{t1}\n")
        }

        pub fn program(&mut self, cls: Class) -> String {
            if cls == Class::SelfRepl {
                return self.selfrepl_program();
            }
            if cls == Class::Asm {
                return self.asm_program();
            }
            if cls == Class::Session {
                return self.session_program();
            }
            let mut p: Vec<String> = Vec::new();
            let mut tag_call = "mk_tag(\"-\")";
            let fns = cls == Class::FnArgs || cls == Class::Mixed;
            let nest = cls == Class::Nested || cls == Class::Mixed;
            let clo = cls == Class::Closure || cls == Class::Mixed;
            if fns {
                p.push("fn cat3(a, b, c) { return a + b + c }".into());
                p.push("fn rep(s, n) {\n    if n <= 0 { return s }\n    return rep(s + s, n - 1)\n}".into());
                p.push("fn build(s, n) {\n    let mut r = s\n    let mut i = 0\n    while i < n {\n        r = r + s\n        i = i + 1\n    }\n    return r\n}".into());
                p.push("fn fill(v, s, n) {\n    for i in 0..n {\n        v.push(s + s)\n    }\n    return v.len()\n}".into());
                p.push("fn nest(n, s) {\n    let v = Vec[]\n    v.push(s)\n    v.push(s + s)\n    if n > 0 {\n        v[1] = nest(n - 1, s + s)\n    }\n    return v\n}".into());
            }
            if nest {
                p.push("fn greet(x) { return \"hi-\" + x }".into());
                p.push("fn konst() { return \"k-only\" }".into());
                p.push("fn outer(x) {\n    fn inner(y) { return \"in:\" + y }\n    return inner(x) + \"!\"\n}".into());
                p.push("fn deep2(x) {\n    fn mid(y) {\n        fn leaf(z) { return \"deep\" + z }\n        return leaf(y) + \"mid\"\n    }\n    return mid(x)\n}".into());
            }
            if clo {
                p.push("fn mk_pre(p) {\n    let pre = p + p\n    return fn(x) { return pre + x }\n}".into());
                p.push("fn mk_counter() {\n    let mut c = 0\n    return fn() {\n        c++\n        return c\n    }\n}".into());
                p.push("fn mk_acc(v) {\n    return fn(x) {\n        v.push(x)\n        return v.len()\n    }\n}".into());
                // the closure is called while its captured variable is still an OPEN upvalue (the declaring
                // frame is running), with allocations in between
                p.push("fn mk_live(p) {\n    let mut acc = p\n    let add = fn(x) {\n        acc = acc + x\n        return acc\n    }\n    let a = add(\"1\")\n    let b = add(a + \"2\")\n    return b + acc\n}".into());
                p.push("fn mk2(a) {\n    return fn(b) {\n        return fn(c) { return a + b + c }\n    }\n}".into());
                // half of the closure programs have no heap constant inside any function
                let litfree = cls == Class::Closure && self.rng.chance(1, 2);
                if litfree {
                    p.push("fn mk_tag(t) { return fn(x) { return t + x } }".into());
                    tag_call = "mk_tag(\"tag:\")";
                } else if self.rng.chance(1, 2) {
                    p.push("fn mk_tag(t) { return fn(x) { return \"tag:\" + x } }".into());
                } else {
                    p.push("fn mk_tag(u) {\n    let t = \"t\" + \"ag:\"\n    return fn(x) { return t + x }\n}".into());
                }
            }
            for k in 0..3 {
                p.push(format!("let mut s{} = {} + {}", k, self.lit(), self.lit()));
            }
            p.push(format!("let a0 = Array[{} + {}, {}, {} + {}]", self.lit(), self.lit(), self.lit(), self.lit(), self.lit()));
            p.push(format!("let v0 = Vec[{} + {}]", self.lit(), self.lit()));
            p.push(format!("let v1 = Vec[{}, {} + {}]", self.lit(), self.lit(), self.lit()));
            p.push("let mut n0 = 0".into());
            p.push("let w0 = Vec[]\nw0.push(v0)\nw0.push(a0)".into());
            if clo {
                p.push("let fs = Vec[]\nfs.push(mk_pre(s1))\nfs.push(mk_pre(s2 + s0))".into());
                p.push("let f0 = mk_pre(s0)".into());
                p.push(format!("let f1 = {}", tag_call));
                p.push("let c0 = mk_counter()".into());
                p.push("let acc0 = mk_acc(v1)".into());
            }
            let n = 4 + self.rng.below(14);
            for _ in 0..n {
                self.stmt(cls, &mut p);
            }
            p.push("println(s0 + \"|\" + s1 + \"|\" + s2)".into());
            p.push("println(a0[0] + a0[1] + a0[2])".into());
            p.push("println(v0.len() + v1.len() + n0)".into());
            p.push("println(v0[v0.len() - 1] + v1[0])".into());
            p.push("println(w0.len() + w0[0].len())".into());
            if clo {
                // after the script has finished the HOST calls these globals (VM::call_function_by_name):
                // closures run on `current_upvalues`, arguments are host-allocated strings
                p.push("// host-call: f0 hostarg".into());
                p.push("// host-call: c0".into());
                p.push("// host-call: acc0 pushed-by-host".into());
                p.push("// host-call: f1 zz".into());
            }
            p.join("\n")
        }
    }

    // ------------------------------------------------------------------ audit recorder
    const KIND: [&str; 7] = ["string", "function", "native", "upvalue", "closure", "array", "vec"];

    struct Pre {
        objs: Vec<AuditObj>,
        roots: Vec<usize>,
        frames: Vec<AuditFrame>,
        vmst: AuditVmState,
        free: Vec<usize>,
        nslots: usize,
        site: (usize, usize, u8),
        pending: Option<usize>,
    }

    #[derive(Default)]
    pub struct Recorder {
        pre: Option<Pre>,
        pub collections: u64,
        pub nested_losses: u64, // objects reachable only through nested-function constants that were freed
        pub pending_seen: u64,  // collections that ran while MakeClosure held an unrooted function (must stay 0)
        pub only_frame_rooted: u64, // collections at which a running function/closure was reachable from its frame only
        pub stale_register_ptrs: u64, // pointer-valued registers above every frame window, summed over collections
        pub cache_ptrs: u64,          // pointer values in the layout snapshots before collections, summed
        pub running_closure_losses: u64, // collections that freed the closure object a live frame runs (or what only it reaches)
        pub tag: String,
        pub features: BTreeMap<String, u64>,
        pub exposure: u64, // collections at which some live function had heap pointers among its nested functions' constants
        pub problems: Vec<(u64, String, String)>,
        pub dumps: Vec<(u64, (usize, usize, u8), String, String)>,
        pub max_dumps: usize,
        pub rng: Option<Rng>,
    }

    fn fn_flat(f: &AuditFn, depth: u32, out: &mut Vec<(usize, bool)>) {
        for p in &f.own {
            out.push((*p, depth > 0));
        }
        for n in &f.nested {
            fn_flat(n, depth + 1, out);
        }
    }
    /// (field label, target, follows-nested-constant)
    fn edges(o: &AuditObj) -> Vec<(&'static str, usize, bool)> {
        let mut e = Vec::new();
        match o.kind {
            1 => {
                let mut fl = Vec::new();
                if let Some(f) = &o.func {
                    fn_flat(f, 0, &mut fl);
                }
                for (p, nested) in fl {
                    e.push((if nested { "function.nested-const" } else { "function.const" }, p, nested));
                }
            }
            3 => {
                for p in &o.refs {
                    e.push(("upvalue.closed", *p, false));
                }
            }
            4 => {
                for (k, p) in o.refs.iter().enumerate() {
                    e.push((if k == 0 { "closure.function" } else { "closure.upvalue" }, *p, false));
                }
            }
            5 => {
                for p in &o.refs {
                    e.push(("array.elem", *p, false));
                }
            }
            6 => {
                for p in &o.refs {
                    e.push(("vec.elem", *p, false));
                }
            }
            _ => {}
        }
        e
    }
    fn closure_from(objs: &BTreeMap<usize, &AuditObj>, roots: &[usize], with_nested: bool) -> BTreeSet<usize> {
        let mut seen = BTreeSet::new();
        let mut todo: Vec<usize> = roots.iter().copied().filter(|r| objs.contains_key(r)).collect();
        while let Some(i) = todo.pop() {
            if !seen.insert(i) {
                continue;
            }
            for (_, t, nested) in edges(objs[&i]) {
                if (with_nested || !nested) && objs.contains_key(&t) && !seen.contains(&t) {
                    todo.push(t);
                }
            }
        }
        seen
    }
    fn nl(xs: impl IntoIterator<Item = usize>) -> String {
        let v: Vec<String> = xs.into_iter().map(|x| x.to_string()).collect();
        format!("[{}]", v.join(";"))
    }
    fn fnc_term(f: &AuditFn) -> String {
        let n: Vec<String> = f.nested.iter().map(fnc_term).collect();
        format!("(FnC {} [{}])", nl(f.own.iter().copied()), n.join(";"))
    }
    fn obj_term(o: &AuditObj) -> String {
        let d = o.digest;
        match o.kind {
            0 => format!("OString {}", d),
            1 => format!("OFunction {} {}", d, fnc_term(o.func.as_ref().unwrap())),
            2 => format!("ONative {}", d),
            3 => match o.refs.first() {
                Some(p) => format!("OUpvalue {} (Some {})", d, p),
                None => format!("OUpvalue {} None", d),
            },
            4 => format!("OClosure {} {} {}", d, o.refs[0], nl(o.refs[1..].iter().copied())),
            5 => format!("OArray {} {}", d, nl(o.refs.iter().copied())),
            _ => format!("OVec {} {}", d, nl(o.refs.iter().copied())),
        }
    }

    impl Recorder {
        fn problem(&mut self, sig: String, detail: String) {
            if self.problems.len() < 40 {
                self.problems.push((self.collections, sig, detail));
            }
        }
        pub fn on_collect(&mut self, vm: &VM, after: bool) {
            if !after {
                let (free, nslots) = vm.verif_free_list();
                self.pre = Some(Pre {
                    objs: vm.verif_heap_audit(),
                    roots: vm.verif_roots(),
                    frames: vm.verif_frames(),
                    vmst: vm.verif_vm_state(),
                    free,
                    nslots,
                    site: vm.verif_safepoint_site(),
                    pending: verif::pending_fn(),
                });
                return;
            }
            let Some(pre) = self.pre.take() else { return };
            self.collections += 1;
            let post = vm.verif_heap_audit();
            let (free2, nslots2) = vm.verif_free_list();
            let pre_map: BTreeMap<usize, &AuditObj> = pre.objs.iter().map(|o| (o.index, o)).collect();
            let post_map: BTreeMap<usize, &AuditObj> = post.iter().map(|o| (o.index, o)).collect();
            // (a) mark bits are clear outside a collection
            if let Some(o) = pre.objs.iter().find(|o| o.marked) {
                self.problem(format!("mark-bit-set-before:{}", KIND[o.kind as usize]), format!("slot {}", o.index));
            }
            if let Some(o) = post.iter().find(|o| o.marked) {
                self.problem(format!("mark-bit-set-after:{}", KIND[o.kind as usize]), format!("slot {}", o.index));
            }
            if nslots2 != pre.nslots {
                self.problem("slot-count-changed".into(), format!("{} -> {}", pre.nslots, nslots2));
            }
            // free list after the sweep: distinct indices of empty slots inside the slot vector
            {
                let mut seen = BTreeSet::new();
                for &x in &free2 {
                    if !seen.insert(x) || x >= nslots2 || post_map.contains_key(&x) {
                        self.problem("free-list-malformed".into(), format!("entry {} (slots {}, live {})", x, nslots2, post_map.contains_key(&x)));
                        break;
                    }
                }
            }
            // (b) survivors are untouched, nothing appears
            for o in &post {
                match pre_map.get(&o.index) {
                    None => self.problem(format!("appeared:{}", KIND[o.kind as usize]), format!("slot {}", o.index)),
                    Some(p) => {
                        if p.kind != o.kind || p.digest != o.digest || p.refs != o.refs || p.func != o.func {
                            self.problem(format!("contents-changed:{}", KIND[o.kind as usize]), format!("slot {}", o.index));
                        }
                    }
                }
            }
            // (c) the statement: everything the program can still reach survives.  The audit's own roots:
            //   * what the hook verif_roots lists (a transcription of collect's loop, kept apart from it),
            //   * the function of EVERY active frame (hook verif_frames, independent of collect),
            //   * the closure object of every active frame (a frame only keeps a raw pointer into it).
            let mut fn_roots: Vec<usize> = pre.roots.clone();
            fn_roots.extend(pre.vmst.manual.iter().copied()); // slots of live manual buffers (independent of collect)
            fn_roots.extend(pre.frames.iter().map(|f| f.function));
            // registers inside the window each running function DECLARES (not the count the frame happens
            // to record): a live variable is a root whatever the frame record says
            let mut window_mismatch = None;
            for (fr, (base, n, _, _)) in pre.frames.iter().zip(pre.vmst.frames.iter()) {
                let declared = fr.function_num_registers.unwrap_or(*n);
                if declared != fr.frame_num_registers && window_mismatch.is_none() {
                    window_mismatch = Some((fr.frame_num_registers, declared));
                }
                for k in *base..(*base + declared.max(*n)).min(pre.vmst.registers.len()) {
                    if let Some(p) = pre.vmst.registers[k] {
                        fn_roots.push(p);
                    }
                }
            }
            if let Some((rec, decl)) = window_mismatch {
                self.problem("frame-record-inconsistent:num_registers".into(),
                             format!("a frame records {} registers, its function declares {}", rec, decl));
            }
            let mut audit_roots = fn_roots.clone();
            audit_roots.extend(pre.frames.iter().filter_map(|f| f.closure));
            let reach_model = closure_from(&pre_map, &pre.roots, true); // what the Coq model is asked about
            // roots that are not frame functions/closures: registers, globals, upvalue lists
            let mut non_frame_roots: Vec<usize> = pre.vmst.globals.clone();
            non_frame_roots.extend(pre.vmst.globals_by_index.iter().flatten());
            non_frame_roots.extend(pre.vmst.open_upvalues.iter());
            non_frame_roots.extend(pre.vmst.current_upvalues.iter());
            non_frame_roots.extend(pre.vmst.manual.iter());
            for (base, n, _, _) in &pre.vmst.frames {
                for k in *base..(*base + *n).min(pre.vmst.registers.len()) {
                    if let Some(p) = pre.vmst.registers[k] {
                        non_frame_roots.push(p);
                    }
                }
            }
            let reach_nf = closure_from(&pre_map, &non_frame_roots, true);
            // (the entry frame's function is always frame-only: count the others)
            let frame_only = pre.frames.iter().skip(1).any(|f| {
                (pre_map.contains_key(&f.function) && !reach_nf.contains(&f.function))
                    || f.closure.map(|c| !reach_nf.contains(&c)).unwrap_or(false)
            });
            if frame_only {
                self.only_frame_rooted += 1;
            }
            self.stale_register_ptrs += pre.vmst.stale_register_ptrs as u64;
            self.cache_ptrs += pre.vmst.globals_cache.len() as u64;
            let reach_all = closure_from(&pre_map, &audit_roots, true);
            let reach_fn = closure_from(&pre_map, &fn_roots, true);
            let reach_direct = closure_from(&pre_map, &fn_roots, false);
            if pre.objs.iter().any(|o| edges(o).iter().any(|e| e.2)) {
                self.exposure += 1;
            }
            // ---- which features of the model this collection exercised (generator audit)
            {
                let mut hit = |k: String| *self.features.entry(k).or_insert(0) += 1;
                hit(format!("site:op{}", pre.site.2));
                hit(format!("frames:{}", pre.frames.len().min(5)));
                hit(format!("heap-slots:{}", match pre.nslots { 0..=149 => "<150", 150..=199 => "150-199", 200..=299 => "200-299", _ => ">=300" }));
                if !pre.free.is_empty() { hit("free-list-nonempty-before".into()); }
                if post.len() < pre.objs.len() { hit("freed-something".into()); }
                if pre.frames.iter().any(|f| f.closure.is_some()) { hit("root:frame-closure".into()); }
                if pre.frames.len() > 1 { hit("root:frame-function-of-callee".into()); }
                if !pre.vmst.globals.is_empty() { hit("root:global-by-name".into()); }
                if pre.vmst.globals_by_index.iter().any(|v| v.is_some()) { hit("root:global-by-index".into()); }
                if !pre.vmst.open_upvalues.is_empty() { hit("root:open-upvalue".into()); }
                if !pre.vmst.current_upvalues.is_empty() { hit("root:current-upvalue(host call)".into()); }
                if !pre.vmst.manual.is_empty() { hit("root:manual-buffer-slot".into()); }
                {
                    let mut others: Vec<usize> = pre.roots.iter().copied().filter(|r| !pre.vmst.manual.contains(r)).collect();
                    others.extend(pre.frames.iter().map(|f| f.function));
                    others.extend(non_frame_roots.iter().copied().filter(|r| !pre.vmst.manual.contains(r)));
                    let reach_wo = closure_from(&pre_map, &others, true);
                    if pre.vmst.manual.iter().any(|p| pre_map.contains_key(p) && !reach_wo.contains(p)) {
                        hit("object-reachable-through-a-manual-buffer-only".into());
                    }
                }
                if pre.vmst.manual_freed_dirty > 0 { hit("non-root:freed-manual-buffer-still-holds-pointer".into()); }
                if pre.vmst.frames.iter().any(|(b, n, _, _)| (*b..(*b + *n).min(pre.vmst.registers.len())).any(|k| pre.vmst.registers[k].is_some())) {
                    hit("root:register-in-window".into());
                }
                if pre.vmst.stale_register_ptrs > 0 { hit("non-root:pointer-register-above-windows".into()); }
                if !pre.vmst.globals_cache.is_empty() { hit("non-root:layout-snapshot-pointer".into()); }
                if frame_only { hit("running-function-or-closure-rooted-by-frame-only".into()); }
                {
                    let orphans: BTreeSet<usize> = pre.frames.iter().filter_map(|f| f.closure).filter(|c| !reach_nf.contains(c)).collect();
                    if orphans.len() >= 2 { hit("several-running-closures-rooted-by-their-frames-only".into()); }
                    let distinct: BTreeSet<usize> = pre.frames.iter().filter_map(|f| f.closure).collect();
                    if distinct.len() >= 2 { hit("root:frame-closures-of-several-frames".into()); }
                }
                let mut kinds = BTreeSet::new();
                let mut labels = BTreeSet::new();
                for &i in &reach_all {
                    let o = pre_map[&i];
                    kinds.insert(o.kind);
                    for (field, t, _) in edges(o) {
                        if pre_map.contains_key(&t) { labels.insert(field); }
                    }
                    if let Some(f) = &o.func {
                        if f.nested.iter().any(|n| n.nested.iter().any(|m| !m.own.is_empty() || !m.nested.is_empty())) {
                            labels.insert("function.nested-const(depth>=2)");
                        }
                    }
                }
                for k in kinds { hit(format!("reachable-kind:{}", KIND[k as usize])); }
                for l in labels { hit(format!("edge:{}", l)); }
                let garbage_kinds: BTreeSet<u8> = pre.objs.iter().filter(|o| !reach_all.contains(&o.index)).map(|o| o.kind).collect();
                for k in garbage_kinds { hit(format!("garbage-kind:{}", KIND[k as usize])); }
            }
            let mut closure_loss = false;
            for &i in &reach_all {
                if post_map.contains_key(&i) {
                    continue;
                }
                let k = KIND[pre_map[&i].kind as usize];
                if reach_direct.contains(&i) {
                    let how = if pre.roots.contains(&i) {
                        "root"
                    } else if pre.frames.iter().any(|f| f.function == i) {
                        "frame-function"
                    } else if pre.vmst.manual.contains(&i) {
                        "manual-buffer-slot"
                    } else if fn_roots.contains(&i) {
                        "register-in-declared-window"
                    } else {
                        "edge"
                    };
                    self.problem(format!("reachable-freed:{}:{}", how, k), format!("slot {} at op {}", i, pre.site.2));
                } else if reach_fn.contains(&i) {
                    // reachable only through the constants of a nested, not yet instantiated function
                    // (the defect repaired by /repo ad6fcd1)
                    self.nested_losses += 1;
                    self.problem("reachable-freed:only-via-nested-function-constant".into(),
                                 format!("slot {} ({}) at op {}", i, k, pre.site.2));
                } else {
                    // reachable only through the closure object that an active frame is executing
                    closure_loss = true;
                }
            }
            if closure_loss {
                // (the defect repaired by /repo af27ef7: the closure object of a running frame was not a root)
                self.running_closure_losses += 1;
                self.problem("running-closure-freed".into(),
                             format!("collection {} at op {}, frames {}", self.collections, pre.site.2, pre.frames.len()));
            }
            // a frame whose upvalue pointer belongs to no live closure object
            if pre.frames.iter().any(|f| f.has_upvalues && f.closure.is_none()) {
                self.problem("frame-upvalues-dangling".into(), format!("collection {}", self.collections));
            }
            // an OPEN upvalue denotes a register of a running frame; if that register lies outside every
            // frame window the captured variable is not a root although a closure can still read it
            for (u, reg) in pre.vmst.open_upvalues.iter().zip(pre.vmst.open_upvalue_registers.iter()) {
                if let Some(r) = reg {
                    let inside = pre.vmst.frames.iter().zip(pre.frames.iter()).any(|((b, n, _, _), a)| {
                        *r >= *b && *r < *b + (*n).max(a.function_num_registers.unwrap_or(0))
                    });
                    if !inside {
                        self.problem("open-upvalue-into-dead-register".into(),
                                     format!("upvalue {} refers to register {} outside every frame window ({} frames)", u, r, pre.frames.len()));
                        break;
                    }
                }
            }
            // (d) a function object MakeClosure holds only in a local (hook pending_fn).  Since /repo
            // 9ba6d0e there is no safepoint while it is pending, so this never fires; if a safepoint
            // is reintroduced there the loss is reported with its cause
            if let Some(p) = pre.pending {
                if pre_map.contains_key(&p) && !reach_all.contains(&p) {
                    self.pending_seen += 1;
                    if !post_map.contains_key(&p) {
                        self.problem("unrooted-local-freed:makeclosure-function".into(),
                                     format!("collection {} slot {}", self.collections, p));
                    }
                }
            }
            // (e) every edge out of a surviving reachable object lands on a live object of the expected kind
            for &i in &reach_all {
                if !post_map.contains_key(&i) {
                    continue;
                }
                for (field, t, _) in edges(pre_map[&i]) {
                    match post_map.get(&t) {
                        None => {
                            if pre_map.contains_key(&t) {
                                // freed now although referenced: reported under (c)
                            } else {
                                self.problem(format!("dangling-before-collection:{}", field), format!("slot {} -> {}", i, t));
                            }
                        }
                        Some(o) => {
                            let want = match field {
                                "closure.function" => Some(1u8),
                                "closure.upvalue" => Some(3u8),
                                _ => None,
                            };
                            if let Some(w) = want {
                                if o.kind != w {
                                    self.problem(format!("wrong-kind:{}->{}", field, KIND[o.kind as usize]), format!("slot {} -> {}", i, t));
                                }
                            }
                        }
                    }
                }
            }
            // sampled dump for the model tie
            let take = self.dumps.len() < self.max_dumps
                && (self.collections <= 2 || (frame_only && self.only_frame_rooted <= 2)
                    || self.rng.as_mut().map(|r| r.chance(1, 6)).unwrap_or(false));
            if take {
                let mut slots = Vec::with_capacity(pre.nslots);
                for i in 0..pre.nslots {
                    match pre_map.get(&i) {
                        Some(o) => slots.push(format!("Some ({})", obj_term(o))),
                        None => slots.push("None".to_string()),
                    }
                }
                let ol = |xs: &[Option<usize>]| -> String {
                    let v: Vec<String> = xs.iter().map(|x| match x { Some(p) => format!("Some {}", p), None => "None".into() }).collect();
                    format!("[{}]", v.join(";"))
                };
                let st = &pre.vmst;
                let frames: Vec<String> = st.frames.iter().zip(pre.frames.iter()).map(|((b, n, f, c), a)| format!("mkFrame {} {} {} {} {}", b, n, f,
                    match c { Some(c) => format!("(Some {})", c), None => "None".into() },
                    a.function_num_registers.unwrap_or(*n))).collect();
                let vmterm = format!("(mkVm {} [{}] {} {} {} {} {} {})", ol(&st.registers), frames.join(";"),
                                     nl(st.globals.iter().copied()), ol(&st.globals_by_index),
                                     nl(st.open_upvalues.iter().copied()), nl(st.current_upvalues.iter().copied()),
                                     nl(st.globals_cache.iter().copied()), nl(st.manual.iter().copied()));
                let q = format!("QVmCollect {} (mkHeap [{}] {})", vmterm, slots.join(";"), nl(pre.free.iter().rev().copied()));
                let cache_after = vm.verif_vm_state().globals_cache;
                let mut free_sorted = free2.clone();
                free_sorted.sort();
                let obs = format!("[{};{};{};{};{};[1]]", nl(post.iter().map(|o| o.index)), nl(free_sorted.iter().copied()),
                                  nl(reach_model.iter().copied()), nl(pre.roots.iter().copied()), nl(cache_after.iter().copied()));
                self.dumps.push((self.collections, pre.site, q, obs));
            }
        }
    }

    /// Assembly route: a program whose first line starts with `; Aelys Assembly` is assembled by the real
    /// assembler and executed the way `aelys-cli run x.aasm` does it (assemble, nested functions attached to
    /// function 0, heap merged, constants remapped, function object allocated, execute); the value of the
    /// main function is the result.  Bytecode the compiler never emits (TailCallUpval, ...) is reachable here.
    fn run_assembly(src: &str, gc: (u8, u64), budget: u64) -> Outcome {
        let text = src.to_string();
        verif::sink_install();
        verif::gc_mode_set(gc.0, gc.1);
        verif::budget_set(budget);
        let r = guarded(std::panic::AssertUnwindSafe(move || {
            let bad = |m: String| aelys_common::error::AelysError::Runtime(aelys_common::error::RuntimeError::new(
                aelys_common::error::RuntimeErrorKind::InvalidBytecode(m), Vec::new(), aelys_syntax::Source::new("<verif>", "")));
            let (mut functions, mut heap) = aelys_bytecode::asm::assemble(&text).map_err(|e| bad(format!("assemble: {}", e)))?;
            if functions.is_empty() {
                return Err(bad("no function".into()));
            }
            let mut main = functions.remove(0);
            if !functions.is_empty() {
                main.nested_functions = functions;
            }
            let mut vm = aelys_driver::new_vm_with_config(Default::default(), Vec::new())?;
            let remap = vm.merge_heap(&mut heap).map_err(aelys_common::error::AelysError::Runtime)?;
            main.remap_constants(&remap);
            let fref = vm.alloc_function(main).map_err(aelys_common::error::AelysError::Runtime)?;
            let v = vm.execute(fref).map_err(aelys_common::error::AelysError::Runtime)?;
            let s = vm.value_to_string(v);
            Ok((v, s))
        }));
        let out = verif::sink_take();
        verif::budget_set(u64::MAX);
        verif::gc_mode_set(0, 0);
        classify(r, out)
    }

    /// Session route (REPL / embedding host): the inputs separated by a line `//// next-input` are run one
    /// after the other on the SAME VM; a failing input does not end the session (its error kind is recorded).
    fn run_session(src: &str, opt: u32, gc: (u8, u64), budget: u64) -> Outcome {
        let inputs: Vec<String> = src.split("\n//// next-input\n").map(|s| s.to_string()).collect();
        verif::sink_install();
        verif::gc_mode_set(gc.0, gc.1);
        verif::budget_set(budget);
        let r = guarded(std::panic::AssertUnwindSafe(move || {
            let mut vm = aelys_driver::new_vm_with_config(Default::default(), Vec::new())?;
            let mut s = String::new();
            let mut last = aelys_runtime::Value::null();
            for (k, input) in inputs.iter().enumerate() {
                match aelys_driver::run_with_vm_and_opt(&mut vm, input, "<verif>", opt_level(opt)) {
                    Ok(v) => { last = v; s.push_str(&format!("|{}:ok", k)); }
                    Err(aelys_common::error::AelysError::Runtime(e)) => {
                        let kn = kind_name(&e.kind);
                        if kn == "Budget" { return Err(aelys_common::error::AelysError::Runtime(e)); }
                        s.push_str(&format!("|{}:runtime:{}", k, kn));
                    }
                    Err(e) => return Err(e),
                }
            }
            Ok((last, s))
        }));
        let out = verif::sink_take();
        verif::budget_set(u64::MAX);
        verif::gc_mode_set(0, 0);
        classify(r, out)
    }

    /// run_program + host calls announced by `// host-call: <global> [<string argument>]` lines
    fn run_with_host_calls(src: &str, opt: u32, gc: (u8, u64), budget: u64) -> Outcome {
        let hosts: Vec<(String, Option<String>)> = src
            .lines()
            .filter_map(|l| l.trim().strip_prefix("// host-call: "))
            .map(|l| {
                let mut it = l.splitn(2, ' ');
                (it.next().unwrap_or("").to_string(), it.next().map(|a| a.to_string()))
            })
            .collect();
        if hosts.is_empty() {
            return run_program(src, opt, gc, budget, None);
        }
        let srcs = src.to_string();
        verif::sink_install();
        verif::gc_mode_set(gc.0, gc.1);
        verif::budget_set(budget);
        let r = guarded(std::panic::AssertUnwindSafe(move || {
            let mut vm = aelys_driver::new_vm_with_config(Default::default(), Vec::new())?;
            let v = aelys_driver::run_with_vm_and_opt(&mut vm, &srcs, "<verif>", opt_level(opt))?;
            let mut s = vm.value_to_string(v);
            for (name, arg) in &hosts {
                let args: Vec<aelys_runtime::Value> = match arg {
                    Some(a) => vec![aelys_runtime::Value::ptr(vm.alloc_string(a).map_err(aelys_common::error::AelysError::Runtime)?.index())],
                    None => vec![],
                };
                let rv = vm.call_function_by_name(name, &args).map_err(aelys_common::error::AelysError::Runtime)?;
                s.push_str(&format!("|{}={}", name, vm.value_to_string(rv)));
            }
            Ok((v, s))
        }));
        let out = verif::sink_take();
        verif::budget_set(u64::MAX);
        verif::gc_mode_set(0, 0);
        classify(r, out)
    }

    pub fn main() {
        quiet_panics();
        let seed = arg_u64("--seed", 0);
        let nprog = arg_u64("--programs", 40);
        let budget = arg_u64("--budget", 150_000);
        let max_dumps = arg_u64("--dumps-per-run", 4) as usize;
        let opt = arg_u64("--opt", 0) as u32;
        let start = arg_u64("--start", 0) as usize;
        let mut progs: Vec<(String, String)> = Vec::new();
        if let Some(f) = arg("--file") {
            let text = std::fs::read_to_string(&f).expect("read --file");
            for (k, p) in text.split("\n=====\n").enumerate() {
                if !p.trim().is_empty() {
                    progs.push((format!("corpus{}", k), p.to_string()));
                }
            }
        }
        let mut g = Gen::new(seed);
        let classes = [Class::Plain, Class::FnArgs, Class::Nested, Class::Closure, Class::Mixed, Class::SelfRepl];
        for k in 0..nprog {
            let cls = if k % 13 == 12 { Class::Asm } else if k % 13 == 6 { Class::Session } else { classes[(k % 6) as usize] };
            progs.push((cls.name().to_string(), g.program(cls)));
        }
        let handle = std::thread::Builder::new().stack_size(256 << 20).spawn(move || {
            for (idx, (cls, src)) in progs.iter().enumerate() {
                if idx < start {
                    continue;
                }
                println!("P\t{}\t{}\t{}", idx, cls, esc(src));
                let rk = 3 + (seed.wrapping_mul(31).wrapping_add(idx as u64 * 7)) % 11;
                let scheds: Vec<(u8, u64)> = vec![(1, 0), (2, 0), (3, 2), (3, 3), (3, 7), (4, rk), (4, rk + 13)];
                for &gc in &scheds {
                    let rec = Rc::new(RefCell::new(Recorder {
                        max_dumps,
                        rng: Some(Rng::new(seed ^ ((idx as u64) << 20) ^ ((gc.0 as u64) << 8) ^ gc.1)),
                        tag: format!("{}\t{}:{}", idx, gc.0, gc.1),
                        ..Default::default()
                    }));
                    // printed before the run so that a crash of the process can be attributed
                    println!("S\t{}\t{}:{}", idx, gc.0, gc.1);
                    let rc2 = rec.clone();
                    verif::pending_fn_set(None);
                    verif::gc_audit_install(Box::new(move |vm, after| rc2.borrow_mut().on_collect(vm, after)));
                    let r = if src.trim_start().starts_with("; Aelys Assembly") { run_assembly(src, gc, budget) } else if src.contains("\n//// next-input\n") { run_session(src, opt, gc, budget) } else { run_with_host_calls(src, opt, gc, budget) };
                    verif::gc_audit_remove();
                    let rec = rec.borrow();
                    let s = format!("{}:{}", gc.0, gc.1);
                    println!("R\t{}\t{}\t{}\t{}\t{}\t{}\t{}\t{}\t{}\t{}\t{}\t{}\t{}\t{}", idx, s, r.class, esc(&r.output), esc(&r.value),
                             esc(&r.detail), rec.collections, rec.nested_losses, rec.pending_seen, rec.exposure, rec.running_closure_losses,
                             rec.only_frame_rooted, rec.stale_register_ptrs, rec.cache_ptrs);
                    let feats: Vec<String> = rec.features.iter().map(|(k, v)| format!("{}={}", k, v)).collect();
                    println!("F\t{}\t{}\t{}", idx, s, feats.join(";"));
                    for (c, sig, d) in &rec.problems {
                        println!("X\t{}\t{}\t{}\t{}\t{}", idx, s, c, sig, esc(d));
                    }
                    for (c, site, q, o) in &rec.dumps {
                        println!("D\t{}\t{}\t{}\t{},{},{}\t{}\t{}", idx, s, c, site.0, site.1, site.2, q, o);
                    }
                }
            }
        }).unwrap();
        handle.join().unwrap();
    }
}

#[cfg(vbxq_aelys_lang_verif)]
fn main() {
    imp::main();
}
#[cfg(not(vbxq_aelys_lang_verif))]
fn main() {
    eprintln!("built without hooks");
    std::process::exit(2);
}
