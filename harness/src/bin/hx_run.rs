//! Generic program runner: reads programs from a file (separated by lines `=====`), runs
//! each at the requested optimisation levels / GC schedules, prints one line per run:
//!   <program index>\t<opt>\t<gc mode>:<k>\t<class>\t<output>\t<value>\t<detail>   (escaped)
#[cfg(vbxq_aelys_lang_verif)]
fn main() {
    use hxlib::runner::*;
    use hxlib::*;
    quiet_panics();
    let file = arg("--file").expect("--file");
    let opts: Vec<u32> = arg("--opts").unwrap_or("0,1,2,3".into()).split(',').filter_map(|s| s.parse().ok()).collect();
    let gcs: Vec<(u8, u64)> = arg("--gc").unwrap_or("0:0".into()).split(',').filter_map(|s| {
        let mut it = s.split(':');
        Some((it.next()?.parse().ok()?, it.next().unwrap_or("0").parse().ok()?))
    }).collect();
    let budget = arg_u64("--budget", 2_000_000);
    let text = std::fs::read_to_string(&file).expect("read");
    // run on a big-stack thread so that deep recursion in the toolchain shows up as an error, not a crash of the harness
    let handle = std::thread::Builder::new().stack_size(256 << 20).spawn(move || {
        let text = text;
        let progs: Vec<&str> = text.split("\n=====\n").collect();
        for (i, p) in progs.iter().enumerate() {
            for &o in &opts {
                for &g in &gcs {
                    let _ = aelys_backend::verif::take_call_windows();
                    let (r, _code) = run_program_script(p, o, g, budget, None);
                    println!("{}\t{}\t{}:{}\t{}\t{}\t{}\t{}", i, o, g.0, g.1, r.class, esc(&r.output), esc(&r.value), esc(&r.detail));
                    // frame-pushing calls the compiler emitted, and those with a register in use above their window
                    let (calls, bad) = aelys_backend::verif::take_call_windows();
                    let bad: Vec<String> = bad.iter().map(|w| format!("{}:{}:base={}:nargs={}:in-use-above={:?}", w.op, w.function, w.base, w.nargs, w.in_use_above)).collect();
                    println!("WIN\t{}\t{}\t{}\t{}", i, o, calls, esc(&bad.join(";")));
                }
            }
        }
    }).unwrap();
    handle.join().unwrap();
}
#[cfg(not(vbxq_aelys_lang_verif))]
fn main() { eprintln!("built without hooks"); std::process::exit(2); }
